package rules

import (
	"fmt"
	"go/token"

	"dtnverif/core"

	"golang.org/x/tools/go/ssa"
)

func init() { Registry["C20"] = C20 }

var dtlsrGuarded = []guardedField{
	{routingPkg, "DTLSR", "routingTable", "pkg/routing.DTLSR.dataMutex"},
	{routingPkg, "DTLSR", "receivedData", "pkg/routing.DTLSR.dataMutex"},
	{routingPkg, "DTLSR", "peers", "pkg/routing.DTLSR.dataMutex"},
	{routingPkg, "DTLSR", "nodeIndex", "pkg/routing.DTLSR.dataMutex"},
	{routingPkg, "DTLSR", "indexNode", "pkg/routing.DTLSR.dataMutex"},
	{routingPkg, "DTLSR", "length", "pkg/routing.DTLSR.dataMutex"},
	{routingPkg, "DTLSR", "peerChange", "pkg/routing.DTLSR.dataMutex"},
	{routingPkg, "DTLSR", "receivedChange", "pkg/routing.DTLSR.dataMutex"},
}

// C20 — DTLSR forwards along a least-cost path of the known graph.
func C20(p *core.Program, r *core.Report) {
	r.Explanation = "The optimality of the next hop is the result of a third-party Dijkstra on a run-time graph and is NOT decided. Decided (necessary conditions): (GC) link-state data replaces stored data only if absent or strictly newer (ShouldReplace is the strict timestamp comparison) and is stored under the ID inside the block; (GC) a unicast bundle is handed only to the connected peer equal to routingTable[destination] and only then released, broadcast bundles are never released by the algorithm; (FW) the node-numbering triple nodeIndex/indexNode/length is written only by the constructor and newNode, which updates all three consistently; computeRoutingTable fills the table from indexNode[path[1]] for i in 1..length-1 and queries Shortest(0,i); every node named in a stored record is numbered in the same critical section; (DP) arc cost is 0 for a live link and now - lossTime otherwise, for both arc loops; (AT) all DTLSR state is accessed under dataMutex."
	r.Assumptions = append(r.Assumptions,
		"github.com/RyanCarrier/dijkstra Shortest(0,i) returns a minimum-cost path starting at vertex 0 (not analysed)",
		"vertex numbers are the nodeIndex values (checked: AddVertex(i) for i < length)")

	nnb := p.Func(routingPkg, "DTLSR", "NotifyNewBundle")
	newNode := p.Func(routingPkg, "DTLSR", "newNode")
	crt := p.Func(routingPkg, "DTLSR", "computeRoutingTable")
	sfb := p.Func(routingPkg, "DTLSR", "SenderForBundle")

	// ---- (1) replace only if newer
	sr := p.Func(bp7, "DTLSRPeerData", "ShouldReplace")
	okSR := false
	for _, rv := range core.ReturnValues(sr, 0) {
		if b, ok := rv.V.(*ssa.BinOp); ok {
			big, small, strict, isOrd := core.Greater(b)
			if !isOrd || !strict {
				continue
			}
			bx, px, _ := core.FieldRef(big)
			by, py, _ := core.FieldRef(small)
			if len(px) == 1 && len(py) == 1 && px[0] == "Timestamp" && py[0] == "Timestamp" && rootParamIdx(sr, bx) == 0 && rootParamIdx(sr, by) == 1 {
				okSR = true
			}
		}
	}
	r.Check(okSR, "replace-if-newer/"+fname(sr)+"/strict", "ShouldReplace(other) is the strict comparison receiver.Timestamp > other.Timestamp", p.Pos(sr.Pos()), "", "ShouldReplace is no longer `pd.Timestamp > other.Timestamp`")

	nStore := 0
	for _, fn := range p.RepoFuncs() {
		core.EachInstr(fn, func(in ssa.Instruction) {
			mu, ok := in.(*ssa.MapUpdate)
			if !ok || !pathEndsWith(mu.Map, "receivedData") {
				return
			}
			nStore++
			base := fmt.Sprintf("replace-if-newer/%s/store#%d", fname(fn), nStore)
			if fn != nnb {
				r.Fail(base, "receivedData is written only by DTLSR.NotifyNewBundle", p.Pos(mu.Pos()), "unexpected writer")
				return
			}
			conds := core.DominatingConds(mu.Block())
			okGuard := false
			for _, c := range conds {
				// !present
				if ex, isEx := c.V.(*ssa.Extract); isEx && ex.Index == 1 && !c.True {
					if l, isL := ex.Tuple.(*ssa.Lookup); isL && pathEndsWith(l.X, "receivedData") && (l.Index == mu.Key || sameSource(l.Index, mu.Key)) {
						okGuard = true
					}
				}
				if call, isCall := core.CondIsCall(c, bp7+".DTLSRPeerData.ShouldReplace"); isCall && c.True {
					// receiver = new data (value stored), arg = the stored record looked up under the same key
					okNew := sameLoadedVar(core.CallRecv(call), mu.Value)
					okOld := core.DependsOn(core.Arg(call, 0), func(v ssa.Value) bool {
						l, isL := v.(*ssa.Lookup)
						return isL && pathEndsWith(l.X, "receivedData")
					})
					if okNew && okOld {
						okGuard = true
					}
				}
			}
			r.Check(okGuard, base+"/guard", "link-state data is stored only if none is stored for that node or the new data is strictly newer than the stored one", p.Pos(mu.Pos()), "", "store reachable otherwise; "+condStrings(conds))
			r.Check(pathEndsWith(mu.Key, "ID"), base+"/key", "the record is stored under the node ID inside the block (data.ID)", p.Pos(mu.Pos()), "", "key is not data.ID")
			// every node of the record is numbered before the lock is released: newNode over data.Peers follows on all paths
			okNum, _ := core.MustPassAfter(mu, func(i ssa.Instruction) bool {
				rg, isR := i.(*ssa.Range)
				return isR && pathEndsWith(rg.X, "Peers")
			}, core.IsReturn)
			okLoop := false
			for _, c := range core.CallsTo(fn, routingPkg+".DTLSR.newNode") {
				if core.InLoop(c.Block()) {
					okLoop = true
				}
			}
			r.Check(okNum && okLoop, base+"/peers-numbered", "every node named in a stored record gets a vertex number (newNode) in the same critical section", p.Pos(mu.Pos()), "", "no loop over data.Peers calling newNode after the store")
		})
	}
	r.Min("stores to DTLSR.receivedData", 2)
	r.Count("stores to DTLSR.receivedData", nStore)
	// the new node's own ID is numbered on the !present arm
	okOwn := false
	for _, c := range core.CallsTo(nnb, routingPkg+".DTLSR.newNode") {
		if pathEndsWith(core.Arg(c, 0), "ID") && !core.InLoop(c.Block()) {
			okOwn = true
		}
	}
	r.Check(okOwn, "replace-if-newer/"+fname(nnb)+"/sender-numbered", "the originator of a new record is numbered, too", p.Pos(nnb.Pos()), "", "newNode(data.ID) missing")

	// ---- (2) unicast only to the table's next hop
	bcast := false
	nApp := 0
	core.EachInstr(sfb, func(in ssa.Instruction) {
		c, ok := in.(*ssa.Call)
		if !ok {
			return
		}
		if b, ok := c.Common().Value.(*ssa.Builtin); !ok || b.Name() != "append" || !isSenderSlice(c.Type()) {
			return
		}
		nApp++
		cs := appendedSender(c)
		conds := core.DominatingConds(c.Block())
		okHop := false
		for _, cd := range conds {
			b, ok := cd.V.(*ssa.BinOp)
			if !ok || b.Op != token.EQL || !cd.True {
				continue
			}
			for _, pair := range [][2]ssa.Value{{b.X, b.Y}, {b.Y, b.X}} {
				if !isPeerIDOf(pair[0], cs) {
					continue
				}
				ex, ok := pair[1].(*ssa.Extract)
				if !ok {
					if l, ok := pair[1].(*ssa.Lookup); ok && pathEndsWith(l.X, "routingTable") && pathEndsWith(l.Index, "PrimaryBlock", "Destination") {
						okHop = true
					}
					continue
				}
				if l, ok := ex.Tuple.(*ssa.Lookup); ok && ex.Index == 0 && pathEndsWith(l.X, "routingTable") && pathEndsWith(l.Index, "PrimaryBlock", "Destination") {
					okHop = true
				}
			}
		}
		r.Check(okHop, "unicast-next-hop/"+fname(sfb)+"/selection", "a unicast bundle is handed only to the connected peer whose endpoint equals routingTable[bundle.Destination]", p.Pos(c.Pos()), "", "selection not guarded by cs.GetPeerEndpointID() == routingTable[destination]; "+condStrings(conds))
	})
	r.Min("unicast selections in DTLSR.SenderForBundle", 1)
	r.Count("unicast selections in DTLSR.SenderForBundle", nApp)
	// delete result: true only in the block of the unicast selection
	for _, rv := range core.ReturnValues(sfb, 1) {
		if core.IsBoolConst(rv.V, false) {
			continue
		}
		if c, ok := rv.V.(*ssa.Const); ok && c.Value == nil {
			continue
		}
		hasSel := false
		for _, in := range rv.At.Block().Instrs {
			if c, ok := in.(*ssa.Call); ok {
				if b, ok := c.Common().Value.(*ssa.Builtin); ok && b.Name() == "append" && isSenderSlice(c.Type()) {
					hasSel = true
				}
			}
		}
		r.Check(hasSel && core.IsBoolConst(rv.V, true), "unicast-next-hop/"+fname(sfb)+"/release", "the algorithm asks to release a bundle only together with handing it to the table's next hop", p.Pos(rv.At.Pos()), "", "delete may be true without a next-hop selection")
	}
	// broadcast part: filterCLAs under Destination == broadcastAddress, returns delete as initialised (false)
	for _, c := range core.CallsTo(sfb, routingPkg+".filterCLAs") {
		for _, cd := range core.DominatingConds(c.Block()) {
			if b, ok := cd.V.(*ssa.BinOp); ok && b.Op == token.EQL && cd.True && (pathEndsWith(b.X, "PrimaryBlock", "Destination") && pathEndsWith(b.Y, "broadcastAddress") || pathEndsWith(b.Y, "PrimaryBlock", "Destination") && pathEndsWith(b.X, "broadcastAddress")) {
				bcast = true
			}
		}
	}
	r.Check(bcast, "broadcast/"+fname(sfb)+"/all-unsent-peers", "bundles addressed to the broadcast endpoint go through filterCLAs (every peer once, see C13)", p.Pos(sfb.Pos()), "", "no filterCLAs call under Destination == broadcastAddress")

	// ---- (3) FW index mapping integrity
	allowed := map[string]map[string]bool{
		"nodeIndex":    {"pkg/routing.DTLSR.newNode": true},
		"indexNode":    {"pkg/routing.DTLSR.newNode": true},
		"length":       {"pkg/routing.DTLSR.newNode": true},
		"routingTable": {"pkg/routing.DTLSR.computeRoutingTable": true},
	}
	nFW := 0
	for _, fn := range p.RepoFuncs() {
		core.EachInstr(fn, func(in ssa.Instruction) {
			var field string
			var addr ssa.Value
			switch x := in.(type) {
			case *ssa.Store:
				addr = x.Addr
			case *ssa.MapUpdate:
				if u, ok := x.Map.(*ssa.UnOp); ok {
					addr = u.X
				}
			}
			if addr == nil {
				return
			}
			for f := range allowed {
				if core.IsField(addr, routingPkg, "DTLSR", f) {
					field = f
				}
			}
			if field == "" || underConstruction(addr) {
				return
			}
			nFW++
			r.Check(allowed[field][fname(fn)], "who-may-write/"+fname(fn)+"/DTLSR."+field, "the node numbering (nodeIndex, indexNode, length) is written only by newNode and the routing table only by computeRoutingTable", p.Pos(in.Pos()), "", "unexpected writer of DTLSR."+field)
		})
	}
	r.Min("writers of DTLSR numbering/table", 4)
	r.Count("writers of DTLSR numbering/table", nFW)
	// newNode: nodeIndex[id] = length; indexNode = append(indexNode, id); length = length+1; guarded by !present
	var okIdx, okApp, okLen bool
	core.EachInstr(newNode, func(in ssa.Instruction) {
		switch x := in.(type) {
		case *ssa.MapUpdate:
			if pathEndsWith(x.Map, "nodeIndex") && x.Key == ssa.Value(newNode.Params[1]) && core.IsField(x.Value, routingPkg, "DTLSR", "length") {
				okIdx = !presentGuard(x.Block(), "nodeIndex", newNode.Params[1])
				okIdx = presentGuard(x.Block(), "nodeIndex", newNode.Params[1])
			}
		case *ssa.Store:
			if core.IsField(x.Addr, routingPkg, "DTLSR", "indexNode") {
				if c, ok := x.Val.(*ssa.Call); ok {
					if b, ok := c.Common().Value.(*ssa.Builtin); ok && b.Name() == "append" && core.IsField(c.Common().Args[0], routingPkg, "DTLSR", "indexNode") && appendedSender(c) == ssa.Value(newNode.Params[1]) {
						okApp = true
					}
				}
			}
			if core.IsField(x.Addr, routingPkg, "DTLSR", "length") {
				if b, ok := x.Val.(*ssa.BinOp); ok && b.Op == token.ADD && core.IsField(b.X, routingPkg, "DTLSR", "length") {
					if k, ok := core.ConstInt(b.Y); ok && k == 1 {
						okLen = true
					}
				}
			}
		}
	})
	r.Check(okIdx && okApp && okLen, "numbering/"+fname(newNode)+"/consistent", "newNode gives an unknown node the number `length`, appends it to indexNode at that position and increments length (bijection between IDs and vertex numbers)", p.Pos(newNode.Pos()), "", fmt.Sprintf("nodeIndex[id]=length under !present: %v, indexNode=append(indexNode,id): %v, length+1: %v", okIdx, okApp, okLen))

	// computeRoutingTable: table[indexNode[i]] = indexNode[path[1]], Shortest(0, i)
	okTbl, okShort := false, false
	core.EachInstr(crt, func(in ssa.Instruction) {
		if mu, ok := in.(*ssa.MapUpdate); ok && isIndexNodeElem(mu.Key) != nil && isIndexNodeElem(mu.Value) != nil {
			idx := isIndexNodeElem(mu.Value)
			// idx = shortest.Path[1]
			if ld, ok := idx.(*ssa.UnOp); ok {
				if ia, ok := ld.X.(*ssa.IndexAddr); ok && pathEndsWith(ia.X, "Path") {
					if k, ok := core.ConstInt(ia.Index); ok && k == 1 {
						okTbl = true
					}
				}
			}
		}
	})
	for _, c := range core.CallsTo(crt, "github.com/RyanCarrier/dijkstra.Graph.Shortest") {
		if k, ok := core.ConstInt(core.Arg(c, 0)); ok && k == 0 {
			okShort = true
		}
	}
	r.Check(okTbl, "table/"+fname(crt)+"/next-hop-is-second-path-node", "the table maps indexNode[i] to indexNode[path[1]], the first hop of the path from this node", p.Pos(crt.Pos()), "", "routingTable[...] = indexNode[shortest.Path[1]] not found")
	r.Check(okShort, "table/"+fname(crt)+"/paths-from-self", "paths are computed from vertex 0 (this node)", p.Pos(crt.Pos()), "", "Shortest(0, i) not found")
	// the table is replaced by the freshly computed one
	okRepl := false
	core.EachInstr(crt, func(in ssa.Instruction) {
		if st, ok := in.(*ssa.Store); ok && core.IsField(st.Addr, routingPkg, "DTLSR", "routingTable") {
			if _, isMk := st.Val.(*ssa.MakeMap); isMk {
				okRepl = true
			}
		}
	})
	if !okRepl {
		// or the table is updated in place and the stale entries are removed: cleared by a range-and-delete over the
		// table, or the destination is deleted on the branch on which no path was found
		isTable := func(v ssa.Value) bool {
			ld, ok := core.Strip(v).(*ssa.UnOp)
			return ok && core.IsField(ld.X, routingPkg, "DTLSR", "routingTable")
		}
		ranged := false
		core.EachInstr(crt, func(in ssa.Instruction) {
			if rg, ok := in.(*ssa.Range); ok && isTable(rg.X) {
				ranged = true
			}
		})
		core.EachInstr(crt, func(in ssa.Instruction) {
			c, ok := in.(*ssa.Call)
			if !ok {
				return
			}
			b, isB := c.Common().Value.(*ssa.Builtin)
			if !isB || b.Name() != "delete" || !isTable(c.Common().Args[0]) {
				return
			}
			if ranged {
				okRepl = true
			}
			for _, sc := range core.CallsTo(crt, "github.com/RyanCarrier/dijkstra.Graph.Shortest") {
				if errNonNilGuard(core.DominatingConds(c.Block()), sc.(ssa.Value)) {
					okRepl = true
				}
			}
		})
	}
	r.Check(okRepl, "table/"+fname(crt)+"/replaced", "each recomputation replaces the whole table (destinations without a path disappear)", p.Pos(crt.Pos()), "", "dtlsr.routingTable is neither assigned a new map nor cleared / pruned of destinations without a path")

	// ---- (4) arc cost shape
	nArc := 0
	for _, c := range core.CallsTo(crt, "github.com/RyanCarrier/dijkstra.Graph.AddArc") {
		nArc++
		cost := core.Arg(c, 2)
		ok := false
		detail := ""
		// the cost computation extracted into a helper f(now, timestamp): check the shape inside the helper
		// and that its arguments are the current time and the link's timestamp
		if hc, isCall := cost.(*ssa.Call); isCall {
			if f := hc.Common().StaticCallee(); f != nil && core.IsRepo(f) && f.Blocks != nil && len(f.Params) == 2 {
				nowArg, isNow := hc.Common().Args[0].(*ssa.Call)
				okNow := isNow && core.NameIs(core.CalleeName(nowArg), bp7+".DtnTimeNow")
				okZero, okDiff, okSign := false, false, false
				// timestamp == 0 => 0: every return reachable from the true edge of that test returns the constant 0
				for _, blk := range f.Blocks {
					ifi, isIf := blk.Instrs[len(blk.Instrs)-1].(*ssa.If)
					if !isIf {
						continue
					}
					b, isB := ifi.Cond.(*ssa.BinOp)
					if !isB || b.Op != token.EQL || b.X != ssa.Value(f.Params[1]) {
						continue
					}
					if z, isC := core.ConstInt(b.Y); !isC || z != 0 {
						continue
					}
					all, any := true, false
					reach := core.BlocksReachableFrom(blk.Succs[0])
					for _, ret := range core.Returns(f) {
						if !reach[ret.Block()] {
							continue
						}
						any = true
						if k, isC := core.ConstInt(ret.Results[0]); !isC || k != 0 {
							all = false
						}
					}
					if all && any {
						okZero = true
					}
				}
				for _, rv := range core.ReturnValues(f, 0) {
					if k, isC := core.ConstInt(rv.V); isC && k == 0 {
						cs := core.DominatingConds(rv.At.Block())
						if ifi, ok := rv.At.(*ssa.If); ok {
							cs = append(cs, core.Cond{V: ifi.Cond, True: true, If: ifi})
						}
						for _, cd := range cs {
							if b, isB := cd.V.(*ssa.BinOp); isB && b.Op == token.EQL && cd.True && b.X == ssa.Value(f.Params[1]) {
								if z, isC := core.ConstInt(b.Y); isC && z == 0 {
									okZero = true
								}
							}
						}
						// phi edge from the branch block itself
						if blk := rv.At.Block(); !okZero {
							if ifi, ok := blk.Instrs[len(blk.Instrs)-1].(*ssa.If); ok {
								if b, isB := ifi.Cond.(*ssa.BinOp); isB && b.Op == token.EQL && b.X == ssa.Value(f.Params[1]) {
									okZero = true
								}
							}
						}
						continue
					}
					var sub *ssa.BinOp
					core.DependsOn(rv.V, func(v ssa.Value) bool {
						if bo, isB := v.(*ssa.BinOp); isB && bo.Op == token.SUB && bo.X == ssa.Value(f.Params[0]) && bo.Y == ssa.Value(f.Params[1]) {
							sub = bo
							return true
						}
						return false
					})
					if sub != nil {
						okDiff = true
						// the unsigned difference is taken only when the loss time is not ahead of the clock: a time
						// stamp in the future would be a huge unsigned / negative signed cost (no termination of the path search)
						for _, cd := range core.DominatingConds(sub.Block()) {
							if big, small, _, isOrd := core.CondGreater(cd); isOrd && big == ssa.Value(f.Params[0]) && small == ssa.Value(f.Params[1]) {
								okSign = true
							}
						}
					}
				}
				ok = okNow && okZero && okDiff && okSign
				detail = fmt.Sprintf("helper %s: first argument is DtnTimeNow(): %v, returns 0 on timestamp==0: %v, otherwise now-timestamp: %v, difference only taken when now >= timestamp: %v", f.Name(), okNow, okZero, okDiff, okSign)
			}
		}
		if phi, isPhi := cost.(*ssa.Phi); isPhi && len(phi.Edges) == 2 {
			var zeroPred, diffPred *ssa.BasicBlock
			var diff ssa.Value
			for i, e := range phi.Edges {
				if k, isC := core.ConstInt(e); isC && k == 0 {
					zeroPred = phi.Block().Preds[i]
				} else {
					diff = e
					diffPred = phi.Block().Preds[i]
				}
			}
			if zeroPred != nil && diff != nil {
				if sub, isSub := core.Strip(diff).(*ssa.BinOp); isSub && sub.Op == token.SUB {
					_, isNow := sub.X.(*ssa.Call)
					okNow := isNow && core.NameIs(core.CalleeName(sub.X.(*ssa.Call)), bp7+".DtnTimeNow")
					// zero edge taken iff timestamp == 0 for the same timestamp
					okZero := false
					for _, cd := range core.DominatingConds(zeroPred) {
						if b, isB := cd.V.(*ssa.BinOp); isB && b.Op == token.EQL && cd.True && b.X == sub.Y {
							if k, isC := core.ConstInt(b.Y); isC && k == 0 {
								okZero = true
							}
						}
					}
					okSign := false
					for _, cd := range core.DominatingConds(diffPred) {
						if big, small, _, isOrd := core.CondGreater(cd); isOrd && big == sub.X && small == sub.Y {
							okSign = true
						}
					}
					ok = okNow && okZero && okSign
					detail = fmt.Sprintf("now-timestamp: %v; zero on timestamp==0: %v; difference only taken when now >= timestamp: %v (a loss time ahead of the local clock gives a negative cost, the path search of the dijkstra library then does not terminate and holds the algorithm's lock)", okNow, okZero, okSign)
				}
			}
		}
		r.Check(ok, fmt.Sprintf("arc-cost/%s/AddArc#%d", fname(crt), nArc), "a live link (timestamp 0) costs 0, a lost link costs now - lossTime, and the cost is never negative (a loss time ahead of the clock costs 0)", p.Pos(c.Pos()), detail, "cost expression changed: "+detail)
	}
	r.Min("AddArc calls", 2)
	r.Count("AddArc calls", nArc)

	// ---- (6) link events reach the link state the arc costs are computed from
	checkLinkEvents(p, r)
	checkDisappearanceAfterDeactivation(p, r)
	checkOwnRecordAndPurge(p, r)

	// ---- (5) AT
	g := newGuardedEngine(p)
	n := g.checkGuarded(r, dtlsrGuarded, true)
	r.Min("accesses to DTLSR state", 20)
	r.Count("accesses to DTLSR state", n)
	checkBroadcastOncePerPeer(p, r)
}

func rootParamIdx(fn *ssa.Function, base ssa.Value) int {
	for i, par := range fn.Params {
		if base == ssa.Value(par) {
			return i
		}
		if a, ok := base.(*ssa.Alloc); ok && allocHoldsParam(a, par) {
			return i
		}
	}
	return -1
}

// sameLoadedVar: a and b are loads of the same local variable (or identical).
func sameLoadedVar(a, b ssa.Value) bool {
	if a == b {
		return true
	}
	la, ok1 := a.(*ssa.UnOp)
	lb, ok2 := b.(*ssa.UnOp)
	return ok1 && ok2 && la.X == lb.X
}

// presentGuard: block is dominated by the !present outcome of a comma-ok
// lookup of field[key].
func presentGuard(b *ssa.BasicBlock, field string, key ssa.Value) bool {
	for _, c := range core.DominatingConds(b) {
		if ex, ok := c.V.(*ssa.Extract); ok && ex.Index == 1 && !c.True {
			if l, ok := ex.Tuple.(*ssa.Lookup); ok && pathEndsWith(l.X, field) && l.Index == key {
				return true
			}
		}
	}
	return false
}

// isIndexNodeElem: v is a load of dtlsr.indexNode[idx]; returns idx.
func isIndexNodeElem(v ssa.Value) ssa.Value {
	ld, ok := v.(*ssa.UnOp)
	if !ok || ld.Op != token.MUL {
		return nil
	}
	ia, ok := ld.X.(*ssa.IndexAddr)
	if !ok || !pathEndsWith(ia.X, "indexNode") {
		return nil
	}
	return ia.Index
}

// checkLinkEvents: the arc cost rule (4) reads peers.Peers[p]: 0 means live,
// a time stamp means lost since then. For the table to describe the links as
// they are, every appearance of a peer must reset the entry to 0 and every
// disappearance must set it to the current time, flag the change (so that the
// table is recomputed and the state broadcast) and stamp the record — on every
// path on which the event names a peer. The only accepted way round the store
// is a test showing that the entry already has the value.
func checkLinkEvents(p *core.Program, r *core.Report) {
	for _, ev := range []struct {
		name string
		live bool
	}{{"ReportPeerAppeared", true}, {"ReportPeerDisappeared", false}} {
		fn := p.Func(routingPkg, "DTLSR", ev.name)
		// the peer's endpoint ID
		var idCall *ssa.Call
		core.EachInstr(fn, func(in ssa.Instruction) {
			if c, ok := in.(*ssa.Call); ok && idCall == nil && c.Common().IsInvoke() && c.Common().Method.Name() == "GetPeerEndpointID" && !fromActiveSenders(c.Common().Value) {
				idCall = c
			}
		})
		key := "link-events/" + fname(fn) + "/"
		if idCall == nil {
			r.Fail(key+"peer-id", "the event handler obtains the peer's endpoint ID", p.Pos(fn.Pos()), "GetPeerEndpointID not called")
			continue
		}
		isEntryStore := func(i ssa.Instruction) bool {
			mu, ok := i.(*ssa.MapUpdate)
			if !ok || !pathEndsWith(mu.Map, "peers", "Peers") || mu.Key != ssa.Value(idCall) {
				return false
			}
			k, isC := core.ConstInt(mu.Value)
			if ev.live {
				return isC && k == 0
			}
			c, isCall := mu.Value.(*ssa.Call)
			return isCall && core.NameIs(core.CalleeName(c), bp7+".DtnTimeNow")
		}
		isFlag := func(i ssa.Instruction) bool {
			st, ok := i.(*ssa.Store)
			return ok && core.IsField(st.Addr, routingPkg, "DTLSR", "peerChange") && core.IsBoolConst(st.Val, true)
		}
		isStamp := func(i ssa.Instruction) bool {
			st, ok := i.(*ssa.Store)
			return ok && pathEndsWith(st.Addr, "peers", "Timestamp")
		}
		// a return after the ID is known may skip the store only behind "entry already has this value"
		alreadySo := func(ret ssa.Instruction) bool {
			for _, cd := range core.DominatingConds(ret.Block()) {
				b, ok := cd.V.(*ssa.BinOp)
				if !ok || !((b.Op == token.EQL && cd.True) || (b.Op == token.NEQ && !cd.True)) {
					continue
				}
				// a disappearance does not end the link while another active sender leads to the same peer
				if !ev.live {
					for _, pair := range [][2]ssa.Value{{b.X, b.Y}, {b.Y, b.X}} {
						oc, isCall := pair[0].(*ssa.Call)
						if isCall && oc != idCall && oc.Common().IsInvoke() && oc.Common().Method.Name() == "GetPeerEndpointID" && pair[1] == ssa.Value(idCall) && fromActiveSenders(oc.Common().Value) {
							return true
						}
					}
				}
				for _, pair := range [][2]ssa.Value{{b.X, b.Y}, {b.Y, b.X}} {
					var lk *ssa.Lookup
					switch x := pair[0].(type) {
					case *ssa.Lookup:
						lk = x
					case *ssa.Extract:
						if l, ok := x.Tuple.(*ssa.Lookup); ok && x.Index == 0 {
							lk = l
						}
					}
					k, isC := core.ConstInt(pair[1])
					if lk != nil && pathEndsWith(lk.X, "peers", "Peers") && lk.Index == ssa.Value(idCall) && ev.live && isC && k == 0 {
						return true
					}
				}
			}
			return false
		}
		if !ev.live {
			// ... and that test exists: with two sessions to one neighbour (both sides dial, or two CLA kinds) the
			// end of one of them must not mark the link as lost
			okOther := false
			for _, rt := range core.Returns(fn) {
				if core.MustPassBefore(rt, func(i ssa.Instruction) bool { return i == ssa.Instruction(idCall) }) && alreadySo(rt) {
					okOther = true
				}
			}
			r.Check(okOther, key+"other-session-keeps-link", "a reported disappearance marks the link as lost only if no other active sender leads to the same peer (a neighbour is often connected by two sessions; the link is lost with the last one)", p.Pos(idCall.Pos()), "", "no early return under 'another active sender has this peer ID': the end of one of two sessions makes a live link cost the time since that moment, after the purge time the neighbour and everything behind it have no route")
		}
		what := "the peer's entry in peers.Peers is set to 0 (live link)"
		if !ev.live {
			what = "the peer's entry in peers.Peers is set to the current time (link lost now)"
		}
		for _, c := range []struct {
			name string
			pred func(ssa.Instruction) bool
			rule string
		}{
			{"entry", isEntryStore, "on every path that knows the peer's ID, " + what},
			{"change-flagged", isFlag, "on every path that knows the peer's ID, peerChange is set so that the routing table is recomputed and the link state broadcast"},
			{"record-stamped", isStamp, "on every path that knows the peer's ID, the node's own link-state record gets a new time stamp (receivers replace a record only by a strictly newer one)"},
		} {
			ok, ex := core.MustPassAfter(idCall, c.pred, func(i ssa.Instruction) bool { return core.IsReturn(i) && !alreadySo(i) })
			d := ""
			if !ok && ex != nil {
				d = "the return at " + p.Pos(ex.Pos()) + " is reached without it: the link state keeps describing the peer as it was before this event (e.g. a peer that reconnects within the purge window stays 'lost', its live link is costed by the time since the loss)"
			}
			r.Check(ok, key+c.name, c.rule, p.Pos(idCall.Pos()), "", d)
		}
	}
}

// fromActiveSenders: v is an element of the slice returned by cla.Manager.Sender().
func fromActiveSenders(v ssa.Value) bool {
	return core.DependsOn(v, func(x ssa.Value) bool {
		c, ok := x.(*ssa.Call)
		return ok && core.NameIs(core.CalleeName(c), claPkg+".Manager.Sender")
	})
}

// checkDisappearanceAfterDeactivation: DTLSR ignores a reported disappearance
// while another ACTIVE sender leads to the same peer. That test is only right
// if the adapter whose peer disappeared is no longer listed as active when the
// report arrives: the CLA manager must restart (deactivate) the adapter before
// it passes the PeerDisappeared status on to the Core.
func checkDisappearanceAfterDeactivation(p *core.Program, r *core.Report) {
	mh := p.Func(claPkg, "Manager", "handler")
	pd := constVal(p, claPkg, "PeerDisappeared")
	isRestart := func(i ssa.Instruction) bool {
		c, ok := i.(ssa.CallInstruction)
		return ok && core.NameIs(core.CalleeName(c), claPkg+".Manager.Restart")
	}
	n := 0
	core.EachInstr(mh, func(in ssa.Instruction) {
		isFwd := false
		switch x := in.(type) {
		case *ssa.Send:
			isFwd = pathEndsWith(x.Chan, "outChnl")
		case *ssa.Call:
			isFwd = core.NameIs(core.CalleeName(x), claPkg+".Manager.forward")
		}
		if !isFwd {
			return
		}
		// on the PeerDisappeared arm?
		onArm := false
		for _, cd := range core.DominatingConds(in.Block()) {
			if b, ok := cd.V.(*ssa.BinOp); ok && b.Op == token.EQL && cd.True && pathEndsWith(b.X, "MessageType") {
				if k, isC := core.ConstInt(b.Y); isC && k == pd {
					onArm = true
				}
			}
		}
		if !onArm {
			return
		}
		n++
		r.Check(core.MustPassBefore(in, isRestart), "link-events/"+fname(mh)+"/deactivated-before-reported", "the CLA manager restarts (deactivates) an adapter before it passes the adapter's PeerDisappeared status on: DTLSR keeps a link alive while an active sender to the peer exists, so the disappearing adapter must not count as active any more when the report arrives", p.Pos(in.Pos()), "", "the status is forwarded before Manager.Restart: DTLSR finds the disappearing adapter itself among the active senders, ignores the loss, the dead link keeps cost 0 and is never purged")
	})
	r.Count("forwarded PeerDisappeared statuses in Manager.handler", n)
	r.Min("forwarded PeerDisappeared statuses in Manager.handler", 1)
}

// checkOwnRecordAndPurge: (a) the arcs of the node itself come from
// dtlsr.peers; computeRoutingTable adds them first and the arcs of
// receivedData afterwards (AddArc overwrites). The node's own broadcast is
// announced to NotifyNewBundle like any other bundle: if it were stored in
// receivedData, a former state of the own links would override the current
// one (a lost link costs 0 again until the next broadcast). So no record is
// stored in receivedData unless its ID was found different from the node's.
// (b) purging a long-lost neighbour changes the own record: it gets a newer
// time stamp (receivers replace only by strictly newer data) and the change
// flag, in the same step as the removal.
func checkOwnRecordAndPurge(p *core.Program, r *core.Report) {
	nn := p.Func(routingPkg, "DTLSR", "NotifyNewBundle")
	n := 0
	core.EachInstr(nn, func(in ssa.Instruction) {
		mu, ok := in.(*ssa.MapUpdate)
		if !ok || !pathEndsWith(mu.Map, "receivedData") {
			return
		}
		n++
		okOwn := false
		for _, cd := range core.DominatingConds(mu.Block()) {
			b, ok := cd.V.(*ssa.BinOp)
			if !ok || !((b.Op == token.EQL && !cd.True) || (b.Op == token.NEQ && cd.True)) {
				continue
			}
			for _, pair := range [][2]ssa.Value{{b.X, b.Y}, {b.Y, b.X}} {
				if pathEndsWith(pair[0], "ID") && pathEndsWith(pair[1], "NodeId") {
					okOwn = true
				}
			}
		}
		r.Check(okOwn, fmt.Sprintf("own-record/%s/receivedData#%d", fname(nn), n), "link-state data is stored in receivedData only if it is not the node's own (data.ID != NodeId): the own links are described by dtlsr.peers, a stored echo of an earlier broadcast would override their current state in computeRoutingTable", p.Pos(mu.Pos()), "", "the node's own broadcast can be stored as received data: after a link loss the routing table keeps using the lost neighbour at cost 0 until the next broadcast")
	})
	r.Count("stores into DTLSR.receivedData", n)
	r.Min("stores into DTLSR.receivedData", 2)

	pp := p.Func(routingPkg, "DTLSR", "purgePeers")
	nDel := 0
	core.EachInstr(pp, func(in ssa.Instruction) {
		c, ok := in.(*ssa.Call)
		if !ok {
			return
		}
		b, ok := c.Common().Value.(*ssa.Builtin)
		if !ok || b.Name() != "delete" || !pathEndsWith(c.Common().Args[0], "peers", "Peers") {
			return
		}
		nDel++
		l := core.InnermostLoop(core.Loops(pp), in.Block())
		leaves := func(i ssa.Instruction) bool {
			if core.IsReturn(i) {
				return true
			}
			return l != nil && i.Block() == l.Header
		}
		okStamp, _ := core.MustPassAfter(in, func(i ssa.Instruction) bool {
			st, ok := i.(*ssa.Store)
			return ok && pathEndsWith(st.Addr, "peers", "Timestamp")
		}, leaves)
		okFlag, _ := core.MustPassAfter(in, func(i ssa.Instruction) bool {
			st, ok := i.(*ssa.Store)
			return ok && core.IsField(st.Addr, routingPkg, "DTLSR", "peerChange") && core.IsBoolConst(st.Val, true)
		}, leaves)
		r.Check(okStamp && okFlag, "link-events/"+fname(pp)+"/purge-stamps-record", "removing a long-lost neighbour from the own record gives the record a new time stamp and flags the change in the same step (other nodes replace link-state data only by strictly newer data: without the stamp they keep the purged link for ever)", p.Pos(in.Pos()), "", fmt.Sprintf("record stamped: %v, change flagged: %v", okStamp, okFlag))
	})
	r.Count("peer removals in purgePeers", nDel)
	r.Min("peer removals in purgePeers", 1)
}

// checkBroadcastOncePerPeer: DTLSR selects the receivers of a link-state bundle with filterCLAs. "Once to every peer"
// needs, per call, that a sender is taken only if its peer is neither in the bundle's sent list nor was taken earlier
// in the same call (two active senders may lead to one peer): the membership test and the recording are kept in step.
func checkBroadcastOncePerPeer(p *core.Program, r *core.Report) {
	filter := p.Func(routingPkg, "", "filterCLAs")
	n := 0
	core.EachInstr(filter, func(in ssa.Instruction) {
		c, ok := in.(*ssa.Call)
		if !ok {
			return
		}
		if b, ok := c.Common().Value.(*ssa.Builtin); !ok || b.Name() != "append" || !isSenderSlice(c.Type()) {
			return
		}
		n++
		cs := appendedSender(c)
		lst, okG := membershipGuard(c.Block(), cs)
		rec := false
		for _, in2 := range c.Block().Instrs {
			c2, ok := in2.(*ssa.Call)
			if !ok {
				continue
			}
			if b, ok := c2.Common().Value.(*ssa.Builtin); ok && b.Name() == "append" && isEIDSlice(c2.Type()) && isPeerIDOf(appendedSender(c2), cs) {
				rec = okG && (c2.Common().Args[0] == lst || sameSource(c2.Common().Args[0], lst))
			}
		}
		r.Check(okG && rec, "broadcast/"+fname(filter)+"/once-per-peer", "a sender is selected only on the not-found outcome of a membership test of its peer against the bundle's sent list, and the peer enters the tested list (or its index) in the same step: a second sender towards the same peer is excluded within the same call", p.Pos(c.Pos()), "", fmt.Sprintf("membership test in step with the recording: %v; recorded in the tested list: %v", okG, rec))
	})
	r.Min("selection sites in filterCLAs", 1)
	r.Count("selection sites in filterCLAs", n)
	sfb := p.Func(routingPkg, "DTLSR", "SenderForBundle")
	r.Check(len(core.CallsTo(sfb, routingPkg+".filterCLAs")) > 0, "broadcast/"+fname(sfb)+"/uses-filter", "DTLSR selects the receivers of broadcast bundles through filterCLAs", p.Pos(sfb.Pos()), "", "no call to filterCLAs")
}

// checkArcCostsNonNegative (shared with C04, "never loops for ever" on bytes from the network): the dijkstra library
// terminates only for non-negative edge costs. Costs come from time stamps in received link-state blocks; the unsigned
// difference now - lossTime is negative as int64 when the stamp is ahead of the local clock. Every unsigned time
// difference that flows into a Graph.AddArc cost is taken behind now >= lossTime.
func checkArcCostsNonNegative(p *core.Program, r *core.Report) {
	crt := p.Func(routingPkg, "DTLSR", "computeRoutingTable")
	n := 0
	for _, c := range core.CallsTo(crt, "github.com/RyanCarrier/dijkstra.Graph.AddArc") {
		n++
		cost := core.Arg(c, 2)
		// collect the subtractions the cost depends on, in crt or in a helper it calls for the cost
		type site struct {
			sub *ssa.BinOp
		}
		var subs []site
		collect := func(v ssa.Value) {
			core.DependsOn(v, func(x ssa.Value) bool {
				if bo, ok := x.(*ssa.BinOp); ok && bo.Op == token.SUB {
					subs = append(subs, site{bo})
				}
				return false
			})
		}
		collect(cost)
		if hc, isCall := cost.(*ssa.Call); isCall {
			if f := hc.Common().StaticCallee(); f != nil && core.IsRepo(f) && f.Blocks != nil {
				for _, rv := range core.ReturnValues(f, 0) {
					collect(rv.V)
				}
			}
		}
		ok := true
		for _, s := range subs {
			guarded := false
			for _, cd := range core.DominatingConds(s.sub.Block()) {
				if big, small, _, isOrd := core.CondGreater(cd); isOrd && big == s.sub.X && small == s.sub.Y {
					guarded = true
				}
			}
			if !guarded {
				ok = false
			}
		}
		r.Check(ok, fmt.Sprintf("arc-cost/%s/non-negative#%d", fname(crt), n), "an edge cost handed to the shortest-path library is never negative: each time difference in it is taken only behind now >= lossTime", p.Pos(c.Pos()), fmt.Sprintf("%d difference(s)", len(subs)), "a time stamp from a received link-state block that lies ahead of the local clock gives a negative cost; with a cycle through such an edge the path search never terminates and keeps the algorithm's lock: the node stops processing every convergence-layer event")
	}
	r.Min("AddArc calls", 2)
	r.Count("AddArc calls", n)
}
