package rules

import (
	"fmt"
	"go/token"
	"go/types"
	"sort"
	"strings"

	"dtnverif/core"

	"golang.org/x/tools/go/ssa"
)

func init() { Registry["C01"] = C01 }

type codecPair struct {
	name     string
	enc, dec *ssa.Function
	flat     bool // top-level array whose elements are all single tokens
}

func cborPair(p *core.Program, pkg, typ string) codecPair {
	return codecPair{name: typ, enc: p.Func(pkg, typ, "MarshalCbor"), dec: p.Func(pkg, typ, "UnmarshalCbor"), flat: true}
}

// checkCodecPairs runs the wire-grammar agreement rule on the pairs.
func checkCodecPairs(p *core.Program, r *core.Report, pairs []codecPair, derived map[string]bool) {
	for _, cp := range pairs {
		key := "wire-grammar/" + cp.name
		rule := "encoder and decoder of a wire format perform the same sequence of primitive operations on every success path (same element kinds, same order, same optional groups, same announced lengths) and move the same fields"
		enc, ok1 := grammarOf(p, cp.enc, encSide)
		dec, ok2 := grammarOf(p, cp.dec, decSide)
		if !ok1 || !ok2 {
			r.Unknown(key, rule, p.Pos(cp.enc.Pos()), "codec outside the enumerable fragment (too many paths)")
			continue
		}
		if len(enc) == 0 || len(dec) == 0 {
			r.Unknown(key, rule, p.Pos(cp.enc.Pos()), fmt.Sprintf("no success path found (encoder %d, decoder %d)", len(enc), len(dec)))
			continue
		}
		ok, detail := compareGrammars(enc, dec, derived)
		if ok && cp.flat {
			for _, w := range append(append([]wirePath{}, enc...), dec...) {
				if o, d := topLevelCountOK(w); !o {
					ok, detail = false, d
				}
			}
		}
		d := "encoder: " + grammarString(enc) + "  decoder: " + grammarString(dec)
		if ok {
			r.OK(key, rule, p.Pos(cp.enc.Pos()), d)
		} else {
			r.Fail(key, rule, p.Pos(cp.dec.Pos()), detail+" — "+d)
		}
	}
	r.Count("codec pairs", len(pairs))
}

// C01 — bundle wire codec lossless, deterministic, idempotent.
func C01(p *core.Program, r *core.Report) {
	r.Explanation = "Round-trip equality of values is a run-time fact and is NOT decided. Decided, each a necessary condition: (WG) for 15 codec pairs the encoder's and the decoder's success paths — enumerated over all valuations of the CRC/fragment predicates and all candidate array lengths, literal field lists unrolled exactly, data-dependent loops taken 0..2 times — perform the same sequence of primitive wire operations, announce the number of elements they write, and move the same receiver fields; the decoder selects the optional fragment group exactly when the encoder does (enumeration over length x flag). (ND) nothing reachable from Bundle.MarshalCbor iterates a map, reads the clock, uses randomness, goroutines or channels, except the two exempt map-valued blocks. (FW) every writer of Bundle.CanonicalBlocks re-sorts the blocks, is an order-preserving removal, or is the decoder (whose result passes CheckValid, which requires the payload block last)."
	r.Assumptions = append(r.Assumptions,
		"cboring Write*/Read* primitives are mutually inverse (library, not analysed beyond its API)",
		"sort.Sort with canonicalBlockNumberSort puts block number 1 last (Less is checked structurally)")
	pairs := []codecPair{
		cborPair(p, bp7, "PrimaryBlock"), cborPair(p, bp7, "CanonicalBlock"), cborPair(p, bp7, "EndpointID"),
		cborPair(p, bp7, "DtnEndpoint"), cborPair(p, bp7, "IpnEndpoint"), cborPair(p, bp7, "CreationTimestamp"),
		cborPair(p, bp7, "BundleAgeBlock"), cborPair(p, bp7, "HopCountBlock"), cborPair(p, bp7, "PreviousNodeBlock"),
		cborPair(p, bp7, "BinarySprayBlock"), cborPair(p, bp7, "DTLSRBlock"), cborPair(p, bp7, "ProphetBlock"),
		cborPair(p, bp7, "SignatureBlock"), cborPair(p, bp7, "Bundle"),
		{name: "ExtensionBlockManager.WriteBlock/ReadBlock", enc: p.Func(bp7, "ExtensionBlockManager", "WriteBlock"), dec: p.Func(bp7, "ExtensionBlockManager", "ReadBlock")},
	}
	for i := range pairs {
		switch pairs[i].name {
		case "Bundle", "DtnEndpoint", "BundleAgeBlock", "PreviousNodeBlock", "BinarySprayBlock", "ProphetBlock", "DTLSRBlock":
			pairs[i].flat = false
		}
	}
	r.Min("codec pairs", 15)
	checkCodecPairs(p, r, pairs, map[string]bool{"CRC": true, "Version": true})
	checkOptionalGroupGuards(p, r)
	checkCRCEncoders(p, r) // the serialiser writes a freshly computed CRC over exactly what it wrote (shared with C03)
	checkSerialisationDeterminism(p, r)
	checkBlockOrderWriters(p, r)
}

// checkSerialisationDeterminism: ND.
func checkSerialisationDeterminism(p *core.Program, r *core.Report) {
	root := p.Func(bp7, "Bundle", "MarshalCbor")
	reach := p.Reachable([]*ssa.Function{root}, func(f *ssa.Function) bool {
		if core.IsRepo(f) {
			return true
		}
		if f.Pkg != nil && f.Pkg.Pkg.Path() == cbor {
			return true
		}
		return false
	})
	r.Analysed["functions_reachable_from_Bundle.MarshalCbor"] = len(reach)
	exempt := map[string]bool{"pkg/bpv7.ProphetBlock.MarshalCbor": true, "pkg/bpv7.DTLSRBlock.MarshalCbor": true}
	nExempt := 0
	var names []string
	for f := range reach {
		names = append(names, fname(f))
		if f.Blocks == nil {
			continue
		}
		// logging-only helpers of other packages are not part of the encoding
		core.EachInstr(f, func(in ssa.Instruction) {
			bad := ""
			switch x := in.(type) {
			case *ssa.Range:
				if _, isMap := x.X.Type().Underlying().(*types.Map); isMap {
					if exempt[fname(f)] {
						nExempt++
						r.Note("determinism/"+fname(f)+"/map-range", "exempt by the property: entry order inside this map-valued block is unspecified", p.Pos(x.Pos()), "")
						return
					}
					bad = "iterates over a map"
				}
			case *ssa.Go:
				bad = "starts a goroutine"
			case *ssa.Select:
				bad = "selects on channels"
			case *ssa.Send:
				bad = "sends on a channel"
			case *ssa.Call:
				n := core.CalleeName(x)
				if n == "time.Now" || strings.HasPrefix(n, "math/rand.") || strings.HasPrefix(n, "crypto/rand.") {
					bad = "calls " + n
				}
			case *ssa.UnOp:
				if x.Op == token.ARROW {
					bad = "receives from a channel"
				}
			}
			if bad != "" {
				r.Fail("determinism/"+fname(f)+"/"+strings.ReplaceAll(bad, " ", "-"), "serialising a bundle is a deterministic function of the bundle: no map iteration, clock, randomness or concurrency is reachable from Bundle.MarshalCbor (except the two exempt blocks)", p.Pos(in.Pos()), bad)
			}
		})
	}
	nPool := checkPooledObjectsReset(p, r, reach)
	r.Analysed["pooled_objects_in_serialisation"] = nPool
	r.Analysed["error_returning_functions_checked"] = checkErrorsNotSwallowedIn(p, r, bp7)
	// "every byte string the parser accepts re-serialises ... with the payload block last"
	checkPayloadLastGuard(p, r)
	sort.Strings(names)
	r.Analysed["serialisation_call_closure"] = names
	r.OK("determinism/closure", "serialising a bundle is a deterministic function of the bundle: no map iteration, clock, randomness or concurrency is reachable from Bundle.MarshalCbor (except the two exempt blocks)", p.Pos(root.Pos()), fmt.Sprintf("%d functions reachable, %d exempt map ranges", len(reach), nExempt))
	r.Check(nExempt == 2, "determinism/exempt-sites", "exactly the PRoPHET and DTLSR blocks iterate over a map while encoding", p.Pos(root.Pos()), "", fmt.Sprintf("%d exempt sites found", nExempt))
}

// checkBlockOrderWriters: FW.
func checkBlockOrderWriters(p *core.Program, r *core.Report) {
	n := 0
	for _, fn := range p.RepoFuncs() {
		core.EachInstr(fn, func(in ssa.Instruction) {
			st, ok := in.(*ssa.Store)
			if !ok || !core.IsField(st.Addr, bp7, "Bundle", "CanonicalBlocks") {
				return
			}
			if !p.DaemonReachable()[fn] && !strings.HasPrefix(fname(fn), "pkg/bpv7.") {
				return
			}
			n++
			key := "block-order/" + fname(fn) + "/writes-CanonicalBlocks"
			rule := "whoever changes a bundle's block list re-sorts it (payload last), removes one block order-preservingly, or is a decoder/producer whose result must pass CheckValid"
			switch {
			case isOrderPreservingRemoval(st.Val):
				r.OK(key, rule, p.Pos(st.Pos()), "order-preserving removal append(s[:i], s[i+1:]...)")
			case fname(fn) == "pkg/bpv7.Bundle.UnmarshalCbor":
				r.OK(key, rule, p.Pos(st.Pos()), "decoder loop; CheckValid (last block = payload) is enforced by C02/must-validate")
			default:
				ok, _ := core.MustPassAfter(st, func(i ssa.Instruction) bool {
					c, ok := i.(ssa.CallInstruction)
					return ok && core.NameIs(core.CalleeName(c), bp7+".Bundle.sortBlocks")
				}, core.IsReturn)
				how := "followed by sortBlocks() on every path"
				if !ok {
					// a producer that builds the list in order and validates the result: every
					// return that is not an error return passes Bundle.CheckValid (payload last)
					ok, _ = core.MustPassAfter(st, func(i ssa.Instruction) bool {
						c, ok := i.(ssa.CallInstruction)
						return ok && core.NameIs(core.CalleeName(c), bp7+".Bundle.CheckValid")
					}, func(i ssa.Instruction) bool {
						if !core.IsReturn(i) {
							return false
						}
						for _, cd := range core.DominatingConds(i.Block()) {
							if x, isNil, isCmp := core.NilCmp(cd); isCmp && !isNil && isErrorType(x.Type()) {
								return false // error return
							}
						}
						return true
					})
					how = "every non-error return passes Bundle.CheckValid (which requires the payload block to be last); C02 checks that the verdict is returned"
				}
				r.Check(ok, key, rule, p.Pos(st.Pos()), how, "the block list is changed without re-sorting or validating: the payload block may not be last any more")
			}
		})
	}
	r.Min("writers of Bundle.CanonicalBlocks", 5)
	r.Count("writers of Bundle.CanonicalBlocks", n)
	// the sort order: Less puts block number 1 (payload) last
	less := p.Func(bp7, "canonicalBlockNumberSort", "Less")
	okLess := false
	pe := &core.PathEnum{Fn: less, Bind: map[ssa.Value]int64{}}
	pe.Run()
	// structural: first test is cbns[i].BlockNumber == 1 -> false; second cbns[j].BlockNumber == 1 -> true
	var conds []string
	for _, blk := range less.Blocks {
		if ifi, ok := blk.Instrs[len(blk.Instrs)-1].(*ssa.If); ok {
			if b, ok := ifi.Cond.(*ssa.BinOp); ok && b.Op == token.EQL && pathEndsWith(b.X, "BlockNumber") {
				if k, ok := core.ConstInt(b.Y); ok && k == 1 {
					conds = append(conds, "BlockNumber==1")
				}
			}
		}
	}
	okLess = len(conds) == 2
	r.Check(okLess, "block-order/"+fname(less)+"/payload-last", "the sort order treats block number 1 as greater than every other block", p.Pos(less.Pos()), "", "Less no longer special-cases block number 1 on both operands")
	// sortBlocks sorts with that order
	sb := p.Func(bp7, "Bundle", "sortBlocks")
	okSort := len(core.CallsTo(sb, "sort.Sort")) == 1
	r.Check(okSort, "block-order/"+fname(sb)+"/sorts", "sortBlocks sorts the block list", p.Pos(sb.Pos()), "", "sort.Sort call missing")
}

func isOrderPreservingRemoval(v ssa.Value) bool {
	c, ok := v.(*ssa.Call)
	if !ok {
		return false
	}
	b, ok := c.Common().Value.(*ssa.Builtin)
	if !ok || b.Name() != "append" {
		return false
	}
	a0, ok0 := c.Common().Args[0].(*ssa.Slice)
	a1, ok1 := c.Common().Args[1].(*ssa.Slice)
	if !ok0 || !ok1 || a0.High == nil || a1.Low == nil || a0.Low != nil || a1.High != nil {
		return false
	}
	if !(a0.X == a1.X || sameSource(a0.X, a1.X) || sameFieldOfSameCall(a0.X, a1.X)) {
		return false
	}
	plus, isB := a1.Low.(*ssa.BinOp)
	if !isB || plus.Op != token.ADD || plus.X != a0.High {
		return false
	}
	k, isC := core.ConstInt(plus.Y)
	return isC && k == 1
}

// checkOptionalGroupGuards: the decoder selects the optional fragment group by
// the array length, the encoder by the IsFragment flag; the two selections
// must be equivalent, otherwise parse(serialise(parse(x))) differs from
// parse(x). Decided by enumerating the primary block decoder for every
// admissible length x fragment flag (CRC group: see C03).
func checkOptionalGroupGuards(p *core.Program, r *core.Report) {
	fragFlag := constVal(p, bp7, "IsFragment")
	hf := p.Func(bp7, "PrimaryBlock", "HasFragmentation")
	okSum := false
	for _, rv := range core.ReturnValues(hf, 0) {
		if c, ok := rv.V.(*ssa.Call); ok && core.NameIs(core.CalleeName(c), bp7+".BundleControlFlags.Has") {
			if k, ok := core.ConstInt(core.Arg(c, 0)); ok && k == fragFlag && pathEndsWith(core.CallRecv(c), "BundleControlFlags") {
				okSum = true
			}
		}
	}
	r.Check(okSum, "summary/PrimaryBlock.HasFragmentation", "HasFragmentation() is BundleControlFlags.Has(IsFragment) (summary used by the enumeration)", p.Pos(hf.Pos()), "", "shape changed")
	fn := p.Func(bp7, "PrimaryBlock", "UnmarshalCbor")
	n := 0
	for _, l := range []int64{8, 9, 10, 11} {
		crcT := int64(0)
		if l == 9 || l == 11 {
			crcT = 2
		}
		for _, flags := range []int64{0, fragFlag, 4, 4 | fragFlag} {
			paths, ok := runBlockDecoder(p, fn, "PrimaryBlock", l, crcT, flags)
			key := fmt.Sprintf("optional-group-guard/%s/len=%d,flags=%#x", fname(fn), l, flags)
			rule := "the decoder reads the fragment offset / total length exactly when the IsFragment flag is set — the same selection the encoder makes — so that re-serialising a parsed primary block reproduces the same fields"
			if !ok {
				r.Unknown(key, rule, p.Pos(fn.Pos()), "decoder shape outside the enumerated idioms")
				continue
			}
			n++
			acc := 0
			for _, cp := range paths {
				if cp.outcome != "nonnil" {
					acc++
				}
			}
			hasGroup := l >= 10
			isFrag := flags&fragFlag != 0
			if hasGroup == isFrag {
				r.Check(acc > 0, key, rule, p.Pos(fn.Pos()), fmt.Sprintf("%d accepting path(s)", acc), "a consistent block has no accepting path")
			} else {
				r.Check(acc == 0, key, rule, p.Pos(fn.Pos()), "rejected", fmt.Sprintf("%d accepting path(s): array length %d and fragment flag %v disagree, the serialiser would write a different number of fields", acc, l, isFrag))
			}
		}
	}
	r.Min("optional-group combinations", 16)
	r.Count("optional-group combinations", n)
}

// sameFieldOfSameCall: both values load the same field path from the results
// of two calls to the same pure accessor on the same receiver
// (x.MustBundle().CanonicalBlocks twice).
func sameFieldOfSameCall(a, b ssa.Value) bool {
	la, ok1 := a.(*ssa.UnOp)
	lb, ok2 := b.(*ssa.UnOp)
	if !ok1 || !ok2 {
		return false
	}
	ba, pa, oka := core.FieldRef(la.X)
	bb, pb, okb := core.FieldRef(lb.X)
	if !oka || !okb || strings.Join(pa, ".") != strings.Join(pb, ".") {
		return false
	}
	ca, ok1 := ba.(*ssa.Call)
	cb, ok2 := bb.(*ssa.Call)
	if !ok1 || !ok2 || core.Callee(ca) == nil || core.Callee(ca) != core.Callee(cb) {
		return false
	}
	return core.CallRecv(ca) == core.CallRecv(cb) && core.NameIs(core.CalleeName(ca), routingPkg+".BundleDescriptor.MustBundle")
}

// checkPooledObjectsReset: see the comment inside; funcs is the set of functions to examine.
func checkPooledObjectsReset(p *core.Program, r *core.Report, funcs map[*ssa.Function]bool) int {
	// state carried from one serialisation to the next: an object taken from a sync.Pool inside the closure
	// must be reset before anything else is done with it (an error path of an earlier call may have left it dirty)
	nPool := 0
	for f := range funcs {
		if f.Blocks == nil || !core.IsRepo(f) {
			continue
		}
		for _, g := range core.CallsTo(f, "sync.Pool.Get") {
			nPool++
			derived := map[ssa.Value]bool{g.(ssa.Value): true}
			for changed := true; changed; {
				changed = false
				core.EachInstr(f, func(in ssa.Instruction) {
					switch x := in.(type) {
					case *ssa.TypeAssert:
						if derived[x.X] && !derived[x] {
							derived[x], changed = true, true
						}
					case *ssa.MakeInterface:
						if derived[x.X] && !derived[x] {
							derived[x], changed = true, true
						}
					case *ssa.Extract:
						if derived[x.Tuple] && !derived[x] {
							derived[x], changed = true, true
						}
					}
				})
			}
			isReset := func(i ssa.Instruction) bool {
				c, ok := i.(*ssa.Call)
				if !ok {
					return false
				}
				n := core.CalleeName(c)
				return (n == "bytes.Buffer.Reset" || n == "bytes.Buffer.Truncate") && derived[core.CallRecv(c)]
			}
			var bad []string
			core.EachInstr(f, func(in ssa.Instruction) {
				c, ok := in.(ssa.CallInstruction)
				if !ok || isReset(in) || in == g.(ssa.Instruction) {
					return
				}
				if _, isDefer := in.(*ssa.Defer); isDefer {
					return // handing the object back
				}
				uses := false
				for _, a := range c.Common().Args {
					if derived[a] {
						uses = true
					}
				}
				if c.Common().IsInvoke() && derived[c.Common().Value] {
					uses = true
				}
				if uses && !core.MustPassBefore(in, isReset) {
					bad = append(bad, p.Pos(in.Pos()))
				}
			})
			r.Check(len(bad) == 0, "determinism/"+fname(f)+"/pooled-object-reset-first", "an object taken from a sync.Pool while serialising is reset before its first use: what an earlier (possibly failed) serialisation left in it must not become part of this one", p.Pos(g.Pos()), "", "used before Reset at "+strings.Join(bad, ", ")+": a failed write leaves the buffer dirty in the pool and its bytes are prepended to the next block that is serialised")
		}
	}
	return nPool
}
