package rules

import (
	"fmt"
	"go/constant"
	"go/token"
	"go/types"
	"strings"

	"dtnverif/core"

	"golang.org/x/tools/go/ssa"
)

func init() { Registry["C13"] = C13 }

func isEIDSlice(t types.Type) bool {
	s, ok := t.Underlying().(*types.Slice)
	return ok && core.TypeIs(s.Elem(), bp7, "EndpointID")
}

func isPeerIDOf(v ssa.Value, cs ssa.Value) bool {
	c, ok := core.Strip(v).(*ssa.Call)
	return ok && c.Common().IsInvoke() && c.Common().Method.Name() == "GetPeerEndpointID" && c.Common().Value == cs
}

// membershipGuard checks that block b is reached only through the
// "not found" outcome of a loop that compares cs.GetPeerEndpointID() with the
// elements of a slice, and returns that slice.
func membershipGuard(b *ssa.BasicBlock, cs ssa.Value) (list ssa.Value, ok bool) {
	matchEq := func(c core.Cond) (ssa.Value, bool) {
		bo, isB := c.V.(*ssa.BinOp)
		if !isB || bo.Op != token.EQL || !c.True {
			return nil, false
		}
		var elem ssa.Value
		switch {
		case isPeerIDOf(bo.X, cs):
			elem = bo.Y
		case isPeerIDOf(bo.Y, cs):
			elem = bo.X
		default:
			return nil, false
		}
		ld, isL := elem.(*ssa.UnOp)
		if !isL || ld.Op != token.MUL {
			return nil, false
		}
		ia, isIA := ld.X.(*ssa.IndexAddr)
		if !isIA || !isEIDSlice(ia.X.Type()) {
			return nil, false
		}
		return ia.X, true
	}
	for _, c := range core.DominatingConds(b) {
		phi, isPhi := c.V.(*ssa.Phi)
		if !isPhi || c.True {
			continue
		}
		nTrue := 0
		var lst ssa.Value
		good := true
		for i, e := range phi.Edges {
			if !core.IsBoolConst(e, true) {
				if !core.IsBoolConst(e, false) {
					good = false
				}
				continue
			}
			nTrue++
			pred := phi.Block().Preds[i]
			found := false
			conds := core.DominatingConds(pred)
			for _, pc := range conds {
				if l, ok := matchEq(pc); ok {
					lst, found = l, true
				}
			}
			if !found {
				good = false
			}
		}
		if good && nTrue > 0 && lst != nil {
			return lst, true
		}
	}
	if l, ok := membershipGuardHelper(b, cs); ok {
		return l, true
	}
	return membershipGuardSet(b, cs)
}

// membershipGuardHelper accepts the membership loop moved into a small predicate of the repository,
// `contains(list, sender) bool`: block b is reached on its false outcome, and inside the predicate `true` is returned
// only on the equal edge of sender.GetPeerEndpointID() == list[i]. The list is the argument of the call.
func membershipGuardHelper(b *ssa.BasicBlock, cs ssa.Value) (list ssa.Value, ok bool) {
	for _, c := range core.DominatingConds(b) {
		call, isCall := c.V.(*ssa.Call)
		if !isCall || c.True {
			continue
		}
		f := call.Common().StaticCallee()
		if f == nil || !core.IsRepo(f) || f.Blocks == nil || len(f.Blocks) > 16 || f.Signature.Recv() != nil {
			continue
		}
		csIdx, listIdx := -1, -1
		for i, a := range call.Common().Args {
			if a == cs {
				csIdx = i
			}
			if isEIDSlice(a.Type()) {
				listIdx = i
			}
		}
		if csIdx < 0 || listIdx < 0 {
			continue
		}
		pcs, plist := ssa.Value(f.Params[csIdx]), ssa.Value(f.Params[listIdx])
		nTrue, good := 0, true
		for _, rv := range core.ReturnValues(f, 0) {
			if core.IsBoolConst(rv.V, false) {
				continue
			}
			if !core.IsBoolConst(rv.V, true) {
				good = false
				continue
			}
			nTrue++
			found := false
			for _, pc := range core.DominatingConds(rv.At.Block()) {
				bo, isB := pc.V.(*ssa.BinOp)
				if !isB || bo.Op != token.EQL || !pc.True {
					continue
				}
				for _, pair := range [][2]ssa.Value{{bo.X, bo.Y}, {bo.Y, bo.X}} {
					if !isPeerIDOf(pair[0], pcs) {
						continue
					}
					if ld, isL := pair[1].(*ssa.UnOp); isL && ld.Op == token.MUL {
						if ia, isIA := ld.X.(*ssa.IndexAddr); isIA && ia.X == plist {
							found = true
						}
					}
				}
			}
			if !found {
				good = false
			}
		}
		if good && nTrue > 0 {
			return call.Common().Args[listIdx], true
		}
	}
	return nil, false
}

// membershipGuardSet accepts the other way of writing the membership test: an index (map keyed by endpoint ID) built
// from the sent list, looked up with the sender's peer ID. It stands for the list only if it is kept in step with it:
// filled from the list's elements, and extended with the selected peer in the very block that selects it (otherwise a
// second sender towards the same peer is not excluded within the same call).
func membershipGuardSet(b *ssa.BasicBlock, cs ssa.Value) (list ssa.Value, ok bool) {
	var set ssa.Value
	for _, c := range core.DominatingConds(b) {
		ex, isEx := c.V.(*ssa.Extract)
		if !isEx || ex.Index != 1 || c.True {
			continue
		}
		lk, isLk := ex.Tuple.(*ssa.Lookup)
		if !isLk || !lk.CommaOk || !isPeerIDOf(lk.Index, cs) {
			continue
		}
		if mt, isMap := lk.X.Type().Underlying().(*types.Map); isMap && core.TypeIs(mt.Key(), bp7, "EndpointID") {
			set = lk.X
		}
	}
	if set == nil {
		return nil, false
	}
	updatedHere := false
	for _, in := range b.Instrs {
		if mu, isMU := in.(*ssa.MapUpdate); isMU && mu.Map == set && isPeerIDOf(mu.Key, cs) {
			updatedHere = true
		}
	}
	if !updatedHere {
		return nil, false
	}
	// filled from a list of endpoint IDs
	for _, ref := range *set.Referrers() {
		mu, isMU := ref.(*ssa.MapUpdate)
		if !isMU || mu.Map != set {
			continue
		}
		if ld, isL := mu.Key.(*ssa.UnOp); isL && ld.Op == token.MUL {
			if ia, isIA := ld.X.(*ssa.IndexAddr); isIA && isEIDSlice(ia.X.Type()) {
				return ia.X, true
			}
		}
	}
	return nil, false
}

// constStringOf evaluates v to a constant string, looking through string
// concatenation with a parameter bound to env (for filterCLAs' key).
func constStringOf(v ssa.Value, env map[ssa.Value]string) (string, bool) {
	switch x := v.(type) {
	case *ssa.Const:
		if x.Value != nil && x.Value.Kind() == constant.String {
			return constant.StringVal(x.Value), true
		}
	case *ssa.BinOp:
		if x.Op == token.ADD {
			a, ok1 := constStringOf(x.X, env)
			b, ok2 := constStringOf(x.Y, env)
			return a + b, ok1 && ok2
		}
	case *ssa.Parameter:
		s, ok := env[x]
		return s, ok
	}
	return "", false
}

// propertiesKeys lists constant keys used in Lookups/MapUpdates of a
// BundleItem.Properties map in fn.
func propertiesUpdates(fn *ssa.Function) []*ssa.MapUpdate {
	var out []*ssa.MapUpdate
	core.EachInstr(fn, func(in ssa.Instruction) {
		if mu, ok := in.(*ssa.MapUpdate); ok && pathEndsWith(mu.Map, "Properties") {
			out = append(out, mu)
		}
	})
	return out
}

func isStoreUpdate(i ssa.Instruction) bool {
	c, ok := i.(ssa.CallInstruction)
	if !ok {
		return false
	}
	if core.NameIs(core.CalleeName(c), storagePkg+".Store.Update") {
		return true
	}
	// a small helper of the routing package that writes the item it is handed on every path
	// (`func (x *T) updateBundleItem(bi storage.BundleItem) { if err := store.Update(bi); err != nil { log } }`)
	h := c.Common().StaticCallee()
	if h == nil || !core.IsRepo(h) || h.Blocks == nil || len(h.Blocks) > 8 {
		return false
	}
	for _, u := range core.CallsTo(h, storagePkg+".Store.Update") {
		item := core.Arg(u, 0)
		fromParam := false
		for _, par := range h.Params {
			if item == ssa.Value(par) || core.DependsOn(item, func(v ssa.Value) bool { return v == ssa.Value(par) }) {
				fromParam = true
			}
		}
		if !fromParam {
			continue
		}
		all := true
		for _, ret := range core.Returns(h) {
			if !core.MustPassBefore(ret, func(x ssa.Instruction) bool { return x == ssa.Instruction(u) }) {
				all = false
			}
		}
		if all {
			return true
		}
	}
	return false
}

// sentListPersisted: fn contains Properties[key] = <value depending on v>
// followed by Store.Update on every path to a return.
func sentListPersisted(fn *ssa.Function, key string, dep func(ssa.Value) bool) (bool, string) {
	for _, mu := range propertiesUpdates(fn) {
		k, ok := constStringOf(mu.Key, nil)
		if !ok || k != key {
			continue
		}
		if !core.DependsOn(mu.Value, dep) {
			continue
		}
		if ok, _ := core.MustPassAfter(mu, isStoreUpdate, core.IsReturn); ok {
			return true, ""
		}
		return false, "Properties[" + key + "] is updated but a return is reachable without Store.Update"
	}
	return false, "no update of Properties[" + key + "] with the new sent list"
}

// C13 — never back to the sender, never twice to the same peer.
func C13(p *core.Program, r *core.Report) {
	r.Explanation = "For every replicating selection site (filterCLAs used by epidemic and DTLSR broadcast, PRoPHET, spray, binary spray): each append to the returned sender slice is dominated by the not-found outcome of a membership loop comparing that sender's peer endpoint with the bundle's sent list, the peer is appended to the same list in the same step, and the list is persisted under the key it was loaded from on every path that returns a selection; every NotifyNewBundle records the previous-node endpoint in that list; every ReportFailure of an algorithm that keeps such a list removes exactly the failed peer (equality-guarded removal) and persists (sibling agreement); concurrent failure reports are atomic; direct delivery bypasses the algorithm. Not decided: histories across restarts beyond 'the list lives in the store item' (epidemic, PRoPHET, DTLSR) / 'in memory' (spray)."
	r.Assumptions = append(r.Assumptions, "a store item's Properties map survives restarts (badgerhold), spray metadata does not (stated in the property)")

	type selSite struct {
		fn  *ssa.Function
		key string // persisted key ("" = in-memory spray metadata)
	}
	filter := p.Func(routingPkg, "", "filterCLAs")
	sel := []*ssa.Function{
		filter,
		p.Func(routingPkg, "Prophet", "SenderForBundle"),
		p.Func(routingPkg, "SprayAndWait", "SenderForBundle"),
		p.Func(routingPkg, "BinarySpray", "SenderForBundle"),
	}
	nSel := 0
	for _, fn := range sel {
		core.EachInstr(fn, func(in ssa.Instruction) {
			c, ok := in.(*ssa.Call)
			if !ok {
				return
			}
			if b, ok := c.Common().Value.(*ssa.Builtin); !ok || b.Name() != "append" || !isSenderSlice(c.Type()) {
				return
			}
			nSel++
			cs := appendedSender(c)
			base := "no-repeat/" + fname(fn) + "/"
			lst, ok := membershipGuard(c.Block(), cs)
			r.Check(ok, base+"filtered", "a peer is selected only on the not-found outcome of a membership test of its endpoint ID against the bundle's sent list", p.Pos(c.Pos()), "", "selection reachable without the membership test; "+condStrings(core.DominatingConds(c.Block())))
			// recorded in the same step
			rec := false
			var recCall *ssa.Call
			for _, in2 := range c.Block().Instrs {
				c2, ok := in2.(*ssa.Call)
				if !ok {
					continue
				}
				if b, ok := c2.Common().Value.(*ssa.Builtin); ok && b.Name() == "append" && isEIDSlice(c2.Type()) {
					if isPeerIDOf(appendedSender(c2), cs) {
						rec = true
						recCall = c2
					}
				}
			}
			r.Check(rec, base+"recorded", "the selected peer's endpoint ID is appended to the sent list in the same step", p.Pos(c.Pos()), "", "no append of cs.GetPeerEndpointID() to the sent list next to the selection")
			if !ok || !rec {
				return
			}
			// the list tested and the list extended are the same variable
			sameList := recCall.Common().Args[0] == lst || sameSource(recCall.Common().Args[0], lst)
			r.Check(sameList, base+"same-list", "the list that is tested is the list that is extended", p.Pos(recCall.Pos()), "", "membership is tested on one list and the peer recorded in another")
			// write-back
			switch fn {
			case filter:
				// returned as second result
				okRet := false
				for _, rv := range core.ReturnValues(fn, 1) {
					if core.DependsOn(rv.V, func(v ssa.Value) bool { return v == ssa.Value(recCall) }) {
						okRet = true
					}
				}
				r.Check(okRet, base+"returns-updated-list", "filterCLAs returns the extended sent list", p.Pos(c.Pos()), "", "the extended list is not returned")
			case sel[1]:
				okP, why := sentListPersisted(fn, "routing/prophet/sent", func(v ssa.Value) bool { return v == ssa.Value(recCall) })
				r.Check(okP, base+"persisted", "the extended sent list is stored in the bundle's store item on every path that returns a selection", p.Pos(c.Pos()), "", why)
				r.Check(listLoadedFromKey(lst, "routing/prophet/sent"), base+"key-agreement", "the sent list is loaded from the key it is stored under", p.Pos(c.Pos()), "", "the tested list is not loaded from Properties[routing/prophet/sent]")
			default:
				// spray: stored into metadata.sent, and metadata written back to bundleData
				okS := false
				for _, in2 := range c.Block().Instrs {
					if st, ok := in2.(*ssa.Store); ok && core.IsField(st.Addr, routingPkg, "sprayMetaData", "sent") && st.Val == ssa.Value(recCall) {
						okS = true
						okW, _ := core.MustPassAfter(st, isBundleDataWrite, core.IsReturn)
						r.Check(okW, base+"persisted", "the updated metadata is written back to bundleData on every path", p.Pos(st.Pos()), "", "a return is reachable without the write-back")
					}
				}
				r.Check(okS, base+"stored", "the extended list is stored into the bundle's metadata", p.Pos(c.Pos()), "", "metadata.sent not updated")
			}
		})
	}
	r.Min("replicating selection sites", 4)
	r.Count("replicating selection sites", nSel)

	// callers of filterCLAs persist under the key filterCLAs reads
	nF := 0
	for _, cs := range allCallSites(p, routingPkg+".filterCLAs") {
		nF++
		fn := cs.Parent()
		algo, ok := constStringOf(core.Arg(cs, 2), nil)
		base := "no-repeat/" + fname(fn) + "/filterCLAs/"
		if !ok {
			r.Fail(base+"algorithm-constant", "the algorithm name passed to filterCLAs is a constant", p.Pos(cs.Pos()), "non-constant")
			continue
		}
		readKey, okK := filterKey(filter, algo)
		r.Check(okK && readKey == "routing/"+algo+"/sent", base+"read-key", "filterCLAs reads Properties[\"routing/<algorithm>/sent\"]", p.Pos(cs.Pos()), readKey, "key expression changed: "+readKey)
		call := cs.(ssa.Value)
		okP, why := sentListPersisted(fn, readKey, func(v ssa.Value) bool {
			ex, ok := v.(*ssa.Extract)
			return ok && ex.Tuple == call && ex.Index == 1
		})
		// epidemic persists under a flag that SenderForBundle passes as true
		if !okP && fn.Name() == "clasForBundle" {
			okP, why = epidemicPersist(p, fn, readKey, call)
		}
		r.Check(okP, base+"persisted", "the list returned by filterCLAs is stored under the same key and written to the store before the selection is returned", p.Pos(cs.Pos()), "", why)
		// the item filtered is the bundle's own item
		okItem := core.DependsOn(core.Arg(cs, 0), func(v ssa.Value) bool {
			c, ok := v.(*ssa.Call)
			return ok && core.NameIs(core.CalleeName(c), storagePkg+".Store.QueryId")
		})
		r.Check(okItem, base+"own-item", "the sent list is the one of the bundle being forwarded (QueryId of its ID)", p.Pos(cs.Pos()), "", "filterCLAs is not given the queried store item")
	}
	r.Min("filterCLAs call sites", 2)
	r.Count("filterCLAs call sites", nF)

	// ---- (2) previous node recorded
	type nn struct {
		fn  *ssa.Function
		key string
	}
	notif := []nn{
		{p.Func(routingPkg, "EpidemicRouting", "NotifyNewBundle"), "routing/epidemic/sent"},
		{p.Func(routingPkg, "Prophet", "NotifyNewBundle"), "routing/prophet/sent"},
		{p.Func(routingPkg, "DTLSR", "NotifyNewBundle"), "routing/dtlsr/sent"},
		{p.Func(routingPkg, "SprayAndWait", "NotifyNewBundle"), ""},
		{p.Func(routingPkg, "BinarySpray", "NotifyNewBundle"), ""},
	}
	for _, e := range notif {
		fn := e.fn
		eps := core.CallsToWithHelpers(fn, bp7+".PreviousNodeBlock.Endpoint", 12)
		base := "previous-node/" + fname(fn) + "/"
		if len(eps) == 0 {
			r.Fail(base+"read", "NotifyNewBundle reads the previous-node block", p.Pos(fn.Pos()), "no call to PreviousNodeBlock.Endpoint")
			continue
		}
		dep := func(v ssa.Value) bool {
			for _, c := range eps {
				if v == c.(ssa.Value) {
					return true
				}
			}
			return false
		}
		if e.key != "" {
			// the previous node is looked for on every path: a return in front of the look-up is excused only by the
			// bundle not being in the store (an early return added for another concern - stale link-state data, a
			// metadata bundle - must not skip the bookkeeping)
			isLookup := func(i ssa.Instruction) bool {
				c, ok := i.(*ssa.Call)
				if !ok || !core.NameIs(core.CalleeName(c), bp7+".Bundle.ExtensionBlock") {
					return false
				}
				k, isC := core.ConstInt(core.Arg(c, 0))
				return isC && k == constVal(p, bp7, "ExtBlockTypePreviousNodeBlock")
			}
			skipped := ""
			for _, ret := range core.Returns(fn) {
				if core.MustPassBefore(ret, isLookup) {
					continue
				}
				excused := false
				for _, cd := range core.DominatingConds(ret.Block()) {
					x, isNil, ok := core.NilCmp(cd)
					if !ok || isNil {
						continue
					}
					for _, qc := range core.CallsTo(fn, storagePkg+".Store.QueryId") {
						if isResultOf(x, qc.(ssa.Value)) {
							excused = true
						}
					}
					for _, qc := range core.CallsTo(fn, routingPkg+".BundleDescriptor.Bundle") {
						if isResultOf(x, qc.(ssa.Value)) {
							excused = true // the bundle cannot be loaded
						}
					}
				}
				// PRoPHET's own metadata bundles are sent to one neighbour and are not replicated: the branch that
				// handles them (behind the successful look-up of the PRoPHET block) leaves without bookkeeping.
				// DTLSR's link-state bundles ARE replicated (broadcast), so there is no such excuse for DTLSR.
				if fn.Signature.Recv() != nil && strings.Contains(fn.Signature.Recv().Type().String(), "Prophet") {
					for _, cd := range core.DominatingConds(ret.Block()) {
						x, isNil, ok := core.NilCmp(cd)
						if !ok || !isNil {
							continue
						}
						for _, ec := range core.CallsTo(fn, bp7+".Bundle.ExtensionBlock") {
							if k, isC := core.ConstInt(core.Arg(ec, 0)); isC && k == constVal(p, bp7, "ExtBlockTypeProphetBlock") && isResultOf(x, ec.(ssa.Value)) {
								excused = true
							}
						}
					}
				}
				if !excused {
					skipped = p.Pos(ret.Pos())
				}
			}
			r.Check(skipped == "", base+"looked-for-on-every-path", "every path through NotifyNewBundle reaches the look-up of the previous-node block (a return before it is excused only when the bundle is not in the store)", p.Pos(fn.Pos()), "", "the return at "+skipped+" leaves before the previous node is looked for: such a bundle is later offered to the peer it came from")
			okP, why := sentListPersisted(fn, e.key, dep)
			r.Check(okP, base+"recorded", "the node a bundle came from is appended to the bundle's sent list and persisted, so it is never chosen", p.Pos(eps[0].Pos()), "", why)
		} else {
			okS := false
			core.EachInstr(fn, func(in ssa.Instruction) {
				if st, ok := in.(*ssa.Store); ok && core.IsField(st.Addr, routingPkg, "sprayMetaData", "sent") && core.DependsOn(st.Val, dep) {
					if okW, _ := core.MustPassAfter(st, isBundleDataWrite, core.IsReturn); okW {
						okS = true
					}
				}
			})
			// the metadata may be built by a constructor helper that records the previous node itself
			builtByRecorder := func(v ssa.Value) bool {
				return core.DependsOn(v, func(x ssa.Value) bool {
					c, ok := x.(*ssa.Call)
					if !ok {
						return false
					}
					h := c.Common().StaticCallee()
					if h == nil || h.Pkg != fn.Pkg || h.Blocks == nil || h == fn {
						return false
					}
					rec := false
					core.EachInstr(h, func(i2 ssa.Instruction) {
						if st, ok := i2.(*ssa.Store); ok && core.IsField(st.Addr, routingPkg, "sprayMetaData", "sent") && core.DependsOn(st.Val, func(y ssa.Value) bool {
							cc, ok := y.(*ssa.Call)
							return ok && core.NameIs(core.CalleeName(cc), bp7+".PreviousNodeBlock.Endpoint")
						}) {
							rec = true
						}
					})
					return rec
				})
			}
			if !okS {
				core.EachInstr(fn, func(in ssa.Instruction) {
					if mu, ok := in.(*ssa.MapUpdate); ok && pathEndsWith(mu.Map, "bundleData") && builtByRecorder(mu.Value) {
						okS = true
					}
				})
			}
			r.Check(okS, base+"recorded", "the node a bundle came from is put into the bundle's metadata.sent and written to bundleData", p.Pos(eps[0].Pos()), "", "previous node not recorded")
			// ... on every branch that initialises the metadata (a bundle without the algorithm's own block, or one
			// with our own source, can still have been handed over by a peer)
			nInit := 0
			core.EachInstr(fn, func(in ssa.Instruction) {
				mu, ok := in.(*ssa.MapUpdate)
				if !ok || !pathEndsWith(mu.Map, "bundleData") {
					return
				}
				nInit++
				ld, ok := mu.Value.(*ssa.UnOp)
				var holder *ssa.Alloc
				if ok {
					holder, _ = ld.X.(*ssa.Alloc)
				}
				okB := builtByRecorder(mu.Value)
				if holder != nil {
					core.EachInstr(fn, func(i2 ssa.Instruction) {
						st, ok := i2.(*ssa.Store)
						if !ok || !core.IsField(st.Addr, routingPkg, "sprayMetaData", "sent") || !core.DependsOn(st.Val, dep) {
							return
						}
						if fa, ok := st.Addr.(*ssa.FieldAddr); ok && fa.X == ssa.Value(holder) && reaches(st, mu) {
							okB = true
						}
					})
				}
				r.Check(okB, fmt.Sprintf("%srecorded-on-every-branch#%d", base, nInit), "every branch of NotifyNewBundle that initialises a bundle's metadata records the previous node (if the bundle names one) in metadata.sent", p.Pos(mu.Pos()), "", "this branch writes metadata whose sent list cannot contain the previous node: a bundle handed over by a peer is offered back to that peer")
			})
			r.Count("metadata initialisations in "+fname(fn), nInit)
			r.Min("metadata initialisations in "+fname(fn), 2)
		}
	}

	// ---- (3) ReportFailure sibling agreement
	impls := p.Implementations(routingPkg, "Algorithm")
	nRF := 0
	for _, n := range impls {
		rf := p.MethodOf(n, "ReportFailure")
		if rf == nil {
			continue
		}
		key, keeps := keepsSentList(p, n)
		if !keeps {
			r.Note("failure-reenables/"+fname(rf)+"/no-sent-list", "this algorithm keeps no sent list (or delegates)", p.Pos(rf.Pos()), "")
			continue
		}
		nRF++
		base := "failure-reenables/" + fname(rf) + "/"
		rem := removalOfFailedPeer(rf)
		r.Check(rem != nil, base+"removes-failed-peer", "an algorithm that records peers in a sent list removes exactly the failed peer from it when a transmission is reported as failed (all sibling implementations do)", p.Pos(rf.Pos()), "", "ReportFailure does not remove sender.GetPeerEndpointID() from the sent list: a failed peer is never offered the bundle again")
		if rem == nil {
			continue
		}
		if key != "" {
			okP, why := sentListPersisted(rf, key, func(v ssa.Value) bool { return v == ssa.Value(rem) })
			r.Check(okP, base+"persisted", "the shortened list is stored under the key the selection reads", p.Pos(rem.Pos()), "", why)
		} else {
			okS := false
			core.EachInstr(rf, func(in ssa.Instruction) {
				if st, ok := in.(*ssa.Store); ok && core.IsField(st.Addr, routingPkg, "sprayMetaData", "sent") && st.Val == ssa.Value(rem) {
					okS = true
				}
			})
			okW := len(mapUpdatesOf(rf, "bundleData")) > 0
			r.Check(okS && okW, base+"persisted", "the shortened list is stored in the metadata and written back", p.Pos(rem.Pos()), "", "not stored / not written back")
		}
	}
	r.Min("ReportFailure implementations with a sent list", 5)
	r.Count("ReportFailure implementations with a sent list", nRF)

	// ---- (4)
	checkConcurrentFailureReports(p, r)

	// ---- (6) the per-bundle state is initialised once
	checkNotifyOnce(p, r)
	checkDuplicateLeavesRecord(p, r)
	checkPeerIdentityStable(p, r)

	// ---- (7) one dispatching per bundle at a time
	checkDispatchExclusive(p, r)

	// ---- (8) per-bundle routing state edited in a store item is written back
	checkPropertiesPersisted(p, r)

	// ---- (5) direct delivery
	fwd := p.Func(routingPkg, "Core", "forward")
	nInv := 0
	core.EachInstr(fwd, func(in ssa.Instruction) {
		c, ok := in.(*ssa.Call)
		if !ok || !c.Common().IsInvoke() || c.Common().Method.Name() != "SenderForBundle" {
			return
		}
		nInv++
		conds := core.DominatingConds(c.Block())
		okD := false
		for _, cd := range conds {
			x, isNil, ok := core.NilCmp(cd)
			if ok && isNil {
				if sc, ok := x.(*ssa.Call); ok && core.NameIs(core.CalleeName(sc), routingPkg+".Core.senderForDestination") && pathEndsWith(core.Arg(sc, 0), "PrimaryBlock", "Destination") {
					okD = true
				}
			}
		}
		r.Check(okD, "direct-delivery/"+fname(fwd)+"/algorithm-bypassed", "the routing algorithm is consulted only if no connected peer is the destination node itself", p.Pos(c.Pos()), "", "SenderForBundle not guarded by senderForDestination(dest)==nil; "+condStrings(conds))
	})
	r.Min("SenderForBundle invocations in forward", 1)
	r.Count("SenderForBundle invocations in forward", nInv)
	sfd := p.Func(routingPkg, "Core", "senderForDestination")
	core.EachInstr(sfd, func(in ssa.Instruction) {
		c, ok := in.(*ssa.Call)
		if !ok {
			return
		}
		if b, ok := c.Common().Value.(*ssa.Builtin); ok && b.Name() == "append" && isSenderSlice(c.Type()) {
			conds := core.DominatingConds(c.Block())
			call, g := callGuard(conds, bp7+".EndpointID.SameNode", true)
			okG := g && isPeerIDOf(core.CallRecv(call), appendedSender(c)) && core.Arg(call, 0) == ssa.Value(sfd.Params[1])
			r.Check(okG, "direct-delivery/"+fname(sfd)+"/same-node", "direct delivery selects exactly the peers whose endpoint is the destination node", p.Pos(c.Pos()), "", "append not guarded by cs.GetPeerEndpointID().SameNode(endpoint)")
		}
	})
}

// sameSource: a and b are loads of the same address, or a is a phi/load that
// reaches the same variable as b.
func sameSource(a, b ssa.Value) bool {
	la, ok1 := a.(*ssa.UnOp)
	lb, ok2 := b.(*ssa.UnOp)
	if ok1 && ok2 && la.Op == token.MUL && lb.Op == token.MUL {
		ba, pa, _ := core.FieldRef(la.X)
		bb, pb, _ := core.FieldRef(lb.X)
		return ba == bb && strings.Join(pa, ".") == strings.Join(pb, ".")
	}
	// loop-carried variable: b is a phi one of whose edges depends on a's extension, or equal
	if pb, ok := b.(*ssa.Phi); ok {
		if a == ssa.Value(pb) {
			return true
		}
	}
	if pa, ok := a.(*ssa.Phi); ok {
		for _, e := range pa.Edges {
			if e == b {
				return true
			}
		}
	}
	return false
}

// listLoadedFromKey: v derives from a Lookup of Properties[key].
func listLoadedFromKey(v ssa.Value, key string) bool {
	return core.DependsOn(v, func(x ssa.Value) bool {
		l, ok := x.(*ssa.Lookup)
		if !ok || !pathEndsWith(l.X, "Properties") {
			return false
		}
		k, ok := constStringOf(l.Index, nil)
		return ok && k == key
	})
}

// filterKey evaluates the key filterCLAs looks up for a given algorithm name.
func filterKey(filter *ssa.Function, algo string) (string, bool) {
	var key string
	found := false
	core.EachInstr(filter, func(in ssa.Instruction) {
		l, ok := in.(*ssa.Lookup)
		if !ok || !pathEndsWith(l.X, "Properties") {
			return
		}
		env := map[ssa.Value]string{filter.Params[2]: algo}
		if k, ok := constStringOf(l.Index, env); ok {
			key, found = k, true
		}
	})
	return key, found
}

// epidemicPersist: clasForBundle stores the list under `updateDb`; the
// SenderForBundle wrapper must pass the constant true.
func epidemicPersist(p *core.Program, fn *ssa.Function, key string, call ssa.Value) (bool, string) {
	var upd *ssa.MapUpdate
	for _, mu := range propertiesUpdates(fn) {
		if k, ok := constStringOf(mu.Key, nil); ok && k == key && core.DependsOn(mu.Value, func(v ssa.Value) bool {
			ex, ok := v.(*ssa.Extract)
			return ok && ex.Tuple == call && ex.Index == 1
		}) {
			upd = mu
		}
	}
	if upd == nil {
		return false, "no update of Properties[" + key + "]"
	}
	conds := core.DominatingConds(upd.Block())
	var flag *ssa.Parameter
	for _, c := range conds {
		if par, ok := c.V.(*ssa.Parameter); ok && c.True {
			flag = par
		}
	}
	if flag == nil {
		return false, "update is conditional on something else than the updateDb parameter"
	}
	// the Update call follows in the guarded region
	okU := false
	for _, in := range upd.Block().Instrs {
		if isStoreUpdate(in) {
			okU = true
		}
	}
	if !okU {
		return false, "no Store.Update next to the Properties update"
	}
	idx := -1
	for i, par := range fn.Params {
		if par == flag {
			idx = i
		}
	}
	sfb := p.Func(routingPkg, "EpidemicRouting", "SenderForBundle")
	okTrue := false
	for _, c := range core.CallsTo(sfb, routingPkg+".EpidemicRouting.clasForBundle") {
		if core.IsBoolConst(c.Common().Args[idx], true) {
			okTrue = true
		}
	}
	if !okTrue {
		return false, "EpidemicRouting.SenderForBundle does not call clasForBundle(…, true)"
	}
	return true, ""
}

// keepsSentList: some method of algorithm type n writes Properties["routing/<x>/sent"]
// or sprayMetaData.sent; returns the key ("" for spray metadata).
func keepsSentList(p *core.Program, n *types.Named) (string, bool) {
	key, keeps := "", false
	for _, m := range []string{"NotifyNewBundle", "SenderForBundle", "clasForBundle"} {
		fn := p.MethodOf(n, m)
		if fn == nil || fn.Blocks == nil {
			continue
		}
		for _, mu := range propertiesUpdates(fn) {
			if k, ok := constStringOf(mu.Key, nil); ok && strings.HasSuffix(k, "/sent") {
				key, keeps = k, true
			}
		}
		core.EachInstr(fn, func(in ssa.Instruction) {
			if st, ok := in.(*ssa.Store); ok && core.IsField(st.Addr, routingPkg, "sprayMetaData", "sent") {
				keeps = true
			}
		})
	}
	return key, keeps
}

// removalOfFailedPeer finds `append(s[:i], s[i+1:]...)` guarded by
// s[i] == sender.GetPeerEndpointID() in a ReportFailure implementation.
func removalOfFailedPeer(rf *ssa.Function) *ssa.Call {
	if rf.Blocks == nil || len(rf.Params) < 3 {
		return nil
	}
	sender := rf.Params[2]
	var found *ssa.Call
	core.EachInstr(rf, func(in ssa.Instruction) {
		c, ok := in.(*ssa.Call)
		if !ok {
			return
		}
		if b, ok := c.Common().Value.(*ssa.Builtin); !ok || b.Name() != "append" || !isEIDSlice(c.Type()) {
			return
		}
		a0, ok0 := c.Common().Args[0].(*ssa.Slice)
		a1, ok1 := c.Common().Args[1].(*ssa.Slice)
		if !ok0 || !ok1 || !(a0.X == a1.X || sameSource(a0.X, a1.X)) || a0.High == nil || a1.Low == nil {
			return
		}
		// s[:i] and s[i+1:]
		plus, isB := a1.Low.(*ssa.BinOp)
		if !isB || plus.Op != token.ADD || plus.X != a0.High {
			return
		}
		if k, ok := core.ConstInt(plus.Y); !ok || k != 1 {
			return
		}
		for _, cd := range core.DominatingConds(c.Block()) {
			bo, ok := cd.V.(*ssa.BinOp)
			if !ok || bo.Op != token.EQL || !cd.True {
				continue
			}
			for _, pair := range [][2]ssa.Value{{bo.X, bo.Y}, {bo.Y, bo.X}} {
				if !isPeerIDOf(pair[1], sender) {
					continue
				}
				if ld, ok := pair[0].(*ssa.UnOp); ok {
					if ia, ok := ld.X.(*ssa.IndexAddr); ok && (ia.X == a0.X || sameSource(ia.X, a0.X)) && ia.Index == a0.High {
						found = c
					}
				}
			}
		}
	})
	return found
}

var _ = fmt.Sprintf

// isBundleDataWrite: the instruction updates the spray bundleData map, directly
// or by calling a small helper of the repository that does (an extracted
// `setMetadata`).
func isBundleDataWrite(i ssa.Instruction) bool {
	if mu, ok := i.(*ssa.MapUpdate); ok && pathEndsWith(mu.Map, "bundleData") {
		return true
	}
	c, ok := i.(ssa.CallInstruction)
	if !ok {
		return false
	}
	f := c.Common().StaticCallee()
	if f == nil || !core.IsRepo(f) || f.Blocks == nil || len(f.Blocks) > 8 {
		return false
	}
	found := false
	core.EachInstr(f, func(in ssa.Instruction) {
		if mu, ok := in.(*ssa.MapUpdate); ok && pathEndsWith(mu.Map, "bundleData") {
			// what is stored is one of the helper's parameters
			for _, par := range f.Params {
				if core.DependsOn(mu.Value, func(v ssa.Value) bool { return v == ssa.Value(par) }) {
					found = true
				}
			}
		}
	})
	return found
}

// checkNotifyOnce: some NotifyNewBundle implementations (spray, binary spray)
// overwrite the bundle's in-memory metadata (sent list, copy budget)
// unconditionally. As long as one does, the Core may announce a bundle to the
// algorithm only when it is new: in SendBundle after the ID was assigned, or
// in receive after the known-bundle test. A second announcement (duplicate
// reception) would forget the peers already served and refresh the budget.
func checkNotifyOnce(p *core.Program, r *core.Report) {
	var overwriters []string
	impls := p.Implementations(routingPkg, "Algorithm")
	isImpl := map[*ssa.Function]bool{}
	for _, n := range impls {
		m := p.MethodOf(n, "NotifyNewBundle")
		if m == nil {
			continue
		}
		isImpl[m] = true
		unguarded := false
		core.EachInstr(m, func(in ssa.Instruction) {
			if !isBundleDataWrite(in) {
				return
			}
			// accepted guard: the write is reached only when a lookup of the same map said "not present"
			guarded := false
			for _, cd := range core.DominatingConds(in.Block()) {
				if ex, ok := cd.V.(*ssa.Extract); ok && ex.Index == 1 && !cd.True {
					if lk, ok := ex.Tuple.(*ssa.Lookup); ok && lk.CommaOk && pathEndsWith(lk.X, "bundleData") {
						guarded = true
					}
				}
			}
			if !guarded {
				unguarded = true
			}
		})
		if unguarded {
			overwriters = append(overwriters, fname(m))
		}
	}
	r.Count("NotifyNewBundle implementations", len(isImpl))
	r.Min("NotifyNewBundle implementations", 6)
	n := 0
	reach := p.DaemonReachable()
	for _, fn := range p.RepoFuncs() {
		if isImpl[fn] || !reach[topFunc(fn)] {
			continue
		}
		core.EachInstr(fn, func(in ssa.Instruction) {
			c, ok := in.(*ssa.Call)
			if !ok || !c.Common().IsInvoke() || c.Common().Method.Name() != "NotifyNewBundle" {
				return
			}
			n++
			key := "notify-once/" + fname(fn)
			rule := "the routing algorithm is told about a bundle only when the bundle is new to this node (after the sequence number was assigned in SendBundle, or behind the known-bundle test of receive): spray and binary spray initialise the bundle's sent list and copy budget in NotifyNewBundle without looking at what they already hold"
			if len(overwriters) == 0 {
				r.OK(key, rule, p.Pos(c.Pos()), "no implementation overwrites existing per-bundle state")
				return
			}
			// (a) locally created bundle
			upd := p.Func(routingPkg, "IdKeeper", "update")
			okNew := core.MustPassBefore(c, func(i ssa.Instruction) bool {
				cc, ok := i.(ssa.CallInstruction)
				return ok && core.Callee(cc) == upd
			})
			// (b) behind the known-bundle test
			why := ""
			if !okNew {
				okNew = behindNewBundleTest(c.Block())
				if !okNew {
					why = "this announcement can be reached for a bundle the node already holds (no IdKeeper.update before it, not behind len(bp.Constraints)==0); overwriting implementations: " + strings.Join(overwriters, ", ")
				}
			}
			r.Check(okNew, key, rule, p.Pos(c.Pos()), "", why)
		})
	}
	r.Count("NotifyNewBundle announcements in daemon code", n)
	r.Min("NotifyNewBundle announcements in daemon code", 2)
}

// checkDispatchExclusive: every algorithm reads a bundle's list of served peers
// from the store (or its memory), extends it and writes it back; the Core's
// handler, the pending-bundles job and the agents' submissions run in
// goroutines of their own and a bundle is flagged pending at the start of its
// forwarding. Two dispatchings of one bundle at a time both select the same
// peer. Necessary: (a) forward/localDelivery are entered only through
// Core.dispatching; (b) dispatching reserves the bundle's ID in a concurrent
// set before it consults the algorithm and leaves when the ID is taken; (c) the
// reservation is released by a defer registered right after it.
func checkDispatchExclusive(p *core.Program, r *core.Report) {
	disp := p.Func(routingPkg, "Core", "dispatching")
	reach := p.DaemonReachable()
	for _, name := range []string{"forward", "localDelivery"} {
		target := p.Func(routingPkg, "Core", name)
		for _, cs := range allCallSites(p, routingPkg+".Core."+name) {
			if !reach[topFunc(cs.Parent())] {
				continue
			}
			r.Check(cs.Parent() == disp, "dispatch-exclusive/who-may-call/"+name+"/"+fname(cs.Parent()), "Core.forward and Core.localDelivery are entered only through Core.dispatching, which holds the bundle's reservation", p.Pos(cs.Pos()), "", fname(target)+" is called outside dispatching: the per-bundle reservation is bypassed")
		}
	}
	// the reservation
	var reserve *ssa.Call
	core.EachInstr(disp, func(in ssa.Instruction) {
		c, ok := in.(*ssa.Call)
		if !ok || core.CalleeName(c) != "sync.Map.LoadOrStore" {
			return
		}
		if owner, _, ok := core.FieldOwner(core.CallRecv(c)); ok && owner.Obj().Name() == "Core" {
			reserve = c
		}
	})
	key := "dispatch-exclusive/" + fname(disp) + "/"
	if reserve == nil {
		r.Fail(key+"reserves-bundle", "dispatching reserves the bundle's ID in a concurrent set of the Core (sync.Map.LoadOrStore) before anything else", p.Pos(disp.Pos()), "no LoadOrStore on a Core field: two goroutines (handler, pending-bundles job, an agent's submission) can dispatch one bundle at the same time and both select the same peer")
		return
	}
	okKey := core.DependsOn(core.Arg(reserve, 0), func(v ssa.Value) bool { return pathEndsWith(v, "Id") })
	r.Check(okKey, key+"reserves-bundle", "dispatching reserves the bundle's ID in a concurrent set of the Core (sync.Map.LoadOrStore) before anything else", p.Pos(reserve.Pos()), "", "the reservation key is not derived from the descriptor's bundle ID")
	// everything that consults the algorithm or moves the bundle on happens only when the ID was free
	n := 0
	core.EachInstr(disp, func(in ssa.Instruction) {
		c, ok := in.(*ssa.Call)
		if !ok {
			return
		}
		name := ""
		switch {
		case c.Common().IsInvoke() && c.Common().Method.Name() == "DispatchingAllowed":
			name = "DispatchingAllowed"
		case core.NameIs(core.CalleeName(c), routingPkg+".Core.forward"):
			name = "forward"
		case core.NameIs(core.CalleeName(c), routingPkg+".Core.localDelivery"):
			name = "localDelivery"
		default:
			return
		}
		n++
		free := false
		for _, cd := range core.DominatingConds(c.Block()) {
			if ex, ok := cd.V.(*ssa.Extract); ok && ex.Tuple == ssa.Value(reserve) && ex.Index == 1 && !cd.True {
				free = true
			}
		}
		released := core.MustPassBefore(c, func(i ssa.Instruction) bool {
			d, ok := i.(*ssa.Defer)
			if !ok || core.CalleeName(d) != "sync.Map.Delete" {
				return false
			}
			a, b := core.Strip(core.Arg(d, 0)), core.Strip(core.Arg(reserve, 0))
			return core.SameExpr(a, b)
		})
		r.Check(free && released, key+"only-when-free/"+name, "the algorithm is consulted and the bundle moved on only when its ID was not reserved by another dispatching, and the reservation is released by a defer registered before", p.Pos(c.Pos()), "", fmt.Sprintf("dominated by the not-taken outcome of the reservation: %v; deferred release of the very key that was reserved registered before: %v", free, released))
	})
	r.Count("guarded steps of dispatching", n)
	r.Min("guarded steps of dispatching", 3)
	// only the dispatching that obtained the reservation releases it: a release registered before the outcome is
	// known lets the loser (a retry tick that found the bundle busy) remove the owner's reservation on its way out
	nRel := 0
	core.EachInstr(disp, func(in ssa.Instruction) {
		var c ssa.CallInstruction
		switch x := in.(type) {
		case *ssa.Defer:
			c = x
		case *ssa.Call:
			c = x
		default:
			return
		}
		nm := core.CalleeName(c)
		if nm != "sync.Map.Delete" && nm != "sync.Map.LoadAndDelete" {
			return
		}
		if owner, _, ok := core.FieldOwner(core.CallRecv(c)); !ok || owner.Obj().Name() != "Core" {
			return
		}
		nRel++
		owned := false
		for _, cd := range core.DominatingConds(in.Block()) {
			if ex, ok := cd.V.(*ssa.Extract); ok && ex.Tuple == ssa.Value(reserve) && ex.Index == 1 && !cd.True {
				owned = true
			}
		}
		r.Check(owned, key+"released-by-owner-only", "the reservation is released (or its release registered) only on the branch on which this dispatching obtained it", p.Pos(in.Pos()), "", "the release is also reached when the bundle was found busy: the loser removes the reservation of the dispatching that is still at work, a third one then enters alongside it")
	})
	r.Count("releases of the dispatch reservation", nRel)
	r.Min("releases of the dispatch reservation", 1)
}

// checkPropertiesPersisted: a routing algorithm keeps per-bundle state in the
// Properties map of the bundle's store item. The map it edits is a copy
// loaded by Store.QueryId; nothing is kept unless Store.Update writes the item
// back. Every assignment to Properties[...] in routing code must therefore be
// followed by Store.Update on every path to a return of the function (a later
// early return must not skip it). Functions that hand the item to their
// caller (it is one of their results) are exempt: the caller's update counts.
func checkPropertiesPersisted(p *core.Program, r *core.Report) {
	n := 0
	reach := p.DaemonReachable()
	for _, fn := range p.RepoFuncs() {
		if fn.Pkg != p.Pkg(routingPkg) || !reach[topFunc(fn)] {
			continue
		}
		// exempt: Sync itself (it is the writer) and functions returning the item
		if fname(fn) == "pkg/routing.BundleDescriptor.Sync" {
			continue
		}
		returnsItem := false
		for i := 0; i < fn.Signature.Results().Len(); i++ {
			if core.TypeIs(fn.Signature.Results().At(i).Type(), storagePkg, "BundleItem") {
				returnsItem = true
			}
		}
		for _, mu := range propertiesUpdates(fn) {
			n++
			key := "?"
			if k, ok := constStringOf(mu.Key, nil); ok {
				key = k
			}
			if returnsItem {
				r.OK("properties-persisted/"+fname(fn)+"/"+key, "an edit of a store item's Properties is followed by Store.Update on every path", p.Pos(mu.Pos()), "the edited item is returned to the caller")
				continue
			}
			ok, ex := core.MustPassAfter(mu, isStoreUpdate, core.IsReturn)
			d := ""
			if !ok && ex != nil {
				d = "the return at " + p.Pos(ex.Pos()) + " is reachable without Store.Update: the value lives only in this call's copy of the item"
			}
			r.Check(ok, "properties-persisted/"+fname(fn)+"/"+key, "an edit of a store item's Properties is followed by Store.Update on every path to a return (the item is a copy loaded by QueryId)", p.Pos(mu.Pos()), "", d)
		}
	}
	r.Count("Properties edits in routing code", n)
	r.Min("Properties edits in routing code", 6)
}

// isNewBundleCond: the condition tests "the descriptor has constraints", i.e. whether the bundle is already stored;
// isNew says that the edge taken means "no constraints: a new bundle".
func isNewBundleCond(cd core.Cond) (isTest bool, isNew bool) {
	if b, ok := cd.V.(*ssa.BinOp); ok {
		lc, isLen := b.X.(*ssa.Call)
		if !isLen {
			return false, false
		}
		bi, isB := lc.Common().Value.(*ssa.Builtin)
		if !isB || bi.Name() != "len" || !pathEndsWith(lc.Common().Args[0], "Constraints") {
			return false, false
		}
		k, isC := core.ConstInt(b.Y)
		if !isC || k != 0 {
			return false, false
		}
		switch b.Op {
		case token.GTR, token.NEQ:
			return true, !cd.True
		case token.EQL, token.LEQ:
			return true, cd.True
		}
		return false, false
	}
	if _, ok := core.CondIsCall(cd, routingPkg+".BundleDescriptor.HasConstraints"); ok {
		return true, !cd.True
	}
	return false, false
}

func behindNewBundleTest(b *ssa.BasicBlock) bool {
	for _, cd := range core.DominatingConds(b) {
		if t, isNew := isNewBundleCond(cd); t && isNew {
			return true
		}
	}
	return false
}

func behindKnown(b *ssa.BasicBlock) bool {
	for _, cd := range core.DominatingConds(b) {
		if t, isNew := isNewBundleCond(cd); t && !isNew {
			return true
		}
	}
	return false
}

// checkDuplicateLeavesRecord: the descriptor of a received bundle is loaded from the store when the bundle is already
// known. Writing it back (BundleDescriptor.Sync reads the record, sets three properties, writes the record) happens in
// the Core's handler goroutine, outside the per-bundle dispatching mark, and restores the algorithms' lists of served
// peers to what they were when the record was read: a forwarding or failure report in between is undone. Necessary:
// on the reception path a descriptor is synchronised only when it is new (no constraints), before Core.receive.
func checkDuplicateLeavesRecord(p *core.Program, r *core.Report) {
	sync := p.Func(routingPkg, "BundleDescriptor", "Sync")
	n := 0
	fns := []*ssa.Function{p.Func(routingPkg, "", "NewBundleDescriptorFromBundle"), p.Func(routingPkg, "Core", "handler")}
	seen := map[*ssa.Function]bool{}
	for _, fn := range fns {
		if seen[fn] {
			continue
		}
		seen[fn] = true
		core.EachInstr(fn, func(in ssa.Instruction) {
			c, ok := in.(ssa.CallInstruction)
			if !ok || core.Callee(c) != sync {
				return
			}
			n++
			r.Check(behindNewBundleTest(in.Block()), "stale-write/"+fname(fn)+"/sync-only-when-new", "on the reception path a bundle's descriptor is written to the store only when the bundle is new (the descriptor carries no constraints); the record of a known bundle, which holds the peers already served, is not written back from a copy read earlier", p.Pos(in.Pos()), "", "Sync is reachable for the descriptor of a bundle that is already stored: a read-modify-write of its record outside the dispatching mark")
		})
	}
	r.Min("reception-path Sync sites", 2)
	r.Count("reception-path Sync sites", n)

	// a duplicate reception names another peer that holds the bundle; it is not recorded anywhere (known finding)
	rcv := p.Func(routingPkg, "Core", "receive")
	told := true
	var at ssa.Instruction
	for _, ret := range core.Returns(rcv) {
		if !behindKnown(ret.Block()) {
			continue
		}
		at = ret
		if !core.MustPassBefore(ret, func(i ssa.Instruction) bool {
			c, ok := i.(*ssa.Call)
			return ok && c.Common().IsInvoke() && core.TypeIs(c.Common().Value.Type(), routingPkg, "Algorithm") && behindKnown(i.Block())
		}) {
			told = false
		}
	}
	key := "previous-node/" + fname(rcv) + "/duplicate-reception"
	if at == nil {
		r.Unknown(key, "the known-bundle branch of receive was located", p.Pos(rcv.Pos()), "no return behind the known-bundle test")
		return
	}
	r.Check(told, key, "a second reception of a held bundle tells the routing algorithm the duplicate's previous node, so that the bundle is not offered to that peer", p.Pos(at.Pos()), "", "receive drops a duplicate without consulting the routing algorithm: the peer that sent the duplicate is not recorded as having the bundle, the next dispatching transmits the bundle to it (repro/audit2F_C13_duplicate_previous_node.txt)")
}
