package rules

import (
	"fmt"
	"go/token"
	"go/types"
	"sort"
	"strings"

	"dtnverif/core"

	"golang.org/x/tools/go/ssa"
)

const bp7 = "pkg/bpv7"

// constVal returns the value of the named constant of a repo package.
func constVal(p *core.Program, pkg, name string) int64 {
	c := p.Const(pkg, name)
	v, ok := core.ConstInt(c.Value)
	if !ok {
		core.Undecided("anchor: const %s.%s is not an integer", pkg, name)
	}
	return v
}

// flagGuard reports whether conds contain `<X>.Has(flag)` taken on the given
// edge, where Has is the method of pkg/bpv7.<flagType>.
func flagGuard(conds []core.Cond, flagType string, flag int64, edge bool) bool {
	for _, c := range conds {
		call, ok := core.CondIsCall(c, bp7+"."+flagType+".Has")
		if !ok || c.True != edge {
			continue
		}
		args := core.CallArgs(call)
		if len(args) == 1 {
			if v, ok := core.ConstInt(args[0]); ok && v == flag {
				return true
			}
		}
	}
	return false
}

// callGuard reports whether conds contain a call to name on the given edge.
func callGuard(conds []core.Cond, name string, edge bool) (*ssa.Call, bool) {
	for _, c := range conds {
		if call, ok := core.CondIsCall(c, name); ok && c.True == edge {
			return call, true
		}
	}
	return nil, false
}

// errNilGuard reports whether conds establish that the error produced by
// call (its only result or the last component of its tuple) is nil.
func errNilGuard(conds []core.Cond, call ssa.Value) bool {
	for _, c := range conds {
		x, isNil, ok := core.NilCmp(c)
		if !ok || !isNil {
			continue
		}
		if isResultOf(x, call) {
			return true
		}
	}
	return false
}

// isResultOf: x is call's value, a component of its tuple, or the load of a local cell (a named result kept in memory
// because the function defers, a captured variable) into which that value was stored just before, in the same block
// with no other store to the cell in between (`if err = f(); err != nil`).
func isResultOf(x, call ssa.Value) bool {
	if x == call {
		return true
	}
	if ex, ok := x.(*ssa.Extract); ok && ex.Tuple == call {
		return true
	}
	ld, ok := x.(*ssa.UnOp)
	if !ok || ld.Op != token.MUL {
		return false
	}
	cell, ok := ld.X.(*ssa.Alloc)
	if !ok {
		return false
	}
	instrs := ld.Block().Instrs
	at := -1
	for i, in := range instrs {
		if in == ssa.Instruction(ld) {
			at = i
		}
	}
	for i := at - 1; i >= 0; i-- {
		if st, isSt := instrs[i].(*ssa.Store); isSt && st.Addr == ssa.Value(cell) {
			if st.Val == call {
				return true
			}
			if ex, isEx := st.Val.(*ssa.Extract); isEx && ex.Tuple == call {
				return true
			}
			return false
		}
		if _, isCall := instrs[i].(ssa.CallInstruction); isCall && instrs[i] != call.(ssa.Instruction) {
			// a call in between may write the cell if it escaped (closures); be conservative only for closures
			if _, isMC := instrs[i].(*ssa.Call); isMC {
				continue
			}
		}
	}
	return false
}

// errNonNilGuardAny reports whether conds establish `v != nil` for a value
// derived from call.
func errNonNilGuard(conds []core.Cond, call ssa.Value) bool {
	for _, c := range conds {
		x, isNil, ok := core.NilCmp(c)
		if !ok || isNil {
			continue
		}
		if isResultOf(x, call) {
			return true
		}
	}
	return false
}

// condStrings renders dominating conditions for reports.
func condStrings(conds []core.Cond) string {
	var s []string
	for _, c := range conds {
		pol := ""
		if !c.True {
			pol = "!"
		}
		s = append(s, pol+valStr(c.V))
	}
	sort.Strings(s)
	return "[" + strings.Join(s, ", ") + "]"
}

func valStr(v ssa.Value) string {
	switch x := v.(type) {
	case *ssa.Call:
		n := core.CalleeName(x)
		n = strings.TrimPrefix(n, core.ModPath+"/")
		var as []string
		for _, a := range core.CallArgs(x) {
			if c, ok := a.(*ssa.Const); ok {
				as = append(as, c.String())
			} else {
				as = append(as, "_")
			}
		}
		return n + "(" + strings.Join(as, ",") + ")"
	case *ssa.BinOp:
		return valStr(x.X) + " " + x.Op.String() + " " + valStr(x.Y)
	case *ssa.Const:
		return x.String()
	case *ssa.Extract:
		return valStr(x.Tuple) + fmt.Sprintf("#%d", x.Index)
	case *ssa.UnOp:
		if x.Op == token.MUL {
			if _, path, ok := core.FieldRef(x); ok {
				return "." + strings.Join(path, ".")
			}
			return "*" + valStr(x.X)
		}
		return x.Op.String() + valStr(x.X)
	case *ssa.FieldAddr, *ssa.Field:
		if _, path, ok := core.FieldRef(v); ok {
			return "." + strings.Join(path, ".")
		}
	case *ssa.Parameter:
		return x.Name()
	case *ssa.Phi:
		return "phi(" + x.Comment + ")"
	}
	return v.Name()
}

// allCallSites returns every call instruction in repo functions (including
// closures) whose callee is name.
func allCallSites(p *core.Program, name string) []ssa.CallInstruction {
	var out []ssa.CallInstruction
	for _, fn := range p.RepoFuncs() {
		out = append(out, core.CallsTo(fn, name)...)
	}
	return out
}

// fname is a short, line-free function identifier for obligation keys.
func fname(fn *ssa.Function) string { return core.FuncName(fn) }

// isErrorType reports whether t is the builtin error interface.
func isErrorType(t types.Type) bool {
	return types.Identical(t, types.Universe.Lookup("error").Type())
}

// topFunc returns the outermost enclosing named function.
func topFunc(fn *ssa.Function) *ssa.Function {
	for fn.Parent() != nil {
		fn = fn.Parent()
	}
	return fn
}

// loadOfField reports whether v is a load/selection ending in the given
// field-name path suffix (e.g. "PrimaryBlock","ReportTo").
func pathEndsWith(v ssa.Value, suffix ...string) bool {
	_, path, ok := core.FieldRef(core.Strip(v))
	if !ok || len(path) < len(suffix) {
		return false
	}
	off := len(path) - len(suffix)
	for i, s := range suffix {
		if path[off+i] != s {
			return false
		}
	}
	return true
}

// allocArrayLen returns the length of the array a heap Alloc creates.
func allocArrayLen(a *ssa.Alloc) (int64, bool) {
	pt, ok := a.Type().Underlying().(*types.Pointer)
	if !ok {
		return 0, false
	}
	at, ok := pt.Elem().Underlying().(*types.Array)
	if !ok {
		return 0, false
	}
	return at.Len(), true
}

func chanElemIsInt(v ssa.Value) bool {
	ch, ok := v.Type().Underlying().(*types.Chan)
	if !ok {
		return false
	}
	b, ok := ch.Elem().Underlying().(*types.Basic)
	return ok && b.Kind() == types.Int
}

// checkErrorsNotSwallowed: in fn (a function whose last result is an error),
// no path that has seen a call fail — it took the `x != nil` edge of a test of
// an error value produced by a call — returns a nil error, unless the failure
// is of a call listed in tolerated (by callee name). This catches an error
// assigned to a shadowed variable, a missing return after wrapping, a `continue`
// that forgets the failure.
func checkErrorsNotSwallowed(p *core.Program, r *core.Report, fn *ssa.Function, prefix string, tolerated map[string]bool) {
	res := fn.Signature.Results()
	if res.Len() == 0 || !isErrorType(res.At(res.Len()-1).Type()) || fn.Blocks == nil {
		return
	}
	errIx := res.Len() - 1
	pe := &core.PathEnum{Fn: fn, Bind: map[ssa.Value]int64{}, MaxUnknownVisits: 1, MaxPaths: 3000}
	pe.Run()
	key := prefix + "errors-not-swallowed/" + fname(fn)
	rule := "a function that returns an error does not return nil on a path on which one of its calls failed (the failure was tested and found non-nil)"
	if pe.Trunc {
		r.Note(key, rule+" — not decided for this function (too many paths)", p.Pos(fn.Pos()), "")
		return
	}
	var bad []string
	seen := map[string]bool{}
	for _, pr := range pe.Paths {
		if pr.Panics || pr.ErrOutcome(errIx) != "nil" {
			continue
		}
		for _, c := range pr.State.Taken {
			x, isNil, ok := core.NilCmp(c)
			if !ok || isNil || !isErrorType(x.Type()) {
				continue
			}
			x = pr.State.Resolve(x)
			var call *ssa.Call
			switch v := x.(type) {
			case *ssa.Call:
				call = v
			case *ssa.Extract:
				call, _ = v.Tuple.(*ssa.Call)
			}
			if call == nil {
				continue
			}
			name := core.CalleeName(call)
			if name == "" && call.Common().IsInvoke() {
				name = "invoke." + call.Common().Method.Name()
			}
			if tolerated[shortName(name)] {
				continue
			}
			// the failure was recognised as a sentinel the function deliberately accepts (err == io.EOF ...)
			sentinel := false
			for _, c2 := range pr.State.Taken {
				b, isB := c2.V.(*ssa.BinOp)
				if !isB || (b.Op != token.EQL && b.Op != token.NEQ) {
					continue
				}
				eq := (b.Op == token.EQL) == c2.True
				for _, pair := range [][2]ssa.Value{{b.X, b.Y}, {b.Y, b.X}} {
					if pr.State.Resolve(pair[0]) == x && !core.IsNilConst(pair[1]) && eq {
						sentinel = true
					}
				}
			}
			if sentinel {
				continue
			}
			// the most recent test of this value on the path must be the failing one (loops re-test)
			d := p.Pos(call.Pos()) + " (" + shortName(name) + ")"
			if !seen[d] {
				seen[d] = true
				bad = append(bad, d)
			}
		}
	}
	r.Check(len(bad) == 0, key, rule, p.Pos(fn.Pos()), "", "nil is returned although the call at "+strings.Join(bad, ", ")+" failed on that path: the caller takes a partial result for a success")

	// The enumeration follows a loop once; a failure that sends control back to the loop head ("continue") is cut
	// there. Structural complement: inside a loop, the failure edge of a call's error test reaches the loop head again
	// only if the error value is used on the way (recorded, wrapped, appended) - a bare continue forgets it.
	loops := core.Loops(fn)
	var forgot []string
	for _, blk := range fn.Blocks {
		ifi, isIf := blk.Instrs[len(blk.Instrs)-1].(*ssa.If)
		if !isIf {
			continue
		}
		l := core.InnermostLoop(loops, blk)
		if l == nil {
			continue
		}
		x, isNil, ok := core.NilCmp(core.Cond{V: ifi.Cond, True: true})
		if !ok || !isErrorType(x.Type()) {
			continue
		}
		var call *ssa.Call
		switch v := x.(type) {
		case *ssa.Call:
			call = v
		case *ssa.Extract:
			call, _ = v.Tuple.(*ssa.Call)
		}
		if call == nil {
			continue
		}
		name := core.CalleeName(call)
		if name == "" && call.Common().IsInvoke() {
			name = "invoke." + call.Common().Method.Name()
		}
		if tolerated[shortName(name)] {
			continue
		}
		fail := blk.Succs[0]
		if isNil {
			fail = blk.Succs[1]
		}
		// blocks reachable from the failure edge without leaving the loop and without passing the header
		seen := map[*ssa.BasicBlock]bool{}
		work := []*ssa.BasicBlock{fail}
		back, used := false, false
		for len(work) > 0 {
			b := work[len(work)-1]
			work = work[:len(work)-1]
			if seen[b] || !l.Blocks[b] {
				continue
			}
			if b == l.Header {
				back = true
				continue
			}
			seen[b] = true
			for _, in := range b.Instrs {
				if in == ssa.Instruction(ifi) {
					continue
				}
				for _, op := range in.Operands(nil) {
					if *op == x {
						if _, isIf2 := in.(*ssa.If); !isIf2 {
							if bo, isBin := in.(*ssa.BinOp); !isBin || (bo.Op != token.EQL && bo.Op != token.NEQ) {
								used = true
							}
						}
					}
				}
			}
			work = append(work, b.Succs...)
		}
		if back && !used {
			forgot = append(forgot, p.Pos(call.Pos())+" ("+shortName(name)+")")
		}
	}
	if len(loops) > 0 {
		r.Check(len(forgot) == 0, key+"/loop-continue", "inside a loop of a function that returns an error, the failure of a call does not send control back to the loop head with the error value unused (neither returned, recorded nor wrapped)", p.Pos(fn.Pos()), "", "the loop goes on after the call at "+strings.Join(forgot, ", ")+" failed and nothing keeps the error: the function can return nil for a partial result")
	}
}

// checkErrorsNotSwallowedIn applies checkErrorsNotSwallowed to every top-level function with an error result in the
// named packages (relative paths); returns the number of functions examined.
func checkErrorsNotSwallowedIn(p *core.Program, r *core.Report, pkgs ...string) int {
	return checkErrorsNotSwallowedTol(p, r, nil, pkgs...)
}

func checkErrorsNotSwallowedTol(p *core.Program, r *core.Report, tolerated map[string]bool, pkgs ...string) int {
	want := map[*ssa.Package]bool{}
	for _, rel := range pkgs {
		want[p.Pkg(rel)] = true
	}
	n := 0
	for _, fn := range p.RepoFuncs() {
		if fn.Pkg == nil || fn.Parent() != nil || !want[fn.Pkg] {
			continue
		}
		res := fn.Signature.Results()
		if res.Len() == 0 || !isErrorType(res.At(res.Len()-1).Type()) {
			continue
		}
		n++
		checkErrorsNotSwallowed(p, r, fn, "", tolerated)
	}
	return n
}
