package rules

import (
	"fmt"
	"go/token"
	"go/types"
	"strings"

	"dtnverif/core"

	"golang.org/x/tools/go/ssa"
)

func init() { Registry["C05"] = C05 }

// storeRMW finds in fn a Store.QueryId whose result flows into a Store.Update
// argument (read-modify-write of a store item); returns the update sites.
func storeRMW(fn *ssa.Function) (queries []ssa.CallInstruction, updates []ssa.CallInstruction) {
	qs := core.CallsTo(fn, storagePkg+".Store.QueryId")
	for _, u := range core.CallsTo(fn, storagePkg+".Store.Update") {
		arg := core.Arg(u, 0)
		for _, q := range qs {
			if core.DependsOn(arg, func(v ssa.Value) bool {
				if v == q.(ssa.Value) {
					return true
				}
				ex, ok := v.(*ssa.Extract)
				return ok && ex.Tuple == q.(ssa.Value)
			}) {
				queries = append(queries, q)
				updates = append(updates, u)
			}
		}
	}
	return
}

// multiInstanceClosures returns closures started by a `go` statement that
// lies on a CFG cycle of its parent (one goroutine per loop iteration).
func multiInstanceClosures(p *core.Program) map[*ssa.Function]*ssa.Go {
	out := map[*ssa.Function]*ssa.Go{}
	for _, fn := range p.RepoFuncs() {
		core.EachInstr(fn, func(in ssa.Instruction) {
			g, ok := in.(*ssa.Go)
			if !ok || !core.InLoop(g.Block()) {
				return
			}
			switch v := g.Common().Value.(type) {
			case *ssa.MakeClosure:
				out[v.Fn.(*ssa.Function)] = g
			case *ssa.Function:
				out[v] = g
			}
		})
	}
	return out
}

// checkConcurrentFailureReports: C05/5, C13/4.
func checkConcurrentFailureReports(p *core.Program, r *core.Report) {
	impls := p.Implementations(routingPkg, "Algorithm")
	r.Min("Algorithm implementations", 6)
	r.Count("Algorithm implementations", len(impls))
	needSerial := []string{}
	for _, n := range impls {
		fn := p.MethodOf(n, "ReportFailure")
		if fn == nil || fn.Blocks == nil {
			continue
		}
		qs, us := storeRMW(fn)
		if len(us) == 0 {
			continue
		}
		ls := core.ComputeLockSets(fn)
		local := true
		for i := range us {
			if !ls.SameWriteRegion(qs[i], us[i], "") {
				local = false
			}
		}
		if !local {
			needSerial = append(needSerial, fname(fn))
		}
	}
	multi := multiInstanceClosures(p)
	nSites := 0
	for cl, goInstr := range multi {
		core.EachInstrDeep(cl, func(f *ssa.Function, in ssa.Instruction) {
			c, ok := in.(*ssa.Call)
			if !ok || !c.Common().IsInvoke() || c.Common().Method.Name() != "ReportFailure" || !core.TypeIs(c.Common().Value.Type(), routingPkg, "Algorithm") {
				return
			}
			nSites++
			key := "atomic-failure-report/" + fname(topFunc(cl)) + "/ReportFailure-in-per-peer-goroutine"
			rule := "failure reports for one bundle arrive from one goroutine per peer; implementations that read-modify-write the bundle's store item without a lock of their own must be serialised by the caller (an exclusive lock shared by the goroutines around Algorithm.ReportFailure)"
			ls := core.ComputeLockSets(f)
			shared := false
			for _, e := range ls.At[c] {
				if e.Write && (strings.HasPrefix(e.Mutex, "local.") || strings.Contains(e.Mutex, ".")) {
					// a lock created inside the goroutine itself would not be shared
					if a, isAlloc := core.CallRecv(e.Acq.(ssa.CallInstruction)).(*ssa.Alloc); isAlloc && a.Parent() == f {
						continue
					}
					shared = true
				}
			}
			if len(needSerial) == 0 {
				r.OK(key, rule, p.Pos(c.Pos()), "every implementation locks its own read-modify-write")
			} else if shared {
				r.OK(key, rule, p.Pos(c.Pos()), "call is inside an exclusive region shared by the goroutines; unlocked implementations: "+strings.Join(needSerial, ", "))
			} else {
				r.Fail(key, rule, p.Pos(c.Pos()), fmt.Sprintf("goroutines started at %s call ReportFailure concurrently without a lock; %s query the store item, edit the sent list and write it back: two simultaneous failures lose one update and leave a stale 'sent' entry, so the bundle is never offered to that peer again", p.Pos(goInstr.Pos()), strings.Join(needSerial, ", ")))
			}
		})
	}
	// the reports may just as well be made sequentially after the goroutines were joined: what must exist is a
	// failure report reachable from forward at all
	nAll := 0
	fwdFn := p.Func(routingPkg, "Core", "forward")
	core.EachInstrDeep(fwdFn, func(f *ssa.Function, in ssa.Instruction) {
		if c, ok := in.(*ssa.Call); ok && c.Common().IsInvoke() && c.Common().Method.Name() == "ReportFailure" {
			nAll++
		}
	})
	r.Min("ReportFailure calls in Core.forward", 1)
	r.Count("ReportFailure calls in Core.forward", nAll)
	// every failed transmission is reported, whatever the other transmissions of the round did: a report made
	// after the goroutines were joined must be on every path from the join to the return, not only on the
	// "nothing was sent" branch (the algorithm recorded the peer as served when it selected it and relies on the
	// report to make it eligible again); a report inside the goroutine must depend on nothing but the send's error
	var waits []ssa.Instruction
	core.EachInstr(fwdFn, func(in ssa.Instruction) {
		if c, ok := in.(*ssa.Call); ok && core.CalleeName(c) == "sync.WaitGroup.Wait" {
			waits = append(waits, in)
		}
	})
	core.EachInstrDeep(fwdFn, func(f *ssa.Function, in ssa.Instruction) {
		c, ok := in.(*ssa.Call)
		if !ok || !c.Common().IsInvoke() || c.Common().Method.Name() != "ReportFailure" {
			return
		}
		key := "failure-always-reported/" + fname(f)
		rule := "a failed transmission is reported to the routing algorithm regardless of how the other transmissions of the same round ended"
		if f == fwdFn {
			l := core.InnermostLoop(core.Loops(fwdFn), in.Block())
			okAll := l != nil && len(waits) > 0
			var miss ssa.Instruction
			for _, w := range waits {
				if l == nil {
					break
				}
				if ok2, ex := core.MustPassAfter(w, func(i ssa.Instruction) bool { return i.Block() == l.Header }, core.IsReturn); !ok2 {
					okAll, miss = false, ex
				}
			}
			d := ""
			if miss != nil {
				d = "the return at " + p.Pos(miss.Pos()) + " is reachable from wg.Wait() without passing the reporting loop: failures of a round in which another transmission succeeded are dropped, the failed peer stays in the sent list for ever"
			}
			r.Check(okAll, key, rule, p.Pos(in.Pos()), "", d)
			return
		}
		// inside a per-peer goroutine: only conditions on the Send's own error may guard the report
		okG := true
		var extra []string
		for _, cd := range core.DominatingConds(in.Block()) {
			x, _, isNilCmp := core.NilCmp(cd)
			if isNilCmp && isErrorType(x.Type()) {
				continue
			}
			// or: "these peers were chosen by the algorithm" - a flag of forward that is set where SenderForBundle
			// is consulted and nowhere else (a failed direct delivery, about which the algorithm was not asked and
			// for which it has booked nothing, is not reported to it)
			if cd.True && isChosenByAlgorithmFlag(fwdFn, f, cd.V) {
				continue
			}
			okG = false
			extra = append(extra, valStr(cd.V))
		}
		r.Check(okG, key, rule, p.Pos(in.Pos()), "", "the report is additionally guarded by "+strings.Join(extra, ", "))
	})
	r.Analysed["ReportFailure_calls_in_per_peer_goroutines"] = nSites

	checkLoopVarCapture(p, r)
}

// checkLoopVarCapture: the module declares a Go version below 1.22, so a `for`
// loop has ONE instance of each loop variable. A closure started with `go`
// (or deferred) inside the loop that refers to such a variable — instead of
// receiving its value as an argument — reads whatever value the variable has
// when the goroutine gets to it, usually the last one: what one peer's
// goroutine records (a failure, a result) is booked against another peer.
// In SSA the variable is an Alloc outside the loop body that is stored to
// inside the loop and bound into the closure.
func checkLoopVarCapture(p *core.Program, r *core.Report) {
	n := 0
	reach := p.DaemonReachable()
	for _, fn := range p.RepoFuncs() {
		if !reach[topFunc(fn)] {
			continue
		}
		loops := core.Loops(fn)
		if len(loops) == 0 {
			continue
		}
		core.EachInstr(fn, func(in ssa.Instruction) {
			var cc *ssa.CallCommon
			switch x := in.(type) {
			case *ssa.Go:
				cc = x.Common()
			case *ssa.Defer:
				cc = x.Common()
			default:
				return
			}
			mc, ok := cc.Value.(*ssa.MakeClosure)
			if !ok {
				return
			}
			l := core.InnermostLoop(loops, in.Block())
			if l == nil {
				return
			}
			n++
			var bad []string
			for i, b := range mc.Bindings {
				a, ok := b.(*ssa.Alloc)
				if !ok || l.Blocks[a.Block()] {
					continue // not a variable, or a per-iteration variable
				}
				written := false
				for _, ref := range *a.Referrers() {
					if st, ok := ref.(*ssa.Store); ok && st.Addr == ssa.Value(a) && l.Blocks[st.Block()] {
						written = true
					}
				}
				if written {
					name := a.Comment
					if fv := mc.Fn.(*ssa.Function).FreeVars; i < len(fv) {
						name = fv[i].Name()
					}
					bad = append(bad, name)
				}
			}
			r.Check(len(bad) == 0, fmt.Sprintf("loop-variable-capture/%s#%d", fname(fn), n), "a closure started as goroutine (or deferred) inside a loop does not refer to a variable that the loop assigns on every iteration (Go < 1.22: one variable per loop); per-iteration values are passed as arguments", p.Pos(in.Pos()), "", "the closure captures "+strings.Join(bad, ", ")+", which the loop overwrites: the goroutine sees the value of a later iteration (e.g. a failure is booked against the last peer instead of the one that failed)")
		})
	}
	r.Count("goroutine/defer closures inside loops (daemon code)", n)
	r.Min("goroutine/defer closures inside loops (daemon code)", 1)
}

// C05 — store-carry-forward: an accepted bundle is never silently lost.
func C05(p *core.Program, r *core.Report) {
	r.Explanation = "Safety premises of store-carry-forward, each decided on all paths: (1) every call that releases retention (PurgeConstraints, RemoveConstraint, Store.Delete, bundleDeletion) is enumerated and must be dominated by its cause from a frozen table; every exit of Core.forward passes deletion-for-cause, release-after-success or bundleContraindicated (=> pending); Pending has three writers; (2) the retry loop is wired (cron registration, PeerAppeared arm, complete loop over QueryPending); (3) the sequence number is assigned before the first call that can reach Store.Push; (4) a zero creation time is never converted to a wall-clock expiry (contradiction rule against Bundle.IsLifetimeExceeded); (5) concurrent failure reports from the per-peer goroutines are atomic. Not decided: liveness (that a retry eventually happens), crash/restart behaviour, epidemic's every-new-peer clause as a history property."
	r.Assumptions = append(r.Assumptions,
		"BundleDescriptor.Sync with an empty constraint set deletes the item, with Contraindicated/ForwardPending sets Pending (checked structurally)",
		"cron fires registered jobs (third-party free: own Cron type, not analysed for liveness)")

	fwd := p.Func(routingPkg, "Core", "forward")

	// ---- (1) retention released only for cause
	hop := constVal(p, bp7, "HopLimitExceeded")
	life := constVal(p, bp7, "LifetimeExpired")
	blkUns := constVal(p, bp7, "BlockUnsupported")
	delBundle := constVal(p, bp7, "DeleteBundle")
	nDel := 0
	for _, cs := range allCallSites(p, routingPkg+".Core.bundleDeletion") {
		nDel++
		fn := cs.Parent()
		conds := core.DominatingConds(cs.Block())
		reason, isC := core.ConstInt(core.Arg(cs, 1))
		key := fmt.Sprintf("release-for-cause/%s/bundleDeletion(reason=%d)", fname(fn), reason)
		rule := "a bundle is deleted only for cause: hop limit exceeded, lifetime over, unsupported block demanding deletion, foreign source, unusable administrative record"
		ok := false
		why := ""
		switch {
		case !isC:
			why = "non-constant reason"
		case reason == hop:
			_, ok = callGuard(conds, bp7+".HopCountBlock.IsExceeded", true)
			if !ok {
				_, ok = callGuard(conds, bp7+".HopCountBlock.Increment", true)
			}
		case reason == life:
			_, ok = callGuard(conds, bp7+".Bundle.IsLifetimeExceeded", true)
			if !ok {
				for _, c := range conds {
					if b, isB := c.V.(*ssa.BinOp); isB && c.True && (b.Op == token.GEQ || b.Op == token.GTR) {
						if ex, isEx := b.X.(*ssa.Extract); isEx {
							if call, isCall := ex.Tuple.(*ssa.Call); isCall && core.NameIs(core.CalleeName(call), routingPkg+".BundleDescriptor.UpdateBundleAge") && pathEndsWith(b.Y, "PrimaryBlock", "Lifetime") {
								ok = true
							}
						}
					}
				}
			}
		case reason == blkUns:
			_, unk := callGuard(conds, bp7+".ExtensionBlockManager.IsKnown", false)
			ok = unk && flagGuard(conds, "BlockControlFlags", delBundle, true)
		case reason == 0:
			switch fn.Name() {
			case "transmit":
				_, ok = callGuard(conds, routingPkg+".Core.HasEndpoint", false)
			case "localDelivery":
				_, ok = callGuard(conds, routingPkg+".Core.checkAdministrativeRecord", false)
			default:
				why = "no cause registered for this function"
			}
		}
		r.Check(ok, key, rule, p.Pos(cs.Pos()), "", "cause guard missing "+why+"; "+condStrings(conds))
	}
	r.Min("bundleDeletion call sites", 6)
	r.Count("bundleDeletion call sites", nDel)

	// PurgeConstraints call sites
	for _, cs := range allCallSites(p, routingPkg+".BundleDescriptor.PurgeConstraints") {
		fn := cs.Parent()
		if !p.DaemonReachable()[fn] {
			continue
		}
		conds := core.DominatingConds(cs.Block())
		key := "release-for-cause/" + fname(fn) + "/PurgeConstraints"
		rule := "all retention constraints are dropped only by bundleDeletion, after a successful send that shall delete, or after a successful local delivery"
		switch fname(fn) {
		case "pkg/routing.Core.bundleDeletion":
			r.OK(key, rule, p.Pos(cs.Pos()), "deletion for cause (call sites checked above)")
		case "pkg/routing.Core.forward":
			okSent, okDel := false, false
			for _, c := range conds {
				if !c.True {
					continue
				}
				if a := loadedAlloc(c.V); a != nil && sentFlagIsTruthful(p, r, fn, a) {
					okSent = true
				}
				if phi, ok := c.V.(*ssa.Phi); ok && deleteAfterwardsSound(phi) {
					okDel = true
				}
			}
			r.Check(okSent && okDel, key, rule, p.Pos(cs.Pos()), "under bundleSent (set only on Send()==nil) and deleteAfterwards (true only for direct delivery or by the algorithm's decision)", fmt.Sprintf("sent-guard=%v delete-guard=%v; %s", okSent, okDel, condStrings(conds)))
		case "pkg/routing.Core.localDelivery":
			ok := false
			for _, dc := range core.CallsTo(fn, routingPkg+".AgentManager.Deliver") {
				if errNilGuard(conds, dc.(ssa.Value)) {
					ok = true
				}
			}
			r.Check(ok, key, rule, p.Pos(cs.Pos()), "", "not guarded by Deliver()==nil; "+condStrings(conds))
		default:
			r.Fail(key, rule, p.Pos(cs.Pos()), "unexpected caller of PurgeConstraints")
		}
	}
	// Store.Delete call sites
	for _, cs := range allCallSites(p, storagePkg+".Store.Delete") {
		fn := cs.Parent()
		conds := core.DominatingConds(cs.Block())
		key := "release-for-cause/" + fname(fn) + "/Store.Delete"
		rule := "a store record is deleted only when its constraint set is empty, when a status report says it was delivered, or when it expired"
		switch fname(fn) {
		case "pkg/routing.BundleDescriptor.Sync":
			ok := false
			for _, c := range conds {
				if b, isB := c.V.(*ssa.BinOp); isB && b.Op == token.EQL && c.True {
					if k, isC := core.ConstInt(b.Y); isC && k == 0 {
						if call, isCall := b.X.(*ssa.Call); isCall {
							if bi, isBi := call.Common().Value.(*ssa.Builtin); isBi && bi.Name() == "len" && pathEndsWith(call.Common().Args[0], "Constraints") {
								ok = true
							}
						}
					}
				}
			}
			r.Check(ok, key, rule, p.Pos(cs.Pos()), "", "not guarded by len(Constraints)==0; "+condStrings(conds))
		case "pkg/routing.Core.inspectStatusReport":
			ok := false
			dlv := constVal(p, bp7, "DeliveredBundle")
			for _, c := range conds {
				if b, isB := c.V.(*ssa.BinOp); isB && b.Op == token.EQL && c.True {
					if k, isC := core.ConstInt(b.Y); isC && k == dlv {
						ok = true
					}
				}
			}
			r.Check(ok, key, rule, p.Pos(cs.Pos()), "", "not on the DeliveredBundle arm; "+condStrings(conds))
			// the record is looked up without fragment coordinates: a report about one fragment must not release the bundle
			okWhole := false
			for _, c := range conds {
				if pathEndsWith(c.V, "RefBundle", "IsFragment") && !c.True {
					okWhole = true
				}
			}
			r.Check(okWhole, key+"/whole-bundle-only", "a 'delivered' report releases the stored bundle only if it refers to the bundle as a whole (Store.QueryId drops the fragment coordinates of the reference: a report about one delivered fragment would delete the whole bundle kept for forwarding)", p.Pos(cs.Pos()), "", "Store.Delete is reachable for a report whose RefBundle.IsFragment is set")
		case "pkg/storage.Store.DeleteExpired":
			r.OK(key, rule, p.Pos(cs.Pos()), "expiry sweep (Expires computed by calcExpirationDate, checked below)")
		default:
			r.Fail(key, rule, p.Pos(cs.Pos()), "unexpected caller of Store.Delete")
		}
	}
	// RemoveConstraint call sites: constants only
	for _, cs := range allCallSites(p, routingPkg+".BundleDescriptor.RemoveConstraint") {
		fn := cs.Parent()
		if !p.DaemonReachable()[fn] {
			continue
		}
		key := "release-for-cause/" + fname(fn) + "/RemoveConstraint"
		rule := "single constraints are removed only at their hand-over points: DispatchPending when forwarding starts (ForwardPending added first), LocalEndpoint when an agent takes the bundle, and inside PurgeConstraints"
		switch fname(fn) {
		case "pkg/routing.BundleDescriptor.PurgeConstraints":
			r.OK(key, rule, p.Pos(cs.Pos()), "")
		case "pkg/routing.Core.forward":
			k, _ := core.ConstInt(core.Arg(cs, 0))
			okAdd := core.MustPassBefore(cs, func(i ssa.Instruction) bool {
				c, ok := i.(ssa.CallInstruction)
				if !ok || !core.NameIs(core.CalleeName(c), routingPkg+".BundleDescriptor.AddConstraint") {
					return false
				}
				v, _ := core.ConstInt(core.Arg(c, 0))
				return v == constVal(p, routingPkg, "ForwardPending")
			})
			r.Check(k == constVal(p, routingPkg, "DispatchPending") && okAdd, key, rule, p.Pos(cs.Pos()), "", "forward removes another constraint or does not add ForwardPending first")
		case "pkg/routing.AgentManager.Deliver":
			k, _ := core.ConstInt(core.Arg(cs, 0))
			_, g := callGuard(core.DominatingConds(cs.Block()), routingPkg+".AgentManager.HasEndpoint", true)
			r.Check(k == constVal(p, routingPkg, "LocalEndpoint") && g, key, rule, p.Pos(cs.Pos()), "", "Deliver removes another constraint or without a registered agent")
		default:
			r.Fail(key, rule, p.Pos(cs.Pos()), "unexpected caller of RemoveConstraint")
		}
	}

	// every exit of forward passes deletion / release / contraindication
	nRet := 0
	for _, ret := range core.Returns(fwd) {
		nRet++
		ok := core.MustPassBefore(ret, func(i ssa.Instruction) bool {
			c, isC := i.(ssa.CallInstruction)
			if !isC {
				return false
			}
			n := core.CalleeName(c)
			return core.NameIs(n, routingPkg+".Core.bundleDeletion") || core.NameIs(n, routingPkg+".Core.bundleContraindicated") || core.NameIs(n, routingPkg+".BundleDescriptor.PurgeConstraints")
		})
		r.Check(ok, fmt.Sprintf("retained-or-released/%s/exit#%d", fname(fwd), nRet), "every way out of forward either deletes for cause, releases after success, or marks the bundle contraindicated (pending retry)", p.Pos(ret.Pos()), "", "an exit of forward leaves the bundle neither released nor marked for retry")
	}
	// bundleContraindicated adds Contraindicated and syncs
	bc := p.Func(routingPkg, "Core", "bundleContraindicated")
	okBC := false
	for _, a := range core.CallsTo(bc, routingPkg+".BundleDescriptor.AddConstraint") {
		if k, _ := core.ConstInt(core.Arg(a, 0)); k == constVal(p, routingPkg, "Contraindicated") {
			if ok, _ := core.MustPassAfter(a, func(i ssa.Instruction) bool {
				c, isC := i.(ssa.CallInstruction)
				return isC && core.NameIs(core.CalleeName(c), routingPkg+".BundleDescriptor.Sync")
			}, core.IsReturn); ok {
				okBC = true
			}
		}
	}
	r.Check(okBC, "retained-or-released/"+fname(bc)+"/marks-and-syncs", "bundleContraindicated adds the Contraindicated constraint and synchronises it to the store", p.Pos(bc.Pos()), "", "AddConstraint(Contraindicated) followed by Sync not found")

	// Sync: Pending derives from ForwardPending | Contraindicated
	sync := p.Func(routingPkg, "BundleDescriptor", "Sync")
	nPend := 0
	core.EachInstr(sync, func(in ssa.Instruction) {
		st, ok := in.(*ssa.Store)
		if !ok || !core.IsField(st.Addr, storagePkg, "BundleItem", "Pending") {
			return
		}
		nPend++
		seen := map[int64]bool{}
		for _, root := range append([]ssa.Value{st.Val}, core.ControlConds(st.Val)...) {
			core.DependsOn(root, func(v ssa.Value) bool {
				if c, ok := v.(*ssa.Call); ok && core.NameIs(core.CalleeName(c), routingPkg+".BundleDescriptor.HasConstraint") {
					if k, ok := core.ConstInt(core.Arg(c, 0)); ok {
						seen[k] = true
					}
				}
				return false
			})
		}
		ok2 := seen[constVal(p, routingPkg, "ForwardPending")] && seen[constVal(p, routingPkg, "Contraindicated")]
		r.Check(ok2, "pending-flag/"+fname(sync)+"/computed", "an item is pending (retried) whenever it is ForwardPending or Contraindicated", p.Pos(st.Pos()), "", "Pending no longer depends on both constraints")
		// persisted afterwards
		okUpd, _ := core.MustPassAfter(st, func(i ssa.Instruction) bool {
			c, isC := i.(ssa.CallInstruction)
			return isC && core.NameIs(core.CalleeName(c), storagePkg+".Store.Update")
		}, core.IsReturn)
		r.Check(okUpd, "pending-flag/"+fname(sync)+"/persisted", "the pending flag is written to the store on every path", p.Pos(st.Pos()), "", "a return is reachable without Store.Update")
	})
	r.Min("Pending stores in Sync", 1)
	r.Count("Pending stores in Sync", nPend)
	// Sync recomputes Pending from the constraints on every synchronisation; any other writer's value is lost by
	// the next Sync (contradiction rule), so only the item constructor and Sync may write it.
	allowedPending := map[string]bool{"pkg/storage.newBundleItem": true, "pkg/routing.BundleDescriptor.Sync": true}
	for _, fn := range p.RepoFuncs() {
		core.EachInstr(fn, func(in ssa.Instruction) {
			st, ok := in.(*ssa.Store)
			if !ok || !core.IsField(st.Addr, storagePkg, "BundleItem", "Pending") {
				return
			}
			okW := allowedPending[fname(fn)]
			r.Check(okW, "pending-flag/who-may-write/"+fname(fn), "BundleItem.Pending is written only by the item constructor (false) and by Sync (computed from the constraints); a flag set anywhere else is overwritten by the next Sync, e.g. when a duplicate of the bundle arrives, and the bundle is never retried", p.Pos(st.Pos()), "", "Pending is written outside Sync: the next synchronisation recomputes it from the constraints and loses this value")
		})
	}

	// epidemic: a bundle that cannot be dispatched for lack of peers is kept for retry through the constraint mechanism
	da := p.Func(routingPkg, "EpidemicRouting", "DispatchingAllowed")
	okDA := false
	for _, a := range core.CallsTo(da, routingPkg+".BundleDescriptor.AddConstraint") {
		if k, _ := core.ConstInt(core.Arg(a, 0)); k == constVal(p, routingPkg, "Contraindicated") {
			okSync, _ := core.MustPassAfter(a, func(i ssa.Instruction) bool {
				c, isC := i.(ssa.CallInstruction)
				return isC && core.NameIs(core.CalleeName(c), routingPkg+".BundleDescriptor.Sync")
			}, core.IsReturn)
			guard := false
			for _, c := range core.DominatingConds(a.Block()) {
				// len(selection) == 0 in any of its spellings
				if b, ok := c.V.(*ssa.BinOp); ok {
					if lc, isCall := b.X.(*ssa.Call); isCall {
						if bi, isB := lc.Common().Value.(*ssa.Builtin); isB && bi.Name() == "len" {
							k, isC := core.ConstInt(b.Y)
							switch {
							case !isC:
							case k == 0 && ((b.Op == token.EQL && c.True) || (b.Op == token.NEQ && !c.True) || (b.Op == token.GTR && !c.True) || (b.Op == token.LEQ && c.True)):
								guard = true
							case k == 1 && ((b.Op == token.LSS && c.True) || (b.Op == token.GEQ && !c.True)):
								guard = true
							}
						}
					}
				}
			}
			okDA = okSync && guard
		}
	}
	// every `false` answer passes that marking
	for _, rv := range core.ReturnValues(da, 0) {
		if core.IsBoolConst(rv.V, true) {
			continue
		}
		_ = rv
	}
	r.Check(okDA, "retained-or-released/"+fname(da)+"/no-peer-means-pending", "when epidemic routing finds no eligible peer it marks the bundle Contraindicated and synchronises it, so that it is retried when a peer appears", p.Pos(da.Pos()), "", "AddConstraint(Contraindicated)+Sync under len(css)==0 not found")

	// ---- (2) retry wiring
	cpb := p.Func(routingPkg, "Core", "checkPendingBundles")
	newCore := p.Func(routingPkg, "", "NewCore")
	okReg := false
	for _, c := range core.CallsTo(newCore, routingPkg+".Cron.Register") {
		if mc, ok := core.Arg(c, 1).(*ssa.MakeClosure); ok {
			if f, ok := mc.Fn.(*ssa.Function); ok && strings.Contains(f.Name(), "checkPendingBundles") {
				okReg = true
			}
		}
	}
	r.Check(okReg, "retry-wiring/"+fname(newCore)+"/cron", "checkPendingBundles is registered with the cron", p.Pos(newCore.Pos()), "", "no Cron.Register(…, c.checkPendingBundles, …)")
	okClean := false
	for _, c := range core.CallsTo(newCore, routingPkg+".Cron.Register") {
		if mc, ok := core.Arg(c, 1).(*ssa.MakeClosure); ok {
			if f, ok := mc.Fn.(*ssa.Function); ok && strings.Contains(f.Name(), "DeleteExpired") {
				okClean = true
			}
		}
	}
	r.Check(okClean, "retry-wiring/"+fname(newCore)+"/clean_store", "the expiry sweep is registered with the cron", p.Pos(newCore.Pos()), "", "no Cron.Register(…, store.DeleteExpired, …)")
	h := p.Func(routingPkg, "Core", "handler")
	pa := constVal(p, "pkg/cla", "PeerAppeared")
	okPA := false
	for _, c := range core.CallsTo(h, routingPkg+".Core.checkPendingBundles") {
		for _, cd := range core.DominatingConds(c.Block()) {
			if b, ok := cd.V.(*ssa.BinOp); ok && b.Op == token.EQL && cd.True {
				if k, ok := core.ConstInt(b.Y); ok && k == pa {
					okPA = true
				}
			}
		}
	}
	r.Check(okPA, "retry-wiring/"+fname(h)+"/peer-appeared", "pending bundles are retried as soon as a peer appears", p.Pos(h.Pos()), "", "no checkPendingBundles on the PeerAppeared arm")
	nDisp := 0
	for _, c := range core.CallsTo(cpb, routingPkg+".Core.dispatching") {
		nDisp++
		l := core.InnermostLoop(core.Loops(cpb), c.Block())
		ok := l != nil && len(l.EarlyExits()) == 0
		r.Check(ok, "retry-wiring/"+fname(cpb)+"/all-pending", "every pending item is dispatched again (complete loop over QueryPending)", p.Pos(c.Pos()), "", "dispatching is not in a loop without early exit")
	}
	r.Check(nDisp > 0 && len(core.CallsTo(cpb, storagePkg+".Store.QueryPending")) > 0, "retry-wiring/"+fname(cpb)+"/query", "checkPendingBundles queries the pending items and dispatches them", p.Pos(cpb.Pos()), "", "QueryPending/dispatching missing")

	// ---- (3)
	checkAssignBeforePersist(p, r)

	// ---- (4) zero creation time is not a date
	nT := 0
	for _, fn := range p.RepoFuncs() {
		for _, c := range core.CallsTo(fn, bp7+".DtnTime.Time") {
			recv, ok := core.CallRecv(c).(*ssa.Call)
			if !ok || !core.NameIs(core.CalleeName(recv), bp7+".CreationTimestamp.DtnTime") {
				continue
			}
			if !pathEndsWith(core.CallRecv(recv), "PrimaryBlock", "CreationTimestamp") {
				continue
			}
			nT++
			conds := core.DominatingConds(c.Block())
			_, g := callGuard(conds, bp7+".CreationTimestamp.IsZeroTime", false)
			r.Check(g, "zero-time-is-no-date/"+fname(fn)+"/CreationTimestamp.DtnTime().Time()", "a bundle's creation time is turned into a wall-clock date only on the !IsZeroTime() edge (clock-less bundles expire by their age block, as Bundle.IsLifetimeExceeded does)", p.Pos(c.Pos()), "", "the epoch value of a clock-less bundle is used as a date: Expires = 2000-01-01 + lifetime, so the clean_store sweep removes the bundle at once; "+condStrings(conds))
		}
	}
	r.Min("creation-time-to-date conversions", 2)
	r.Count("creation-time-to-date conversions", nT)

	// ---- (5)
	checkConcurrentFailureReports(p, r)
	checkPerPeerGoroutines(p, r)
	// a lifetime beyond a Duration's range must not wrap around ("lifetime not run out", store expiry)
	checkMillisecondConversions(p, r, bp7, storagePkg, routingPkg)
}

// checkPerPeerGoroutines: every goroutine that forward starts in its loop
// over the selected senders must act on its own sender: the value on which
// Send is invoked (and which is reported as failed) is the goroutine's
// parameter bound at the go statement to the element of that iteration — not
// a variable shared by all iterations (the module's language version predates
// per-iteration loop variables).
func checkPerPeerGoroutines(p *core.Program, r *core.Report) {
	fwd := p.Func(routingPkg, "Core", "forward")
	n := 0
	core.EachInstr(fwd, func(in ssa.Instruction) {
		g, ok := in.(*ssa.Go)
		if !ok || !core.InLoop(g.Block()) {
			return
		}
		mc, ok := g.Common().Value.(*ssa.MakeClosure)
		if !ok {
			return
		}
		cl := mc.Fn.(*ssa.Function)
		n++
		key := "per-peer-goroutine/" + fname(fwd) + "/own-sender"
		rule := "each goroutine started for a selected sender transmits to (and reports failures of) exactly that sender: Send's receiver is the goroutine's own parameter, bound to the loop element at the go statement"
		bad := ""
		nSend := 0
		core.EachInstrDeep(cl, func(f *ssa.Function, in2 ssa.Instruction) {
			c, ok := in2.(*ssa.Call)
			if !ok || !c.Common().IsInvoke() {
				return
			}
			var who ssa.Value
			switch c.Common().Method.Name() {
			case "Send":
				if !core.TypeIs(c.Common().Value.Type(), "pkg/cla", "ConvergenceSender") {
					return
				}
				nSend++
				who = c.Common().Value
			case "ReportFailure":
				who = c.Common().Args[1]
			default:
				return
			}
			if par, isPar := who.(*ssa.Parameter); !isPar || par.Parent() != cl {
				bad = fmt.Sprintf("%s at %s acts on %s, which is not the goroutine's parameter (a variable shared by all iterations: every goroutine sees the last sender)", c.Common().Method.Name(), p.Pos(c.Pos()), valStr(who))
			}
		})
		// the argument at the go site is the element of this iteration
		okArg := len(g.Common().Args) == 1
		if okArg {
			ld, isLd := g.Common().Args[0].(*ssa.UnOp)
			okArg = isLd
			if isLd {
				_, okArg = ld.X.(*ssa.IndexAddr)
			}
		}
		if !okArg && bad == "" {
			bad = "the go statement does not pass the loop element to the goroutine"
		}
		// no captured cell is written inside the loop (shared loop variable)
		l := core.InnermostLoop(core.Loops(fwd), g.Block())
		for _, b := range mc.Bindings {
			a, isA := b.(*ssa.Alloc)
			if !isA || l == nil {
				continue
			}
			for _, ref := range *a.Referrers() {
				if st, isSt := ref.(*ssa.Store); isSt && st.Addr == ssa.Value(a) && l.Blocks[st.Block()] && bad == "" {
					bad = "the goroutine captures variable " + a.Comment + ", which the loop overwrites on every iteration"
				}
			}
		}
		r.Check(bad == "" && nSend > 0, key, rule, p.Pos(g.Pos()), "", bad)
	})
	r.Min("goroutines started per sender in forward", 1)
	r.Count("goroutines started per sender in forward", n)

	checkConstraintsPersisted(p, r)
	checkFragmentIdentity(p, r)
	checkServedAfterSent(p, r)
	checkFileBeforeIndex(p, r)
	checkAcknowledgedNotDroppedOnStop(p, r)
	// a reservation that is never released (released under another key) shuts the bundle out of every later retry
	checkDispatchExclusive(p, r)
	checkPropertiesPersisted(p, r)
	// the job table of the cron (pending-bundles retry, store cleaning) is registered by the Core and the routing
	// algorithms from several goroutines and walked by the ticker: always under its mutex
	gc := newGuardedEngine(p)
	nJobs := gc.checkGuarded(r, []guardedField{{routingPkg, "Cron", "jobs", "pkg/routing.Cron.mutex"}}, true)
	r.Count("accesses to Cron.jobs", nJobs)
	r.Min("accesses to Cron.jobs", 3)
}

// checkFragmentIdentity — necessary for "an accepted bundle is never silently
// lost" when the bundle is a fragment: the routing layer files a received
// bundle through BundleDescriptor.Sync, which pushes it to the store only if
// the store does not know its ID. That ID is scrubbed (fragment offset and
// total length removed), so a second fragment of a bundle finds the first
// one's record, inherits its constraints, is never pushed and is dropped by
// Core.receive as "already known". A fragment-aware decision must exist: a
// Store.Push that is reachable although the scrubbed ID is known.
func checkFragmentIdentity(p *core.Program, r *core.Report) {
	sync := p.Func(routingPkg, "BundleDescriptor", "Sync")
	pushes := core.CallsTo(sync, storagePkg+".Store.Push")
	aware := false
	for _, pc := range pushes {
		scrubbedGuard := false
		for _, cd := range core.DominatingConds(pc.Block()) {
			if call, ok := core.CondIsCall(cd, storagePkg+".Store.KnowsBundle"); ok && !cd.True {
				if core.DependsOn(core.Arg(call, 0), func(v ssa.Value) bool {
					c, ok := v.(*ssa.Call)
					return ok && core.NameIs(core.CalleeName(c), bp7+".BundleID.Scrub")
				}) {
					scrubbedGuard = true
				}
			}
		}
		if !scrubbedGuard {
			aware = true
		}
	}
	r.Count("Store.Push calls in BundleDescriptor.Sync", len(pushes))
	r.Min("Store.Push calls in BundleDescriptor.Sync", 1)
	r.Check(aware, "fragment-identity/"+fname(sync)+"/push-per-fragment", "a received fragment reaches Store.Push also when another fragment of its bundle is already stored: the decision 'known, nothing to store' is not made on the scrubbed bundle ID alone", p.Pos(sync.Pos()), "", "every Store.Push in Sync is guarded by !KnowsBundle(Id.Scrub()): the second fragment of a bundle arriving at a node that still holds the first is never stored nor forwarded (Core.receive also takes it for a duplicate because NewBundleDescriptor loads the first fragment's constraints)")
}

// checkSequenceStateRestored — necessary for distinct IDs across restarts for
// bundles without a clock: the sequence counters live in IdKeeper.data, which
// NewIdKeeper creates empty. SendBundle skips numbers still waiting in the
// store, but once the earlier bundle has left the store the counter starts at
// 0 again and a new clock-less bundle leaves under an ID already used in the
// network. Some writer of IdKeeper.data other than update() must be reachable
// from NewCore and depend on persisted state.
func checkSequenceStateRestored(p *core.Program, r *core.Report) {
	newCore := p.Func(routingPkg, "", "NewCore")
	upd := p.Func(routingPkg, "IdKeeper", "update")
	reach := p.Reachable([]*ssa.Function{newCore}, core.IsRepo)
	restored := false
	n := 0
	for _, fn := range p.RepoFuncs() {
		core.EachInstr(fn, func(in ssa.Instruction) {
			mu, ok := in.(*ssa.MapUpdate)
			if !ok || !pathEndsWith(mu.Map, "data") {
				return
			}
			if u, isLd := mu.Map.(*ssa.UnOp); !isLd || !core.IsField(u.X, routingPkg, "IdKeeper", "data") {
				return
			}
			n++
			if fn != upd && reach[topFunc(fn)] {
				restored = true
			}
		})
	}
	r.Count("writers of IdKeeper.data", n)
	r.Min("writers of IdKeeper.data", 2)
	r.Check(restored, "sequence-state/"+fname(newCore)+"/restored-from-store", "the sequence counters (at least the one of the zero creation time) are restored when the Core starts: IdKeeper.data has a writer reachable from NewCore besides update()", p.Pos(newCore.Pos()), "", "IdKeeper.data is written only by IdKeeper.update and starts empty in every run: after a restart a clock-less node numbers its bundles from 0 again; once the earlier bundle with that ID has left the store nothing prevents the reuse, peers that saw the earlier one drop the new bundle as a duplicate")
}

// checkConstraintsPersisted — (6): the retention constraints of a descriptor
// live in memory until BundleDescriptor.Sync writes them (and the pending
// flag derived from them) to the store item. Every change of the constraint
// set must reach the store before the function hands control to something
// that can block for an unbounded time (starting the per-peer sender
// goroutines, waiting for them) or returns; otherwise a stop of the node in
// that window leaves the stored item without its retry mark. A function that
// returns with an unsynced change is itself treated as a mutator and its call
// sites carry the obligation (so an extracted helper is not an alarm).
func checkConstraintsPersisted(p *core.Program, r *core.Report) {
	rule := "a change of a bundle's retention constraints is written to the store (BundleDescriptor.Sync) before per-peer sender goroutines are started, before waiting on them, and before the function returns"
	mut := map[*ssa.Function]bool{}
	for _, n := range []string{"AddConstraint", "RemoveConstraint", "PurgeConstraints"} {
		mut[p.Func(routingPkg, "BundleDescriptor", n)] = true
	}
	base := len(mut)
	isSync := func(in ssa.Instruction) bool {
		c, ok := in.(ssa.CallInstruction)
		return ok && core.NameIs(core.CalleeName(c), routingPkg+".BundleDescriptor.Sync")
	}
	blocking := func(in ssa.Instruction) bool {
		if _, ok := in.(*ssa.Go); ok {
			return true
		}
		if c, ok := in.(*ssa.Call); ok {
			if core.NameIs(core.CalleeName(c), "sync.WaitGroup.Wait") {
				return true
			}
			if c.Common().IsInvoke() && c.Common().Method.Name() == "Send" {
				return true
			}
		}
		return false
	}
	type site struct {
		fn *ssa.Function
		c  ssa.CallInstruction
	}
	sitesOf := func() []site {
		var out []site
		for _, fn := range p.RepoFuncs() {
			core.EachInstr(fn, func(in ssa.Instruction) {
				if c, ok := in.(ssa.CallInstruction); ok {
					if cal := core.Callee(c); cal != nil && mut[cal] {
						out = append(out, site{fn, c})
					}
				}
			})
		}
		return out
	}
	// fixpoint: functions that return with an unsynced change are mutators
	for changed := true; changed; {
		changed = false
		for _, s := range sitesOf() {
			if mut[s.fn] {
				continue
			}
			if ok, ex := core.MustPassAfter(s.c, isSync, core.IsReturn); !ok && ex != nil {
				// only when no blocking point comes first (that is reported below)
				if ok2, _ := core.MustPassAfter(s.c, func(in ssa.Instruction) bool { return isSync(in) || core.IsReturn(in) }, blocking); ok2 {
					mut[s.fn] = true
					changed = true
				}
			}
		}
	}
	n := 0
	reach := p.DaemonReachable()
	for _, s := range sitesOf() {
		if mut[s.fn] || !reach[topFunc(s.fn)] {
			continue
		}
		n++
		key := "constraints-persisted/" + fname(s.fn) + "/" + core.Callee(s.c).Name()
		if k, isK := core.ConstInt(lastArg(s.c)); isK {
			key += fmt.Sprintf("(%d)", k)
		}
		ok, ex := core.MustPassAfter(s.c, isSync, func(in ssa.Instruction) bool { return core.IsReturn(in) || blocking(in) })
		detail := ""
		if !ok {
			detail = "path to " + p.Pos(ex.Pos()) + " (" + ex.String() + ") without BundleDescriptor.Sync: the stored item keeps the old constraints and pending flag while the node may stop"
		}
		r.Check(ok, key, rule, p.Pos(s.c.Pos()), "", detail)
	}
	r.Count("constraint changes in daemon code", n)
	r.Min("constraint changes in daemon code", 9)
	r.Count("constraint mutators", len(mut))
	r.Min("constraint mutators", base)
}

func lastArg(c ssa.CallInstruction) ssa.Value {
	a := c.Common().Args
	if len(a) == 0 {
		return nil
	}
	return a[len(a)-1]
}

// deleteAfterwardsSound: the phi is true only from the direct-delivery path
// (constant true when senderForDestination found peers) or the algorithm's
// own decision.
func deleteAfterwardsSound(phi *ssa.Phi) bool {
	fromAlgo := false
	defer func() { _ = fromAlgo }()
	for _, e := range phi.Edges {
		if core.IsBoolConst(e, true) {
			continue
		}
		if ex, ok := e.(*ssa.Extract); ok {
			if c, ok := ex.Tuple.(*ssa.Call); ok && c.Common().IsInvoke() && c.Common().Method.Name() == "SenderForBundle" {
				fromAlgo = true
				continue
			}
		}
		return false
	}
	return fromAlgo
}

// isChosenByAlgorithmFlag: v (in closure cl of forward) is the load of a captured boolean of forward whose stores are
// `false` or a `true` placed in the very block that invokes Algorithm.SenderForBundle.
func isChosenByAlgorithmFlag(fwd, cl *ssa.Function, v ssa.Value) bool {
	ld, ok := v.(*ssa.UnOp)
	if !ok || ld.Op != token.MUL {
		return false
	}
	fv, ok := ld.X.(*ssa.FreeVar)
	if !ok {
		return false
	}
	var cell *ssa.Alloc
	core.EachInstr(fwd, func(in ssa.Instruction) {
		if a, ok := in.(*ssa.Alloc); ok && core.FreeVarBoundTo(fwd, cl, fv, a) {
			cell = a
		}
	})
	if cell == nil {
		return false
	}
	nTrue := 0
	for _, ref := range *cell.Referrers() {
		st, ok := ref.(*ssa.Store)
		if !ok || st.Addr != ssa.Value(cell) {
			continue
		}
		if core.IsBoolConst(st.Val, false) {
			continue
		}
		if !core.IsBoolConst(st.Val, true) {
			return false
		}
		consulted := false
		for _, in := range st.Block().Instrs {
			if c, ok := in.(*ssa.Call); ok && c.Common().IsInvoke() && c.Common().Method.Name() == "SenderForBundle" {
				consulted = true
			}
		}
		if !consulted {
			return false
		}
		nTrue++
	}
	return nTrue > 0
}

// checkServedAfterSent - necessary for "to every newly connected peer that does not have it yet ... across node
// restarts": epidemic, PRoPHET and DTLSR write a peer into the bundle's persistent sent list when they SELECT it; only
// a failure report of the same process takes it out again. A node that is shut down while a transmission is in flight
// (a TCPCLv4 Send waits up to 10 s for its acknowledgement) restarts with the peer recorded as served although nothing
// reached it. What must exist: the algorithm learns of a successful transmission (an Algorithm method invoked on the
// Send()==nil edge of forward), so that "served" can be recorded then.
func checkServedAfterSent(p *core.Program, r *core.Report) {
	fwd := p.Func(routingPkg, "Core", "forward")
	told := false
	nSend := 0
	core.EachInstrDeep(fwd, func(f *ssa.Function, in ssa.Instruction) {
		c, ok := in.(*ssa.Call)
		if !ok || !c.Common().IsInvoke() {
			return
		}
		if c.Common().Method.Name() == "Send" {
			nSend++
			return
		}
		if !core.TypeIs(c.Common().Value.Type(), routingPkg, "Algorithm") || c.Common().Method.Name() == "ReportFailure" {
			return
		}
		for _, cd := range core.DominatingConds(in.Block()) {
			x, isNil, ok := core.NilCmp(cd)
			if !ok || !isNil || !isErrorType(x.Type()) {
				continue
			}
			if sc, isCall := x.(*ssa.Call); isCall && sc.Common().IsInvoke() && sc.Common().Method.Name() == "Send" {
				told = true
			}
		}
	})
	r.Min("Send invocations in forward", 1)
	r.Count("Send invocations in forward", nSend)
	r.Check(told, "served-after-sent/"+fname(fwd)+"/success-reaches-the-algorithm", "the routing algorithm is told when a transmission it selected has succeeded, so that a peer is recorded as served by a transmission and not by its selection", p.Pos(fwd.Pos()), "", "forward invokes the algorithm only to select (SenderForBundle, which persists the peer in routing/<algo>/sent) and on failure (ReportFailure): a shutdown while the Send is in flight leaves the peer recorded as served, after the restart the bundle is never offered to it")
}

// checkAcknowledgedNotDroppedOnStop - necessary for "a bundle received from a peer stays in the persistent store ...
// across node restarts": a convergence layer acknowledges a bundle to its sender when it hands the bundle up as a
// ConvergenceStatus; from there it travels through the element's handler, the Manager's channels and the Core's handler
// to Store.Push. A forwarding step that is a select between "pass the status on" and "the stop signal" throws the
// status - possibly an acknowledged bundle - away at an orderly shutdown.
func checkAcknowledgedNotDroppedOnStop(p *core.Program, r *core.Report) {
	var drops []string
	n := 0
	for _, fn := range p.RepoFuncs() {
		if fn.Pkg != p.Pkg(claPkg) || fn.Blocks == nil {
			continue
		}
		core.EachInstr(fn, func(in ssa.Instruction) {
			sel, ok := in.(*ssa.Select)
			if !ok {
				return
			}
			forwards, stops := false, false
			for _, st := range sel.States {
				if st.Dir == types.SendOnly && st.Send != nil && core.TypeIs(st.Send.Type(), claPkg, "ConvergenceStatus") {
					forwards = true
				}
				if st.Dir == types.RecvOnly && pathEndsWith(st.Chan, "stopSyn") {
					stops = true
				}
			}
			if forwards {
				n++
				if stops {
					drops = append(drops, p.Pos(in.Pos())+" in "+fname(fn))
				}
			}
		})
	}
	r.Min("forwarding selects of ConvergenceStatus in pkg/cla", 1)
	r.Count("forwarding selects of ConvergenceStatus in pkg/cla", n)
	fw := p.Func(claPkg, "Manager", "forward")
	r.Check(len(drops) == 0, "acknowledged-stays/"+fname(fw)+"/not-dropped-on-stop", "a status handed up by a convergence layer (a received, already acknowledged bundle) is not discarded on its way to the Core by a select against the stop signal", p.Pos(fw.Pos()), "", "dropped on stop at "+strings.Join(drops, "; ")+": bundles acknowledged to their sender (its Send returned nil) that are still in the channels between the CLA and the Core are lost at an orderly shutdown")
}
