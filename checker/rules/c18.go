package rules

import (
	"fmt"
	"go/token"
	"go/types"
	"strings"

	"dtnverif/core"

	"golang.org/x/tools/go/ssa"
)

func init() { Registry["C18"] = C18 }

var sprayGuarded = []guardedField{
	{routingPkg, "SprayAndWait", "bundleData", "pkg/routing.SprayAndWait.dataMutex"},
	{routingPkg, "BinarySpray", "bundleData", "pkg/routing.BinarySpray.dataMutex"},
}

func isRemainingCopiesAddr(v ssa.Value) bool {
	return core.IsField(v, routingPkg, "sprayMetaData", "remainingCopies")
}

// copiesSymbolizer names the leaves of copy-budget expressions.
func copiesSymbolizer() *symbolizer {
	return &symbolizer{sym: func(v ssa.Value) (string, bool) {
		switch x := v.(type) {
		case *ssa.UnOp:
			if x.Op == token.MUL {
				if isRemainingCopiesAddr(x.X) {
					return "r", true
				}
				if _, path, ok := core.FieldRef(x); ok && path[len(path)-1] == "l" {
					return "L", true
				}
			}
		case *ssa.BinOp:
			if x.Op == token.QUO {
				if k, ok := core.ConstInt(x.Y); ok && k == 2 {
					if u, ok := x.X.(*ssa.UnOp); ok && u.Op == token.MUL && isRemainingCopiesAddr(u.X) {
						return "half", true // floor(r/2), opaque
					}
				}
			}
		case *ssa.Call:
			if core.NameIs(core.CalleeName(x), bp7+".BinarySprayBlock.RemainingCopies") {
				return "blockCopies", true
			}
		}
		return "", false
	}}
}

func polyEq(a poly, want map[string]float64) bool {
	if len(a) != len(want) {
		return false
	}
	for k, v := range want {
		if a[k] != v {
			return false
		}
	}
	return true
}

// atLeastTwoGuard: the condition establishes remainingCopies >= 2.
func atLeastTwoGuard(conds []core.Cond) bool {
	for _, c := range conds {
		b, ok := c.V.(*ssa.BinOp)
		if !ok {
			continue
		}
		u, ok := b.X.(*ssa.UnOp)
		if !ok || u.Op != token.MUL || !isRemainingCopiesAddr(u.X) {
			continue
		}
		k, ok := core.ConstInt(b.Y)
		if !ok {
			continue
		}
		switch {
		case b.Op == token.LSS && k >= 2 && !c.True,
			b.Op == token.GEQ && k >= 2 && c.True,
			b.Op == token.GTR && k >= 1 && c.True,
			b.Op == token.LEQ && k >= 1 && !c.True:
			return true
		}
	}
	return false
}

// C18 — spray-and-wait never exceeds, never leaks its copy budget.
func C18(p *core.Program, r *core.Report) {
	r.Explanation = "Per-step premises of the budget invariant: (AT) every read-modify-write of a bundleData entry lies in one exclusive region of dataMutex and every access holds it; (PL/GC) each store into sprayMetaData.remainingCopies is evaluated to a polynomial over the old value: selection stores r-1 (spray) or r-floor(r/2) (binary, and the transmitted block carries exactly that floor(r/2) on both branches), is co-located with exactly one selected peer, and is dominated by r >= 2; binary spray selects at most one peer per call; ReportFailure stores r+1 (spray) / r+copies-in-block (binary) on every path that found the entry and writes the entry back; initial budgets are L / 1 / the received block's count. Not decided: the invariant over whole histories (retries, restarts), only that each step preserves it."
	r.Assumptions = append(r.Assumptions,
		"floor(r/2) is treated as an opaque term s with r' = r - s and block = s (so r' + block = r)",
		"a node holding a single copy transmits only by direct delivery, which bypasses the algorithm (C13/5)")

	// the initial budget is set once per bundle (a second announcement of a
	// held bundle would refresh it)
	checkNotifyOnce(p, r)
	checkBudgetEntriesOutliveBundle(p, r)
	checkRefundOnlyForChosenPeers(p, r)
	checkPeerIdentityStable(p, r)

	g := newGuardedEngine(p)
	n := g.checkGuarded(r, sprayGuarded, true)
	r.Min("accesses to spray bundleData", 8)
	r.Count("accesses to spray bundleData", n)

	type expect struct {
		fn   *ssa.Function
		kind string // select-spray, select-binary, fail-spray, fail-binary, init
	}
	fns := []expect{
		{p.Func(routingPkg, "SprayAndWait", "SenderForBundle"), "select-spray"},
		{p.Func(routingPkg, "BinarySpray", "SenderForBundle"), "select-binary"},
		{p.Func(routingPkg, "SprayAndWait", "ReportFailure"), "fail-spray"},
		{p.Func(routingPkg, "BinarySpray", "ReportFailure"), "fail-binary"},
		{p.Func(routingPkg, "SprayAndWait", "NotifyNewBundle"), "init"},
		{p.Func(routingPkg, "BinarySpray", "NotifyNewBundle"), "init"},
	}
	allowed := map[*ssa.Function]bool{}
	for _, e := range fns {
		allowed[e.fn] = true
	}
	// FW. A constructor helper (stores one of its parameters into the budget of a value it returns) that is called
	// only from the allowed functions is part of them: its call sites are evaluated as the stores.
	ctorParam := map[*ssa.Function]int{}
	for _, fn := range p.RepoFuncs() {
		core.EachInstr(fn, func(in ssa.Instruction) {
			if st, ok := in.(*ssa.Store); ok && isRemainingCopiesAddr(st.Addr) && !allowed[fn] {
				okCtor := false
				if par, isPar := st.Val.(*ssa.Parameter); isPar && par.Parent() == fn {
					okCtor = true
					for _, caller := range p.Callers(fn) {
						if !allowed[caller] {
							okCtor = false
						}
					}
					if okCtor {
						for i, fp := range fn.Params {
							if fp == par {
								ctorParam[fn] = i
							}
						}
					}
				}
				if !okCtor {
					r.Fail("who-may-write/"+fname(fn)+"/remainingCopies", "remainingCopies is written only by NotifyNewBundle, SenderForBundle and ReportFailure of the two spray variants (or a constructor helper only they call)", p.Pos(st.Pos()), "unexpected writer")
				}
			}
		})
	}

	nStores := 0
	for _, e := range fns {
		fn := e.fn
		var stores []*ssa.Store
		core.EachInstr(fn, func(in ssa.Instruction) {
			if st, ok := in.(*ssa.Store); ok && isRemainingCopiesAddr(st.Addr) {
				stores = append(stores, st)
			}
		})
		nStores += len(stores)
		var appends []*ssa.Call
		core.EachInstr(fn, func(in ssa.Instruction) {
			if c, ok := in.(*ssa.Call); ok {
				if b, ok := c.Common().Value.(*ssa.Builtin); ok && b.Name() == "append" && isSenderSlice(c.Type()) {
					appends = append(appends, c)
				}
			}
		})
		base := "budget/" + fname(fn) + "/"
		switch e.kind {
		case "select-spray", "select-binary":
			r.Check(len(appends) >= 1, base+"has-selection", "the function selects peers", p.Pos(fn.Pos()), "", "no append to the sender slice")
			for i, a := range appends {
				// exactly one budget store in the same block
				var same []*ssa.Store
				for _, st := range stores {
					if st.Block() == a.Block() {
						same = append(same, st)
					}
				}
				key := fmt.Sprintf("%sselection#%d", base, i)
				if len(same) != 1 {
					r.Fail(key+"/one-decrement", "each selected peer costs exactly one budget update in the same step", p.Pos(a.Pos()), fmt.Sprintf("%d stores to remainingCopies next to the selection", len(same)))
					continue
				}
				pl, err := copiesSymbolizer().toPoly(same[0].Val, 0)
				if err != nil {
					r.Unknown(key+"/formula", "budget update is a polynomial of the old value", p.Pos(same[0].Pos()), err.Error())
					continue
				}
				if e.kind == "select-spray" {
					r.Check(polyEq(pl, map[string]float64{"r": 1, "": -1}), key+"/formula", "spray-and-wait: selecting a peer decrements the budget by exactly 1", p.Pos(same[0].Pos()), "new = "+pl.String(), "new = "+pl.String())
				} else {
					r.Check(polyEq(pl, map[string]float64{"r": 1, "half": -1}), key+"/formula", "binary spray: the node keeps r - floor(r/2)", p.Pos(same[0].Pos()), "new = "+pl.String(), "new = "+pl.String())
					// the block carries the same floor(r/2) value on every path
					half := findHalf(same[0].Val)
					nCarry := 0
					okCarry := half != nil
					for _, name := range []string{bp7 + ".BinarySprayBlock.SetCopies", bp7 + ".NewBinarySprayBlock"} {
						for _, c := range core.CallsTo(fn, name) {
							nCarry++
							if core.Arg(c, 0) != half {
								okCarry = false
							}
						}
					}
					r.Check(okCarry && nCarry >= 2, key+"/block-carries-half", "the transmitted block announces exactly the floor(r/2) that was subtracted (existing block and new block alike)", p.Pos(a.Pos()), "", fmt.Sprintf("%d block updates, all with the subtracted value: %v", nCarry, okCarry))
					// every path from the selection to the write-back passes one block update
					okPass, _ := core.MustPassAfter(a, func(i ssa.Instruction) bool {
						c, ok := i.(*ssa.Call)
						return ok && (core.NameIs(core.CalleeName(c), bp7+".BinarySprayBlock.SetCopies") || core.NameIs(core.CalleeName(c), bp7+".NewBinarySprayBlock"))
					}, func(i ssa.Instruction) bool { _, isMU := i.(*ssa.MapUpdate); return isMU || core.IsReturn(i) })
					r.Check(okPass, key+"/block-updated-on-all-paths", "after a selection the block is updated before the entry is written back", p.Pos(a.Pos()), "", "a path skips the block update")
					// at most one peer per call
					l := core.InnermostLoop(core.Loops(fn), a.Block())
					r.Check(l == nil, key+"/single-peer", "binary spray selects at most one peer per call (the bundle carries one block value)", p.Pos(a.Pos()), "", "the selection block can be reached again in the same call")
				}
				conds := core.DominatingConds(a.Block())
				// a guard counts only if the budget cannot have been lowered between its evaluation and this
				// selection: a test in front of the loop says nothing about the second peer of the same round
				var fresh []core.Cond
				for _, c := range conds {
					stale := false
					if c.If != nil {
						for _, st := range stores {
							if pathBetween(c.If, st, nil) && pathBetween(st, a, c.If) {
								stale = true
							}
						}
					}
					if !stale {
						fresh = append(fresh, c)
					}
				}
				r.Check(atLeastTwoGuard(fresh), key+"/needs-two-copies", "a peer is selected only while at least 2 copies remain (a node with one copy waits for the destination); the test is evaluated after the last budget update that can precede the selection", p.Pos(a.Pos()), "", "no test 'remaining copies >= 2' is evaluated between the previous decrement and this selection (with k peers in reach in one round the node gives away its own last copy: L transmissions instead of L-1); guards in force: "+condStrings(fresh))
			}
			// no budget store without selection
			for _, st := range stores {
				has := false
				for _, a := range appends {
					if a.Block() == st.Block() {
						has = true
					}
				}
				r.Check(has, base+"no-free-decrement", "the budget changes only together with a selection", p.Pos(st.Pos()), "", "store to remainingCopies without a selected peer")
			}
			// the write-back stores the updated local entry
		case "fail-spray", "fail-binary":
			want := map[string]float64{"r": 1, "": 1}
			txt := "spray-and-wait: a failed transmission gives exactly one copy back"
			if e.kind == "fail-binary" {
				want = map[string]float64{"r": 1, "blockCopies": 1}
				txt = "binary spray: a failed transmission restores the sender's count by the copies that were announced in the block"
			}
			if len(stores) != 1 {
				r.Fail(base+"restores-count", txt, p.Pos(fn.Pos()), fmt.Sprintf("%d stores to remainingCopies (the entry is written back with its count unchanged)", len(stores)))
			} else {
				pl, err := copiesSymbolizer().toPoly(stores[0].Val, 0)
				if err != nil {
					r.Unknown(base+"restores-count", txt, p.Pos(stores[0].Pos()), err.Error())
				} else {
					r.Check(polyEq(pl, want), base+"restores-count", txt, p.Pos(stores[0].Pos()), "new = "+pl.String(), "new = "+pl.String())
				}
				// a copy comes back only from a peer that had been charged: the restore is dominated by the
				// membership hit that also removes the peer from the sent list
				conds := core.DominatingConds(stores[0].Block())
				charged := false
				for _, c := range conds {
					b, ok := c.V.(*ssa.BinOp)
					if !ok || b.Op != token.EQL || !c.True {
						continue
					}
					for _, pair := range [][2]ssa.Value{{b.X, b.Y}, {b.Y, b.X}} {
						if isPeerIDOf(pair[1], fn.Params[2]) {
							if ld, ok := pair[0].(*ssa.UnOp); ok {
								if ia, ok := ld.X.(*ssa.IndexAddr); ok && pathEndsWith(ia.X, "sent") {
									charged = true
								}
							}
						}
					}
				}
				r.Check(charged, base+"only-charged-peers", "a failed transmission gives a copy back only if the failed peer is in the bundle's sent list, i.e. had been charged (failed direct deliveries to the destination are reported, too, and must not inflate the budget)", p.Pos(stores[0].Pos()), "", "the count is restored for any reported sender: three failed direct deliveries turn a budget of 4 into 7; "+condStrings(conds))
				// the write-back stores the (possibly updated) local entry
				for _, mu := range mapUpdatesOf(fn, "bundleData") {
					ok := core.DependsOn(mu.Value, func(v ssa.Value) bool {
						a, isA := v.(*ssa.Alloc)
						return isA && a == allocOfFieldAddr(stores[0].Addr)
					})
					r.Check(ok, base+"restore-before-write-back", "the entry written back is the one whose count was restored", p.Pos(mu.Pos()), "", "write-back stores another value")
				}
			}
			r.Check(len(mapUpdatesOf(fn, "bundleData")) >= 1, base+"writes-back", "the entry is written back", p.Pos(fn.Pos()), "", "no map update")
		case "init":
			type initSite struct {
				val ssa.Value
				at  ssa.Instruction
			}
			var inits []initSite
			for _, st := range stores {
				inits = append(inits, initSite{st.Val, st})
			}
			core.EachInstr(fn, func(in ssa.Instruction) {
				if c, ok := in.(*ssa.Call); ok {
					if cal := c.Common().StaticCallee(); cal != nil {
						if k, isCtor := ctorParam[cal]; isCtor && k < len(c.Common().Args) {
							inits = append(inits, initSite{c.Common().Args[k], c})
							nStores++
						}
					}
				}
			})
			for i, st := range inits {
				pl, err := copiesSymbolizer().toPoly(st.val, 0)
				key := fmt.Sprintf("%sinitial#%d", base, i)
				if err != nil {
					r.Unknown(key, "initial budget", p.Pos(st.at.Pos()), err.Error())
					continue
				}
				ok := polyEq(pl, map[string]float64{"L": 1}) || polyEq(pl, map[string]float64{"": 1}) || polyEq(pl, map[string]float64{"blockCopies": 1})
				r.Check(ok, key, "the initial budget is the configured L (own bundle), 1 (foreign bundle, vanilla) or the count announced in the received block", p.Pos(st.at.Pos()), "= "+pl.String(), "= "+pl.String())
				if polyEq(pl, map[string]float64{"L": 1}) && strings.Contains(fname(fn), "SprayAndWait") {
					conds := core.DominatingConds(st.at.Block())
					_, g := callGuard(conds, routingPkg+".Core.HasEndpoint", true)
					r.Check(g, key+"/own-bundle", "the full budget L is given only to bundles whose source is this node", p.Pos(st.at.Pos()), "", "guard missing; "+condStrings(conds))
				}
			}
			r.Check(len(inits) >= 2, base+"has-initial", "both origins initialise the budget", p.Pos(fn.Pos()), "", fmt.Sprintf("%d initial stores", len(inits)))
		}
	}
	r.Min("stores to remainingCopies", 7)
	r.Count("stores to remainingCopies", nStores)
}

func findHalf(v ssa.Value) ssa.Value {
	var found ssa.Value
	core.DependsOn(v, func(x ssa.Value) bool {
		if b, ok := x.(*ssa.BinOp); ok && b.Op == token.QUO {
			found = b
			return true
		}
		return false
	})
	return found
}

func mapUpdatesOf(fn *ssa.Function, field string) []*ssa.MapUpdate {
	var out []*ssa.MapUpdate
	core.EachInstr(fn, func(in ssa.Instruction) {
		if mu, ok := in.(*ssa.MapUpdate); ok && pathEndsWith(mu.Map, field) {
			out = append(out, mu)
		}
	})
	return out
}

func allocOfFieldAddr(v ssa.Value) *ssa.Alloc {
	for {
		switch x := v.(type) {
		case *ssa.FieldAddr:
			v = x.X
		case *ssa.Alloc:
			return x
		default:
			return nil
		}
	}
}

// checkBudgetEntriesOutliveBundle: "a failed transmission gives its copy back" needs the bundle's budget entry at the
// time the failure is reported, which is after the selection charged it and may be after any garbage-collection tick in
// between. An entry of a map of sprayMetaData may therefore be deleted only for a bundle the store no longer knows.
func checkBudgetEntriesOutliveBundle(p *core.Program, r *core.Report) {
	n := 0
	for _, fn := range p.RepoFuncs() {
		if fn.Pkg != p.Pkg(routingPkg) || fn.Blocks == nil {
			continue
		}
		core.EachInstr(fn, func(in ssa.Instruction) {
			c, ok := in.(*ssa.Call)
			if !ok {
				return
			}
			b, isB := c.Common().Value.(*ssa.Builtin)
			if !isB || b.Name() != "delete" {
				return
			}
			mt, isMap := c.Common().Args[0].Type().Underlying().(*types.Map)
			if !isMap || !core.TypeIs(mt.Elem(), routingPkg, "sprayMetaData") {
				return
			}
			n++
			gone := false
			for _, cd := range core.DominatingConds(in.Block()) {
				if kc, ok := core.CondIsCall(cd, storagePkg+".Store.KnowsBundle"); ok && !cd.True && core.SameExpr(core.Arg(kc, 0), c.Common().Args[1]) {
					gone = true
				}
			}
			r.Check(gone, "budget/"+fname(fn)+"/entry-deleted-only-for-gone-bundle", "a bundle's copy budget is forgotten only when the store no longer knows the bundle (on every path to the delete): a failure report for a transmission still in flight must find the entry it refunds", p.Pos(in.Pos()), "", "the entry can be deleted while the bundle is still stored (e.g. in its wait phase): a failure reported afterwards finds no entry and the charged copy is lost")
		})
	}
	r.Min("deletions of budget entries", 1)
	r.Count("deletions of budget entries", n)
}

// checkRefundOnlyForChosenPeers: spray and binary spray refund a copy when a transmission is reported as failed and the
// peer is in the bundle's sent list - which also holds the previous node. forward also transmits by direct delivery,
// about which the algorithm was not asked and for which it charged nothing; a failed direct delivery to a destination
// that is the bundle's previous node must not be refunded. Necessary: forward reports a failure to the algorithm only
// for peers the algorithm selected (the report is guarded by the flag set where SenderForBundle is consulted).
func checkRefundOnlyForChosenPeers(p *core.Program, r *core.Report) {
	fwd := p.Func(routingPkg, "Core", "forward")
	n := 0
	core.EachInstrDeep(fwd, func(f *ssa.Function, in ssa.Instruction) {
		c, ok := in.(*ssa.Call)
		if !ok || !c.Common().IsInvoke() || c.Common().Method.Name() != "ReportFailure" {
			return
		}
		n++
		chosen := false
		for _, cd := range core.DominatingConds(in.Block()) {
			if cd.True && f != fwd && isChosenByAlgorithmFlag(fwd, f, cd.V) {
				chosen = true
			}
		}
		r.Check(chosen, "refund/"+fname(f)+"/only-for-peers-the-algorithm-chose", "a failed transmission is reported to the routing algorithm (which refunds a copy for a peer in the bundle's sent list) only if the algorithm selected the peers of this round; a direct delivery is not its doing", p.Pos(in.Pos()), "", "failed direct deliveries are reported as well: if the destination's node is the bundle's previous node it is in the sent list, and the node gains a copy it never spent (binary spray: doubles its count)")
	})
	r.Min("failure reports in forward", 1)
	r.Count("failure reports in forward", n)
}

// checkPeerIdentityStable (C13, C18, C20): the routing algorithms book a transmission under the sender's
// GetPeerEndpointID() when they select it and look the failed peer up by the same call when the failure is reported -
// typically after the session was lost and the adapter torn down. The identity an adapter learnt from its peer must
// therefore survive the teardown: for every ConvergenceSender whose GetPeerEndpointID returns a field, that field is
// written only where the peer's identity is learnt (session set-up: Start and the closures it installs, constructors),
// never on the way down.
func checkPeerIdentityStable(p *core.Program, r *core.Report) {
	n := 0
	for _, named := range p.Implementations(claPkg, "ConvergenceSender") {
		get := p.MethodOf(named, "GetPeerEndpointID")
		if get == nil || get.Blocks == nil {
			continue
		}
		var field string
		for _, rv := range core.ReturnValues(get, 0) {
			if ld, ok := rv.V.(*ssa.UnOp); ok {
				if owner, f, ok := core.FieldOwner(ld.X); ok && owner == named {
					field = f
				}
			}
		}
		if field == "" {
			continue // a constant identity (dtn:none) or a computed one
		}
		n++
		var bad []string
		for _, fn := range p.RepoFuncs() {
			if fn.Blocks == nil || fn.Pkg == nil || fn.Pkg.Pkg != named.Obj().Pkg() {
				continue
			}
			core.EachInstr(fn, func(in ssa.Instruction) {
				st, ok := in.(*ssa.Store)
				if !ok {
					return
				}
				owner, f, ok := core.FieldOwner(st.Addr)
				if !ok || owner != named || f != field {
					return
				}
				top := topFunc(fn)
				okWriter := top.Name() == "Start" || strings.HasPrefix(top.Name(), "New") || strings.HasPrefix(top.Name(), "new") || strings.HasPrefix(top.Name(), "Dial")
				if !okWriter {
					bad = append(bad, p.Pos(in.Pos())+" in "+fname(fn))
				}
			})
		}
		r.Check(len(bad) == 0, "peer-identity/"+named.Obj().Pkg().Name()+"."+named.Obj().Name()+"."+field+"/written-at-set-up-only", "the peer identity an adapter reports (GetPeerEndpointID) is written only while the session is set up, not on the way down: a failure reported after the session was lost must still name the peer the copy was booked for", p.Pos(get.Pos()), "", "written at "+strings.Join(bad, ", ")+": after a lost session GetPeerEndpointID no longer names the peer - ReportFailure finds no entry to refund or to make eligible again, DTLSR does not see which peer disappeared")
	}
	r.Min("adapters with a learnt peer identity", 1)
	r.Count("adapters with a learnt peer identity", n)
}
