package rules

import (
	"fmt"
	"go/token"
	"go/types"
	"strings"

	"dtnverif/core"

	"golang.org/x/tools/go/ssa"
)

func init() { Registry["C11"] = C11 }

const (
	utilsPkg = "pkg/cla/tcpclv4/internal/utils"
	msgsPkg  = "pkg/cla/tcpclv4/internal/msgs"
)

// C11 — TCPCLv4 transfers deliver the exact bundle; success means delivered.
func C11(p *core.Program, r *core.Report) {
	r.Explanation = "Concatenation equality, concurrent transfers and fault sequences are NOT decided. Decided (necessary): (1) path enumeration of OutgoingTransfer.NextSegment: among the paths on which io.ReadFull filled the whole buffer there is one that sets SegmentEnd (a sender over an io.Reader must be able to mark a full segment as the last one — the m | L case) and one that does not; the END flag is set nowhere else than on a partial read or that look-ahead outcome; START comes from startFlag, cleared at first use, with two writers; the data handed out is a (sub)slice of a buffer allocated with exactly the negotiated size. (2) every `return nil` of TransferManager.Send is dominated by the equality of the acknowledged length (flowing from DataAcknowledgementMessage.AckLen) and the sent length (received from the sender goroutine, which sends it only after EOF); every other return is non-nil. (3) receiver typestate: a bundle is handed up only under IsFinished() and ToBundle()==nil; NextSegment rejects segments after END and foreign transfer ids before touching the buffer; endFlag is set only under the SegmentEnd test; the acknowledgement carries the cumulative buffer length."
	r.Assumptions = append(r.Assumptions,
		"io.ReadFull returns ErrUnexpectedEOF only after a partial read and io.EOF only after reading nothing",
		"the peer-declared segment size is bounded before use (C04)")

	ns := p.Func(utilsPkg, "OutgoingTransfer", "NextSegment")
	segEnd := constVal(p, msgsPkg, "SegmentEnd")
	segStart := constVal(p, msgsPkg, "SegmentStart")

	// ---- (1) END on a full segment
	var readFull *ssa.Call
	for _, c := range core.CallsTo(ns, "io.ReadFull") {
		readFull = c.(*ssa.Call)
	}
	if readFull == nil {
		r.Unknown("end-flag/"+fname(ns)+"/read", "NextSegment reads the segment with io.ReadFull", p.Pos(ns.Pos()), "no io.ReadFull call (idiom outside the rule)")
	} else {
		pe := &core.PathEnum{Fn: ns, Bind: map[ssa.Value]int64{}}
		pe.OnInstr = func(in ssa.Instruction, st *core.PathState) {
			if b, ok := in.(*ssa.BinOp); ok && b.Op == token.OR {
				if k, ok := core.ConstInt(b.Y); ok && k == segEnd {
					st.Data["end"] = true
				}
				if k, ok := core.ConstInt(b.Y); ok && k == segStart {
					st.Data["start"] = true
				}
			}
		}
		// the flags handed to the message constructor, evaluated on the path
		pe.OnInstr = func(in ssa.Instruction, st *core.PathState) {
			if c, ok := in.(*ssa.Call); ok && core.NameIs(core.CalleeName(c), msgsPkg+".NewDataTransmissionMessage") {
				if k, ok := st.Known(core.Arg(c, 0)); ok {
					st.Data["flags"] = k
				} else {
					st.Data["flags"] = int64(-1)
				}
			}
		}
		pe.Run()
		fullWithEnd, fullNoEnd, partialWithEnd, partialNoEnd := 0, 0, 0, 0
		startBad := ""
		nMsg := 0
		for _, pr := range pe.Paths {
			if pr.Panics || pr.ErrOutcome(1) == "nonnil" {
				continue
			}
			flags, has := pr.State.Data["flags"].(int64)
			if !has {
				continue
			}
			nMsg++
			if flags < 0 {
				startBad = "the flags of a segment are not a known combination of constants on some path"
				continue
			}
			first := false
			for _, c := range pr.State.Taken {
				if pathEndsWith(c.V, "startFlag") && c.True {
					first = true
				}
			}
			if first != (flags&segStart != 0) {
				startBad = fmt.Sprintf("on a path where startFlag is %v the segment carries flags %#x (START %v): the start flag must be on exactly the first segment — e.g. lost when the only segment is also a completely filled last one (segment size == encoded length)", first, flags, flags&segStart != 0)
			}
			pr.State.Data["end"] = nil
			if flags&segEnd != 0 {
				pr.State.Data["end"] = true
			}
			// did ReadFull fill the buffer on this path?  its error is nil iff neither ErrUnexpectedEOF nor != nil were taken
			partial := false
			for _, c := range pr.State.Taken {
				if b, ok := c.V.(*ssa.BinOp); ok && b.Op == token.EQL && c.True {
					for _, side := range []ssa.Value{b.X, b.Y} {
						if ex, ok := side.(*ssa.Extract); ok && ex.Tuple == ssa.Value(readFull) && ex.Index == 1 {
							partial = true // rErr == io.ErrUnexpectedEOF (either operand order)
						}
					}
				}
			}
			end := pr.State.Data["end"] != nil
			switch {
			case partial && end:
				partialWithEnd++
			case partial:
				partialNoEnd++
			case end:
				fullWithEnd++
			default:
				fullNoEnd++
			}
		}
		r.Check(startBad == "" && nMsg > 0, "start-flag/"+fname(ns)+"/exactly-first", "evaluating the flags on every path: a segment carries START exactly when it is the transfer's first segment", p.Pos(readFull.Pos()), fmt.Sprintf("%d message-producing path(s)", nMsg), startBad)
		r.Check(fullWithEnd > 0, "end-flag/"+fname(ns)+"/full-segment-can-be-last", "a segment that fills the buffer can be marked as the last one (when the encoded length is a multiple of the segment size the last segment is a full one)", p.Pos(readFull.Pos()), fmt.Sprintf("%d full-read path(s) set END", fullWithEnd), "SegmentEnd is only set on a partial read (ErrUnexpectedEOF): 8 bytes with segment size 4 produce START/-, then EOF — no END is ever sent, the receiver never hands the bundle up, yet Send returns nil")
		r.Check(fullNoEnd > 0, "end-flag/"+fname(ns)+"/full-segment-can-continue", "a full segment is not always the last one", p.Pos(readFull.Pos()), "", "every full segment carries END")
		r.Check(partialWithEnd > 0 && partialNoEnd == 0, "end-flag/"+fname(ns)+"/partial-is-last", "a partial read always ends the transfer", p.Pos(readFull.Pos()), "", fmt.Sprintf("partial-read paths with END %d, without END %d", partialWithEnd, partialNoEnd))
	}
	// START from startFlag, cleared on first use
	okStart := false
	core.EachInstr(ns, func(in ssa.Instruction) {
		b, ok := in.(*ssa.BinOp)
		if !ok || b.Op != token.OR {
			return
		}
		if k, ok := core.ConstInt(b.Y); !ok || k != segStart {
			return
		}
		conds := core.DominatingConds(b.Block())
		for _, c := range conds {
			if pathEndsWith(c.V, "startFlag") && c.True {
				// the flag is cleared in the same block
				for _, in2 := range b.Block().Instrs {
					if st, ok := in2.(*ssa.Store); ok && core.IsField(st.Addr, utilsPkg, "OutgoingTransfer", "startFlag") && core.IsBoolConst(st.Val, false) {
						okStart = true
					}
				}
			}
		}
	})
	r.Check(okStart, "start-flag/"+fname(ns)+"/first-segment-only", "the START flag is set exactly when startFlag is still true, which is cleared in the same step", p.Pos(ns.Pos()), "", "START is not guarded by startFlag / the flag is not cleared")
	for _, fn := range p.RepoFuncs() {
		core.EachInstr(fn, func(in ssa.Instruction) {
			st, ok := in.(*ssa.Store)
			if !ok || !core.IsField(st.Addr, utilsPkg, "OutgoingTransfer", "startFlag") {
				return
			}
			okW := (fname(fn) == utilsPkg+".NewOutgoingTransfer" && core.IsBoolConst(st.Val, true)) || (fn == ns && core.IsBoolConst(st.Val, false))
			r.Check(okW, "start-flag/who-may-write/"+fname(fn), "startFlag is set by the constructor and cleared by NextSegment only", p.Pos(st.Pos()), "", "unexpected writer/value")
		})
	}
	// segment data: (sub)slice of make([]byte, mtu)
	okBuf := false
	for _, c := range core.CallsTo(ns, msgsPkg+".NewDataTransmissionMessage") {
		data := core.Arg(c, 2)
		vals := []ssa.Value{data}
		if phi, ok := data.(*ssa.Phi); ok {
			vals = phi.Edges
		}
		all := true
		for _, v := range vals {
			if sl, ok := v.(*ssa.Slice); ok {
				v = sl.X
				if sl.Low != nil {
					all = false
				}
			}
			ms, ok := v.(*ssa.MakeSlice)
			if !ok || core.Strip(ms.Len) != ssa.Value(ns.Params[1]) {
				all = false
			}
		}
		okBuf = all
		// flags and id
		okId := pathEndsWith(core.Arg(c, 1), "Id")
		r.Check(okId, "segment/"+fname(ns)+"/transfer-id", "every segment carries the transfer's id", p.Pos(c.Pos()), "", "id argument is not t.Id")
	}
	r.Check(okBuf, "segment/"+fname(ns)+"/size", "a segment's data is a prefix of a buffer allocated with exactly the negotiated segment size (never larger)", p.Pos(ns.Pos()), "", "data is not (a prefix of) make([]byte, mtu)")

	// ---- (2) Send
	send := p.Func(utilsPkg, "TransferManager", "Send")
	nNil, nOther := 0, 0
	for _, rv := range core.ReturnValues(send, 0) {
		if c, ok := rv.V.(*ssa.Const); ok && c.Value == nil {
			nNil++
			conds := core.DominatingConds(rv.At.Block())
			okEq := false
			for _, cd := range conds {
				b, ok := cd.V.(*ssa.BinOp)
				if !ok || b.Op != token.EQL || !cd.True {
					continue
				}
				vals := append(closureOf(b.X), closureOf(b.Y)...)
				ack, sent := false, false
				for _, v := range vals {
					if pathEndsWith(v, "AckLen") {
						ack = true
					}
					if ex, ok := v.(*ssa.Extract); ok {
						if _, isSel := ex.Tuple.(*ssa.Select); isSel {
							sent = true
						}
					}
				}
				if ack && sent {
					okEq = true
				}
			}
			r.Check(okEq, fmt.Sprintf("send-success/%s/nil-return#%d", fname(send), nNil), "Send returns success only when the acknowledged length equals the total length sent", p.Pos(rv.At.Pos()), "", "a nil return is not guarded by ackLen == sentLen; "+condStrings(conds))
		} else {
			nOther++
		}
	}
	r.Check(nNil >= 1 && nOther >= 2, "send-success/"+fname(send)+"/outcomes", "Send has success returns and error returns (refusal/unexpected message, timeout, sender error)", p.Pos(send.Pos()), fmt.Sprintf("%d nil, %d other", nNil, nOther), fmt.Sprintf("%d nil, %d other", nNil, nOther))
	// the total length is reported only after EOF
	nLen := 0
	core.EachInstrDeep(send, func(f *ssa.Function, in ssa.Instruction) {
		snd, ok := in.(*ssa.Send)
		if !ok || f == send {
			return
		}
		if _, isInt := snd.X.Type().Underlying().(interface{ Kind() int }); isInt {
			return
		}
		if !isIntChan(snd.Chan) {
			return
		}
		nLen++
		conds := core.DominatingConds(snd.Block())
		_, okEOF := callGuard(conds, "errors.Is", true)
		r.Check(okEOF, "send-success/"+fname(f)+"/length-after-eof", "the sender goroutine reports the total length only after the data stream reported EOF", p.Pos(snd.Pos()), "", "length sent without the EOF test; "+condStrings(conds))
	})
	r.Min("length reports in Send's goroutine", 1)
	r.Count("length reports in Send's goroutine", nLen)

	// ---- (3) receiver
	h := p.Func(utilsPkg, "TransferManager", "handle")
	nUp := 0
	core.EachInstr(h, func(in ssa.Instruction) {
		var at ssa.Instruction
		switch x := in.(type) {
		case *ssa.Send:
			if pathEndsWith(x.Chan, "chanBundles") {
				at = x
			}
		case *ssa.Select:
			for _, st := range x.States {
				if st.Dir == types.SendOnly && pathEndsWith(st.Chan, "chanBundles") {
					at = x
				}
			}
		}
		if at == nil {
			return
		}
		snd := at
		nUp++
		conds := core.DominatingConds(snd.Block())
		_, fin := callGuard(conds, utilsPkg+".IncomingTransfer.IsFinished", true)
		okB := false
		for _, tb := range core.CallsTo(h, utilsPkg+".IncomingTransfer.ToBundle") {
			if errNilGuard(conds, tb.(ssa.Value)) {
				okB = true
			}
		}
		r.Check(fin && okB, "receiver/"+fname(h)+"/hand-up", "a bundle is handed up only for a finished transfer whose data parsed", p.Pos(snd.Pos()), "", "hand-up not guarded by IsFinished() and ToBundle()==nil; "+condStrings(conds))
	})
	r.Min("bundle hand-ups in TransferManager.handle", 1)
	r.Count("bundle hand-ups in TransferManager.handle", nUp)
	// the acknowledgement of the END segment is what makes the peer's Send return success: it is emitted only once the
	// transfer's data was accepted as a bundle (the decoder also validates, e.g. the lifetime against this node's
	// clock); an unacceptable transfer is answered by a refusal
	nAck := 0
	var acks []*ssa.Send
	core.EachInstr(h, func(in ssa.Instruction) {
		snd, ok := in.(*ssa.Send)
		if !ok || !pathEndsWith(snd.Chan, "msgOut") {
			return
		}
		isAck := core.DependsOn(snd.X, func(v ssa.Value) bool {
			c, ok := v.(*ssa.Call)
			return ok && core.NameIs(core.CalleeName(c), utilsPkg+".IncomingTransfer.NextSegment")
		})
		if !isAck {
			return
		}
		nAck++
		acks = append(acks, snd)
		conds := core.DominatingConds(snd.Block())
		_, notFin := callGuard(conds, utilsPkg+".IncomingTransfer.IsFinished", false)
		okB := false
		for _, tb := range core.CallsTo(h, utilsPkg+".IncomingTransfer.ToBundle") {
			if errNilGuard(conds, tb.(ssa.Value)) {
				okB = true
			}
		}
		r.Check(notFin || okB, "receiver/"+fname(h)+"/ack-after-acceptance", "a segment's acknowledgement is sent either for a transfer that is not finished yet or after the finished transfer's data was accepted as a bundle (ToBundle()==nil): the sender's success stands for a bundle the receiver took", p.Pos(snd.Pos()), "", "the END segment is acknowledged before / regardless of ToBundle(): the peer's Send returns success for a bundle this node then drops (e.g. lifetime ended in transit by this node's clock); "+condStrings(conds))
	})
	// ... and only after the bundle was handed up: an acknowledged bundle still waiting in the manager is lost when the
	// session ends, although the peer was told it was taken
	for _, snd := range acks {
		if _, notFin := callGuard(core.DominatingConds(snd.Block()), utilsPkg+".IncomingTransfer.IsFinished", false); notFin {
			continue
		}
		handed := core.MustPassBefore(snd, func(i ssa.Instruction) bool {
			switch x := i.(type) {
			case *ssa.Send:
				return pathEndsWith(x.Chan, "chanBundles")
			case *ssa.Select:
				for _, st := range x.States {
					if st.Dir == types.SendOnly && pathEndsWith(st.Chan, "chanBundles") {
						return true
					}
				}
			}
			return false
		})
		if handed {
			// through a select: the acknowledgement must be on the branch on which the hand-over happened
			for _, cd := range core.DominatingConds(snd.Block()) {
				if b, ok := cd.V.(*ssa.BinOp); ok && b.Op == token.EQL {
					if ex, isEx := b.X.(*ssa.Extract); isEx {
						if sel, isSel := ex.Tuple.(*ssa.Select); isSel && ex.Index == 0 {
							hands := false
							for _, st := range sel.States {
								if st.Dir == types.SendOnly && pathEndsWith(st.Chan, "chanBundles") {
									hands = true
								}
							}
							k, _ := core.ConstInt(b.Y)
							if hands && int(k) < len(sel.States) && !(sel.States[k].Dir == types.SendOnly && pathEndsWith(sel.States[k].Chan, "chanBundles")) && cd.True {
								handed = false
							}
						}
					}
				}
			}
		}
		r.Check(handed, "receiver/"+fname(h)+"/ack-after-hand-over", "the END segment is acknowledged only after the bundle was handed up to the client's handler (send on chanBundles completed)", p.Pos(snd.Pos()), "", "the acknowledgement precedes the hand-over: if the session ends in between, the bundle the peer believes delivered is dropped")
	}
	r.Min("segment acknowledgements in TransferManager.handle", 1)
	r.Count("segment acknowledgements in TransferManager.handle", nAck)
	for _, tb := range core.CallsTo(h, utilsPkg+".IncomingTransfer.ToBundle") {
		// on ToBundle()!=nil a refusal goes out
		okRef := false
		core.EachInstr(h, func(in ssa.Instruction) {
			snd, ok := in.(*ssa.Send)
			if !ok || !pathEndsWith(snd.Chan, "msgOut") {
				return
			}
			isRef := core.DependsOn(snd.X, func(v ssa.Value) bool {
				c, ok := v.(*ssa.Call)
				return ok && core.NameIs(core.CalleeName(c), msgsPkg+".NewTransferRefusalMessage")
			})
			if isRef && errNonNilGuard(core.DominatingConds(snd.Block()), tb.(ssa.Value)) {
				okRef = true
			}
		})
		r.Check(okRef, "receiver/"+fname(h)+"/refuses-unacceptable", "a finished transfer whose data is not an acceptable bundle is answered with XFER_REFUSE, so that the peer's Send fails for exactly this bundle", p.Pos(tb.Pos()), "", "no refusal is sent on the ToBundle()!=nil branch")
	}
	in := p.Func(utilsPkg, "IncomingTransfer", "NextSegment")
	for _, w := range core.CallsTo(in, "bytes.Buffer.Write") {
		conds := core.DominatingConds(w.Block())
		_, notFin := callGuard(conds, utilsPkg+".IncomingTransfer.IsFinished", false)
		okId := false
		for _, c := range conds {
			if b, ok := c.V.(*ssa.BinOp); ok && ((b.Op == token.NEQ && !c.True) || (b.Op == token.EQL && c.True)) {
				if (pathEndsWith(b.X, "Id") && pathEndsWith(b.Y, "TransferId")) || (pathEndsWith(b.Y, "Id") && pathEndsWith(b.X, "TransferId")) {
					okId = true
				}
			}
		}
		r.Check(notFin && okId, "receiver/"+fname(in)+"/write-guarded", "segment data is appended only if the transfer has not ended and the segment belongs to it", p.Pos(w.Pos()), "", fmt.Sprintf("!IsFinished: %v, id match: %v", notFin, okId))
		r.Check(pathEndsWith(core.Arg(w, 0), "Data"), "receiver/"+fname(in)+"/writes-segment-data", "what is appended is the segment's data", p.Pos(w.Pos()), "", "argument is not dtm.Data")
	}
	for _, fn := range p.RepoFuncs() {
		core.EachInstr(fn, func(i ssa.Instruction) {
			st, ok := i.(*ssa.Store)
			if !ok || !core.IsField(st.Addr, utilsPkg, "IncomingTransfer", "endFlag") {
				return
			}
			okW := false
			if fn == in && core.IsBoolConst(st.Val, true) {
				for _, c := range core.DominatingConds(st.Block()) {
					if b, ok := c.V.(*ssa.BinOp); ok && b.Op == token.NEQ && c.True {
						if and, ok := b.X.(*ssa.BinOp); ok && and.Op == token.AND {
							if k, ok := core.ConstInt(and.Y); ok && k == segEnd && pathEndsWith(and.X, "Flags") {
								okW = true
							}
						}
					}
				}
			}
			r.Check(okW, "receiver/who-may-write/endFlag/"+fname(fn), "a transfer is finished only by a segment carrying the END flag", p.Pos(st.Pos()), "", "endFlag written elsewhere / without the SegmentEnd test")
		})
	}
	checkNilResetFields(p, r, "pkg/cla/tcpclv4")
	// a failed Send must not leave its feedback channel registered: the receive loop would block on it
	checkRegisteredChannelsRemoved(p, r)
	checkTransferIDAllocation(p, r)
	checkExchangeNoCyclicWait(p, r)
	// "segments none larger than the negotiated size": the size the sender segments with is the negotiated one
	checkSegmentMruChain(p, r)
	r.Analysed["error_returning_functions_checked"] = checkErrorsNotSwallowedIn(p, r, "pkg/cla/tcpclv4", utilsPkg, msgsPkg, "pkg/cla/tcpclv4/internal/stages")
	checkLoopVarCapture(p, r)

	tb := p.Func(utilsPkg, "IncomingTransfer", "ToBundle")
	for _, c := range core.CallsTo(tb, bp7+".Bundle.UnmarshalCbor") {
		_, g := callGuard(core.DominatingConds(c.Block()), utilsPkg+".IncomingTransfer.IsFinished", true)
		r.Check(g, "receiver/"+fname(tb)+"/only-finished", "the collected data is parsed only after the END segment", p.Pos(c.Pos()), "", "not guarded by IsFinished()")
	}
	for _, c := range core.CallsTo(in, msgsPkg+".NewDataAcknowledgementMessage") {
		lc, ok := core.Strip(core.Arg(c, 2)).(*ssa.Call)
		okLen := ok && core.CalleeName(lc) == "bytes.Buffer.Len"
		r.Check(okLen, "receiver/"+fname(in)+"/ack-cumulative", "the acknowledgement carries the cumulative number of bytes received", p.Pos(c.Pos()), "", "AckLen is not buf.Len()")
	}
}

func isIntChan(v ssa.Value) bool {
	t := v.Type().Underlying()
	ch, ok := t.(interface{ Elem() interface{} })
	_ = ch
	_ = ok
	return chanElemIsInt(v)
}

// checkNilResetFields — contradiction rule: a pointer field that some function
// of the package resets to nil (the session's clean-up) can be nil whenever
// another goroutine calls a method that uses it. Every use of such a field as a
// method receiver outside the functions that reset or (re)assign it must be
// dominated by a non-nil test of the very value loaded (a snapshot), so that a
// call on a finished session returns an error instead of panicking.
func checkNilResetFields(p *core.Program, r *core.Report, pkgRel string) {
	pkg := p.Pkg(pkgRel)
	type fieldKey struct {
		owner *types.Named
		field string
	}
	resetIn := map[fieldKey]map[*ssa.Function]bool{}
	writersOf := map[fieldKey]map[*ssa.Function]bool{}
	var funcs []*ssa.Function
	for _, fn := range p.RepoFuncs() {
		if fn.Pkg == pkg {
			funcs = append(funcs, fn)
		}
	}
	for _, fn := range funcs {
		core.EachInstr(fn, func(in ssa.Instruction) {
			st, ok := in.(*ssa.Store)
			if !ok {
				return
			}
			owner, field, ok := core.FieldOwner(st.Addr)
			if !ok {
				return
			}
			if _, isPtr := st.Val.Type().Underlying().(*types.Pointer); !isPtr {
				return
			}
			k := fieldKey{owner, field}
			if writersOf[k] == nil {
				writersOf[k] = map[*ssa.Function]bool{}
			}
			writersOf[k][topFunc(fn)] = true
			if core.IsNilConst(st.Val) {
				if resetIn[k] == nil {
					resetIn[k] = map[*ssa.Function]bool{}
				}
				resetIn[k][topFunc(fn)] = true
			}
		})
	}
	n := 0
	for _, fn := range funcs {
		core.EachInstr(fn, func(in ssa.Instruction) {
			c, ok := in.(ssa.CallInstruction)
			if !ok || c.Common().IsInvoke() || c.Common().StaticCallee() == nil || c.Common().StaticCallee().Signature.Recv() == nil || len(c.Common().Args) == 0 {
				return
			}
			recv := c.Common().Args[0]
			// the receiver is a load of the field, or a snapshot of it (load of a local that holds such a load)
			ld := fieldLoadOf(recv)
			if ld == nil {
				return
			}
			owner, field, ok := core.FieldOwner(ld.X)
			if !ok {
				return
			}
			k := fieldKey{owner, field}
			if resetIn[k] == nil || writersOf[k][topFunc(fn)] {
				return // never reset, or used by the function that owns the field's life cycle
			}
			n++
			okNil := false
			for _, cd := range core.DominatingConds(in.Block()) {
				if x, isNil, isCmp := core.NilCmp(cd); isCmp && !isNil && (x == recv || core.SameLoad(x, recv)) {
					okNil = true
				}
			}
			r.Check(okNil, fmt.Sprintf("nil-reset/%s.%s/%s", owner.Obj().Name(), field, fname(fn)), "a field that the session's clean-up resets to nil is used by other methods only behind a non-nil test of the value loaded: a call on a finished session returns an error, it does not panic", p.Pos(in.Pos()), "", "method called on "+owner.Obj().Name()+"."+field+" without a nil test; the field is reset to nil in another goroutine when the session ends (the manager still lists the adapter as a sender until it processed the peer's disappearance)")
		})
	}
	r.Count("uses of nil-reset fields outside their owners ("+pkgRel+")", n)
	r.Min("uses of nil-reset fields outside their owners ("+pkgRel+")", 1)
}

// fieldLoadOf returns the load *(&x.f) that v is, or that the local variable v was loaded from holds.
func fieldLoadOf(v ssa.Value) *ssa.UnOp {
	u, ok := v.(*ssa.UnOp)
	if !ok || u.Op != token.MUL {
		return nil
	}
	if _, isFA := u.X.(*ssa.FieldAddr); isFA {
		return u
	}
	if a, isAlloc := u.X.(*ssa.Alloc); isAlloc {
		var src *ssa.UnOp
		for _, ref := range *a.Referrers() {
			if st, ok := ref.(*ssa.Store); ok && st.Addr == ssa.Value(a) {
				if x := fieldLoadOf(st.Val); x != nil {
					src = x
				} else {
					return nil
				}
			}
		}
		return src
	}
	return nil
}

// checkTransferIDAllocation: "this also holds while both sides send several bundles concurrently": two Sends on one
// session must never get the same Transfer ID (their acknowledgements are routed by it). The counter is therefore
// advanced and read in ONE atomic operation: every access to TransferManager.outNextId is an atomic.AddUint64, and the
// ID a transfer is created with derives from that call's result (a Load followed by a later Add hands one ID out twice).
func checkTransferIDAllocation(p *core.Program, r *core.Report) {
	n := 0
	var adds []ssa.Value
	for _, fn := range p.RepoFuncs() {
		if fn.Pkg != p.Pkg(utilsPkg) || fn.Blocks == nil {
			continue
		}
		core.EachInstr(fn, func(in ssa.Instruction) {
			fa, ok := in.(*ssa.FieldAddr)
			if !ok || !core.IsField(fa, utilsPkg, "TransferManager", "outNextId") {
				return
			}
			for _, ref := range *fa.Referrers() {
				n++
				c, isCall := ref.(*ssa.Call)
				okAdd := isCall && core.CalleeName(c) == "sync/atomic.AddUint64"
				if okAdd {
					adds = append(adds, c)
				}
				r.Check(okAdd, "transfer-id/"+fname(fn)+"/atomic-add-only", "the Transfer ID counter is only ever accessed by atomic.AddUint64 (advance and read in one step)", p.Pos(ref.Pos()), "", "the counter is read or written separately from its increment: two concurrent Sends can obtain the same Transfer ID, one's acknowledgement completes the other")
			}
		})
	}
	r.Min("accesses to TransferManager.outNextId", 1)
	r.Count("accesses to TransferManager.outNextId", n)
	send := p.Func(utilsPkg, "TransferManager", "Send")
	for _, c := range core.CallsTo(send, utilsPkg+".NewBundleOutgoingTransfer") {
		okID := core.DependsOn(core.Arg(c, 0), func(v ssa.Value) bool {
			for _, a := range adds {
				if v == a {
					return true
				}
			}
			return false
		})
		r.Check(okID, "transfer-id/"+fname(send)+"/from-the-increment", "the ID a transfer is created with is the result of the atomic increment", p.Pos(c.Pos()), "", "the transfer's ID does not derive from atomic.AddUint64's result")
	}
}

// checkExchangeNoCyclicWait: the established-session stage is the only goroutine that empties State.ExchangeMsgOut (and
// writes to the wire); the transfer manager's handler is the only reader of State.ExchangeMsgIn and answers every
// segment with a blocking send into ExchangeMsgOut. Both channels are bounded. If the stage blocks on a bare send into
// ExchangeMsgIn, the two wait for each other as soon as both buffers are full: under load from both directions, or for
// one bundle in many small segments, the session hangs and every Send times out. Every send of the stage into
// ExchangeMsgIn is therefore a select case next to a receive from ExchangeMsgOut.
func checkExchangeNoCyclicWait(p *core.Program, r *core.Report) {
	stagesRel := "pkg/cla/tcpclv4/internal/stages"
	isField := func(v ssa.Value, f string) bool {
		ld, ok := core.Strip(v).(*ssa.UnOp)
		return ok && core.IsField(ld.X, stagesRel, "State", f)
	}
	// premise: the manager answers with bare sends
	h := p.Func(utilsPkg, "TransferManager", "handle")
	nAns := 0
	core.EachInstr(h, func(in ssa.Instruction) {
		if s, ok := in.(*ssa.Send); ok && pathEndsWith(s.Chan, "msgOut") {
			nAns++
		}
	})
	r.Analysed["blocking_answers_of_the_transfer_manager"] = nAns
	n := 0
	for _, fn := range p.RepoFuncs() {
		if fn.Pkg != p.Pkg(stagesRel) || fn.Blocks == nil {
			continue
		}
		if rcv := fn.Signature.Recv(); rcv == nil || !strings.Contains(rcv.Type().String(), "SessEstablishedStage") {
			continue
		}
		core.EachInstr(fn, func(in ssa.Instruction) {
			switch x := in.(type) {
			case *ssa.Send:
				if isField(x.Chan, "ExchangeMsgIn") {
					n++
					r.Check(nAns == 0, "exchange/"+fname(fn)+"/no-cyclic-wait", "the stage hands an incoming message to the transfer manager only in a select that also takes the manager's outgoing messages (ExchangeMsgOut): neither side waits for the other with both bounded channels full", p.Pos(in.Pos()), "", "a bare blocking send into ExchangeMsgIn: while it blocks, nobody empties ExchangeMsgOut, on which the manager blocks acknowledging - the session hangs")
				}
			case *ssa.Select:
				sendsIn, takesOut := false, false
				for _, st := range x.States {
					if st.Dir == types.SendOnly && isField(st.Chan, "ExchangeMsgIn") {
						sendsIn = true
					}
					if st.Dir == types.RecvOnly && isField(st.Chan, "ExchangeMsgOut") {
						takesOut = true
					}
				}
				if sendsIn {
					n++
					r.Check(takesOut || nAns == 0, "exchange/"+fname(fn)+"/no-cyclic-wait", "the stage hands an incoming message to the transfer manager only in a select that also takes the manager's outgoing messages (ExchangeMsgOut): neither side waits for the other with both bounded channels full", p.Pos(in.Pos()), "", "the select that sends into ExchangeMsgIn has no receive from ExchangeMsgOut")
				}
			}
		})
	}
	r.Min("hand-overs of incoming messages to the transfer manager", 1)
	r.Count("hand-overs of incoming messages to the transfer manager", n)
}
