package rules

import (
	"fmt"
	"go/token"
	"go/types"
	"strings"

	"dtnverif/core"

	"golang.org/x/tools/go/ssa"
)

func init() { Registry["C19"] = C19 }

var prophetGuarded = []guardedField{
	{routingPkg, "Prophet", "predictabilities", "pkg/routing.Prophet.dataMutex"},
	{routingPkg, "Prophet", "peerPredictabilities", "pkg/routing.Prophet.dataMutex"},
}

func isProphetPred(v ssa.Value) bool {
	u, ok := v.(*ssa.UnOp)
	return ok && u.Op == token.MUL && core.IsField(u.X, routingPkg, "Prophet", "predictabilities")
}

// C19 — PRoPHET predictabilities stay probabilities and gate forwarding.
func C19(p *core.Program, r *core.Report) {
	r.Explanation = "(PL) the value each of the three update functions stores into Prophet.predictabilities is evaluated to a polynomial over the values it loads; for all symbols in [0,1] its exact range (vertices of the unit box; univariate extrema for the one symbol of higher degree when two map keys coincide) must stay in [0,1] and the difference to the old value must have the required sign — decided completely in real arithmetic; these functions are the only writers (FW). (GC) in SenderForBundle every selection is dominated by peerPred > ownPred with operands read from the right maps/keys. (AT) every access to the two predictability maps holds dataMutex (interprocedurally) and the live map never escapes the region. Not decided: IEEE-754 rounding, denormals; that received values are in [0,1] (the statement's premise)."
	r.Assumptions = append(r.Assumptions,
		"config constants PInit, Beta, Gamma and received predictabilities lie in [0,1] (premise of the property; the decoder does not enforce it)",
		"real arithmetic; one rounding per operation cannot cross 1 for p + t with 0 <= t <= 1-p (paper argument, not machine-checked)",
		"a missing map key reads as 0")

	// ---- PL + FW
	writers := map[string]string{ // function -> required monotonicity
		"encounter":    ">=",
		"agePred":      "<=",
		"transitivity": ">=",
	}
	nUpd := 0
	for _, fn := range p.RepoFuncs() {
		core.EachInstr(fn, func(in ssa.Instruction) {
			mu, ok := in.(*ssa.MapUpdate)
			if !ok || !isProphetPred(mu.Map) {
				return
			}
			nUpd++
			want, known := writers[fn.Name()]
			if !known || fn.Signature.Recv() == nil || !core.TypeIs(fn.Signature.Recv().Type(), routingPkg, "Prophet") {
				r.Fail("who-may-write/"+fname(fn)+"/predictabilities", "Prophet.predictabilities is written only by encounter, agePred and transitivity", p.Pos(mu.Pos()), "unexpected writer")
				return
			}
			for _, unify := range []bool{false, true} {
				mode := "distinct-keys"
				if unify {
					mode = "equal-keys"
				}
				key := fmt.Sprintf("poly/%s/%s", fname(fn), mode)
				sz := &symbolizer{sym: func(v ssa.Value) (string, bool) {
					switch x := v.(type) {
					case *ssa.Lookup:
						if isProphetPred(x.X) {
							if unify || x.Index == mu.Key {
								return "pOld", true
							}
							return "p[" + x.Index.Name() + "]", true
						}
					case *ssa.Extract:
						if lk, ok := x.Tuple.(*ssa.Lookup); ok && isProphetPred(lk.X) {
							if unify || lk.Index == mu.Key {
								return "pOld", true
							}
							return "p[" + lk.Index.Name() + "]", true
						}
						if _, ok := x.Tuple.(*ssa.Next); ok && x.Index == 2 {
							if b, isB := x.Type().Underlying().(*types.Basic); isB && b.Kind() == types.Float64 {
								return "received", true
							}
						}
					case *ssa.UnOp:
						if x.Op == token.MUL {
							if _, path, ok := core.FieldRef(x); ok && len(path) >= 2 && path[len(path)-2] == "config" {
								return path[len(path)-1], true
							}
						}
					}
					return "", false
				}}
				pl, err := sz.toPoly(mu.Value, 0)
				if err != nil {
					r.Unknown(key, "the update formula is a polynomial of the loaded values", p.Pos(mu.Pos()), err.Error())
					continue
				}
				if _, hasOld := sz.leafs["pOld"]; !hasOld {
					r.Fail(key, "the new value is computed from the old value of the same key", p.Pos(mu.Pos()), "formula "+pl.String()+" does not read the entry it overwrites")
					continue
				}
				lo, hi, ok, why := pl.rangeOnUnitBox()
				if !ok {
					r.Unknown(key, "range of the update polynomial on the unit box", p.Pos(mu.Pos()), why)
					continue
				}
				diff := pl.add(psym("pOld"), -1)
				dlo, dhi, ok2, why2 := diff.rangeOnUnitBox()
				if !ok2 {
					r.Unknown(key, "range of new-old on the unit box", p.Pos(mu.Pos()), why2)
					continue
				}
				const eps = 1e-12
				okRange := lo >= -eps && hi <= 1+eps
				okMono := (want == ">=" && dlo >= -eps) || (want == "<=" && dhi <= eps)
				rule := fmt.Sprintf("for all inputs in [0,1]: new value in [0,1] and new %s old", want)
				detail := fmt.Sprintf("new = %s; range [%g,%g]; new-old range [%g,%g]", pl.String(), lo, hi, dlo, dhi)
				r.Check(okRange && okMono, key, rule, p.Pos(mu.Pos()), detail, detail)
				if !unify {
					// the same direction in floating point: decided on the form of the expression
					ff := &floatForm{s: sz, isOld: func(v ssa.Value) bool {
						n, ok := sz.sym(v)
						return ok && n == "pOld"
					}}
					okForm := (want == ">=" && ff.raising(mu.Value)) || (want == "<=" && ff.lowering(mu.Value))
					form := "old + t with t a product of values in [0,1] and terms (1 - x)"
					if want == "<=" {
						form = "old * f with f in [0,1]"
					}
					r.Check(okForm, fmt.Sprintf("float-monotone-form/%s", fname(fn)), "the update is written so that its IEEE-754 evaluation moves the value in the required direction only ("+form+"): every operation rounds monotonically, so new "+want+" old holds for the computed values, not just for the real ones", p.Pos(mu.Pos()), "", "the expression "+pl.String()+" is not of that form (e.g. 1-(1-old)*(1-q) equals old+(1-old)*q over the reals, but 1-(1-old) already rounds away from old below 0.5: an update with q = 0 lowers the value)")
				}
			}
		})
	}
	checkAdvertisedVectorReplaced(p, r)
	r.Min("writers of Prophet.predictabilities", 3)
	r.Count("writers of Prophet.predictabilities", nUpd)

	// the whole map is replaced nowhere except construction
	for _, fn := range p.RepoFuncs() {
		core.EachInstr(fn, func(in ssa.Instruction) {
			st, ok := in.(*ssa.Store)
			if ok && core.IsField(st.Addr, routingPkg, "Prophet", "predictabilities") && !underConstruction(st.Addr) {
				r.Fail("who-may-write/"+fname(fn)+"/predictabilities-replaced", "the predictability map is only replaced by the constructor", p.Pos(st.Pos()), "map replaced")
			}
		})
	}

	// ---- GC: forwarding gate
	sfb := p.Func(routingPkg, "Prophet", "SenderForBundle")
	nApp := 0
	core.EachInstr(sfb, func(in ssa.Instruction) {
		c, ok := in.(*ssa.Call)
		if !ok {
			return
		}
		if b, ok := c.Common().Value.(*ssa.Builtin); !ok || b.Name() != "append" {
			return
		}
		if !isSenderSlice(c.Type()) {
			return
		}
		nApp++
		cs := appendedSender(c)
		conds := core.DominatingConds(c.Block())
		okGate := false
		detail := ""
		for _, cd := range conds {
			b, ok := cd.V.(*ssa.BinOp)
			if !ok {
				continue
			}
			var peer, own ssa.Value
			switch {
			case b.Op == token.GTR && cd.True:
				peer, own = b.X, b.Y
			case b.Op == token.LSS && cd.True:
				peer, own = b.Y, b.X
			case b.Op == token.LEQ && !cd.True:
				peer, own = b.X, b.Y
			case b.Op == token.GEQ && !cd.True:
				peer, own = b.Y, b.X
			default:
				continue
			}
			ownL, ok1 := own.(*ssa.Lookup)
			peerL, ok2 := peer.(*ssa.Lookup)
			if !ok1 || !ok2 || !isProphetPred(ownL.X) {
				continue
			}
			inner, ok3 := peerL.X.(*ssa.Lookup)
			if !ok3 {
				continue
			}
			if u, ok := inner.X.(*ssa.UnOp); !ok || !core.IsField(u.X, routingPkg, "Prophet", "peerPredictabilities") {
				continue
			}
			// keys: both destination lookups use the same key = bundle destination; the peer key is the appended sender's endpoint
			if ownL.Index != peerL.Index || !pathEndsWith(ownL.Index, "PrimaryBlock", "Destination") {
				detail = "the two predictabilities are not read for the bundle's destination"
				continue
			}
			pc, ok4 := inner.Index.(*ssa.Call)
			if !ok4 || !pc.Common().IsInvoke() || pc.Common().Method.Name() != "GetPeerEndpointID" || pc.Common().Value != cs {
				detail = "the peer's vector is not looked up by the selected sender's endpoint ID"
				continue
			}
			okGate = true
			// the two values compared are one snapshot: read under the same acquisition of dataMutex
			ls := core.ComputeLockSets(sfb)
			eo, ho := ls.Held(ownL, "pkg/routing.Prophet.dataMutex", false)
			ep, hp := ls.Held(peerL, "pkg/routing.Prophet.dataMutex", false)
			r.Check(ho && hp && eo == ep, "forward-gate/"+fname(sfb)+"/consistent-snapshot", "the node's own predictability and the peer's advertised one, which the selection compares, are read under one acquisition of dataMutex (a summary vector processed between two separate reads raises the own value: the peer is then selected although its value was never greater)", p.Pos(ownL.Pos()), "", "own value read at "+p.Pos(ownL.Pos())+" and peer value read at "+p.Pos(peerL.Pos())+" are not in the same lock region: "+ls.HeldNames(ownL)+" / "+ls.HeldNames(peerL))
		}
		r.Check(okGate, "forward-gate/"+fname(sfb)+"/strictly-better-peer", "a peer is selected only if its advertised predictability for the destination is strictly greater than the node's own", p.Pos(c.Pos()), "", "gate missing or weakened; "+detail+" "+condStrings(conds))
	})
	r.Min("selections in Prophet.SenderForBundle", 1)
	r.Count("selections in Prophet.SenderForBundle", nApp)

	// metadata bundles are not forwarded by the algorithm
	okMeta := false
	prophetBlock := constVal(p, bp7, "ExtBlockTypeProphetBlock")
	for _, rv := range core.ReturnValues(sfb, 0) {
		if c, ok := rv.V.(*ssa.Const); ok && c.Value == nil {
			conds := core.DominatingConds(rv.At.Block())
			for _, eb := range core.CallsTo(sfb, bp7+".Bundle.ExtensionBlock") {
				if v, ok := core.ConstInt(core.Arg(eb, 0)); ok && v == prophetBlock && errNilGuard(conds, eb.(ssa.Value)) {
					okMeta = true
				}
			}
		}
	}
	r.Check(okMeta, "forward-gate/"+fname(sfb)+"/metadata-not-forwarded", "a bundle carrying a PRoPHET block yields no sender", p.Pos(sfb.Pos()), "", "no nil-sender return under ExtensionBlock(ProphetBlock)==nil error")

	// ---- AT
	g := newGuardedEngine(p)
	n := g.checkGuarded(r, prophetGuarded, true)
	r.Min("accesses to PRoPHET maps", 12)
	r.Count("accesses to PRoPHET maps", n)
}

func isSenderSlice(t types.Type) bool {
	s, ok := t.Underlying().(*types.Slice)
	return ok && core.TypeIs(s.Elem(), "pkg/cla", "ConvergenceSender")
}

// appendedSender returns the element appended by `append(s, x)` (x spilled
// into a one-element varargs array).
func appendedSender(c *ssa.Call) ssa.Value {
	if len(c.Common().Args) < 2 {
		return nil
	}
	sl, ok := c.Common().Args[1].(*ssa.Slice)
	if !ok {
		return nil
	}
	a, ok := sl.X.(*ssa.Alloc)
	if !ok {
		return nil
	}
	for _, ref := range *a.Referrers() {
		if ia, ok := ref.(*ssa.IndexAddr); ok {
			for _, rr := range *ia.Referrers() {
				if st, ok := rr.(*ssa.Store); ok {
					return st.Val
				}
			}
		}
	}
	return nil
}

// checkAdvertisedVectorReplaced: "advertised predictability" is what the peer's LAST summary vector said. The vector
// kept per peer is therefore replaced as a whole by every received one; an entry written into a kept vector (a merge)
// lets a value the peer no longer advertises outlive its vector and keep steering bundles to that peer.
func checkAdvertisedVectorReplaced(p *core.Program, r *core.Report) {
	isPeerVectors := func(v ssa.Value) bool {
		ld, ok := core.Strip(v).(*ssa.UnOp)
		return ok && core.IsField(ld.X, routingPkg, "Prophet", "peerPredictabilities")
	}
	nRepl := 0
	var merges []string
	for _, fn := range p.RepoFuncs() {
		if fn.Pkg != p.Pkg(routingPkg) || fn.Blocks == nil {
			continue
		}
		core.EachInstr(fn, func(in ssa.Instruction) {
			mu, ok := in.(*ssa.MapUpdate)
			if !ok {
				return
			}
			if isPeerVectors(mu.Map) {
				nRepl++
				return
			}
			// a write into a map that was looked up in peerPredictabilities
			inner := core.DependsOn(mu.Map, func(v ssa.Value) bool {
				lk, ok := v.(*ssa.Lookup)
				return ok && isPeerVectors(lk.X)
			})
			if inner {
				merges = append(merges, p.Pos(mu.Pos()))
			}
		})
	}
	nn := p.Func(routingPkg, "Prophet", "NotifyNewBundle")
	// every path of NotifyNewBundle that reaches the transitive update has replaced the peer's vector before
	okBefore := true
	for _, tc := range core.CallsTo(nn, routingPkg+".Prophet.transitivity") {
		if !core.MustPassBefore(tc, func(i ssa.Instruction) bool {
			mu, ok := i.(*ssa.MapUpdate)
			return ok && isPeerVectors(mu.Map)
		}) {
			okBefore = false
		}
	}
	r.Count("replacements of a peer's summary vector", nRepl)
	r.Min("replacements of a peer's summary vector", 1)
	r.Check(len(merges) == 0 && okBefore, "advertised/"+fname(nn)+"/vector-replaced", "a received summary vector replaces the one kept for that peer on every path (before the transitive update uses it), and no entry is ever written into a kept vector", p.Pos(nn.Pos()), "", "merge into a kept vector at "+strings.Join(merges, ", ")+fmt.Sprintf("; replaced on every path before transitivity: %v", okBefore)+": a destination the peer no longer advertises keeps its old value and bundles are still offered to that peer")
}
