package rules

import (
	"fmt"
	"go/token"
	"go/types"
	"sort"
	"strings"

	"dtnverif/core"

	"golang.org/x/tools/go/ssa"
)

func init() { Registry["C04"] = C04 }

var wireReadPrims = map[string]bool{
	cbor + ".ReadUInt": true, cbor + ".ReadArrayLength": true, cbor + ".ReadMapPairLength": true,
	cbor + ".ReadByteStringLen": true, cbor + ".ReadTextStringLen": true, cbor + ".ReadMajors": true,
}

// isWireValue: v is (derived by conversion from) a count/length read from the
// wire inside this function: result of a cboring length/uint read, or a load
// of a local variable that was filled by encoding/binary.Read.
func isWireValue(v ssa.Value) (bool, string) {
	switch x := v.(type) {
	case *ssa.Extract:
		if c, ok := x.Tuple.(*ssa.Call); ok && wireReadPrims[core.CalleeName(c)] {
			if core.CalleeName(c) == cbor+".ReadMajors" && x.Index != 1 {
				return false, ""
			}
			if x.Index <= 1 {
				return true, shortName(core.CalleeName(c))
			}
		}
	case *ssa.UnOp:
		if x.Op != token.MUL {
			return false, ""
		}
		if a, ok := x.X.(*ssa.Alloc); ok {
			for _, ref := range *a.Referrers() {
				if mi, ok := ref.(*ssa.MakeInterface); ok && mi.X == ssa.Value(a) {
					for _, rr := range *mi.Referrers() {
						if c, ok := rr.(*ssa.Call); ok && core.CalleeName(c) == "encoding/binary.Read" {
							return true, "binary.Read(&" + a.Comment + ")"
						}
						// element of a []interface{} literal handed to binary.Read in a loop
						if st, ok := rr.(*ssa.Store); ok {
							if _, isIA := st.Addr.(*ssa.IndexAddr); isIA {
								return true, "binary.Read(&" + a.Comment + ")"
							}
						}
					}
				}
			}
		}
	}
	return false, ""
}

// widthBits returns the bit width of an integer type (64 for int/uint).
func widthBits(t types.Type) int {
	b, ok := t.Underlying().(*types.Basic)
	if !ok {
		return 64
	}
	switch b.Kind() {
	case types.Uint8, types.Int8:
		return 8
	case types.Uint16, types.Int16:
		return 16
	case types.Uint32, types.Int32:
		return 32
	}
	return 64
}

// upperBounded: block b is dominated by a comparison that bounds v (or a
// conversion of it) from above by a constant or a value not derived from the wire.
func upperBounded(b *ssa.BasicBlock, v ssa.Value) bool {
	same := func(x ssa.Value) bool {
		return x == v || core.Strip(x) == core.Strip(v)
	}
	for _, c := range core.DominatingConds(b) {
		cb, ok := c.V.(*ssa.BinOp)
		if !ok {
			continue
		}
		bound := func(o ssa.Value) bool {
			if _, isC := core.ConstInt(o); isC {
				return true
			}
			w, _ := isWireValue(core.Strip(o))
			return !w
		}
		switch {
		case same(cb.X) && bound(cb.Y):
			if ((cb.Op == token.LEQ || cb.Op == token.LSS) && c.True) || ((cb.Op == token.GTR || cb.Op == token.GEQ) && !c.True) {
				return true
			}
		case same(cb.Y) && bound(cb.X):
			if ((cb.Op == token.GEQ || cb.Op == token.GTR) && c.True) || ((cb.Op == token.LSS || cb.Op == token.LEQ) && !c.True) {
				return true
			}
		}
	}
	return false
}

// C04 — bytes from the network can never crash, hang or balloon the node.
func C04(p *core.Program, r *core.Report) {
	r.Explanation = "(TB) every make() in the repository whose size derives from a count or length read from the wire in the same function (cboring uint/length reads, variables filled by encoding/binary.Read) must be sanitised: the wire value has a static type of at most 16 bits, or the allocation is dominated by an upper-bound comparison against a constant / non-wire value. Allocations that grow with arrived data (append per decoded item, bytes.Buffer fed by io.CopyN, cboring.ReadRawBytes) contain no such make and are the accepted idioms. The peer-declared TCPCLv4 segment size is followed from SessionInitMessage.SegmentMru to the buffer allocation in OutgoingTransfer.NextSegment through a frozen origin chain (State.SegmentMtu -> channel -> TransferManager.segmentMtu), and the store at the origin must be lower-bounded (>= 1, else the sender spins on empty segments) and upper-bounded. (PN1) no panic instruction of the repository or cboring is reachable in the call graph from the decoder entry points. (PN2) every loop of a decoder function is a range/len-bounded loop over data in memory or contains a read primitive (each iteration consumes input, whose exhaustion ends the loop). Inventory only: single-value type assertions on registry-created values. Not decided: panics inside third-party libraries (xz, gorilla, badger), nil dereferences in general, slow-but-finite inputs; recover() wrappers are noted but never counted as protection."
	r.Assumptions = append(r.Assumptions,
		"cboring.ReadRawBytes never allocates more than 1 MiB ahead of arrived bytes (library, read once: strings.go)",
		"bytes.Buffer grows with the data written to it; io.CopyN copies in bounded chunks",
		"a value of a 16-bit type bounds an allocation by 64 Ki elements")

	// ---- TB
	nMake, nWire := 0, 0
	for _, fn := range p.RepoFuncs() {
		core.EachInstr(fn, func(in ssa.Instruction) {
			var size ssa.Value
			var what string
			switch x := in.(type) {
			case *ssa.MakeSlice:
				size, what = x.Len, "make([]"+types.TypeString(x.Type().Underlying().(*types.Slice).Elem(), func(*types.Package) string { return "" })+", n)"
				if _, isC := core.ConstInt(x.Len); isC {
					size = x.Cap
				}
			case *ssa.MakeMap:
				size, what = x.Reserve, "make(map, n)"
			default:
				return
			}
			if size == nil {
				return
			}
			nMake++
			if _, isC := core.ConstInt(size); isC {
				return
			}
			var src ssa.Value
			var srcName string
			core.DependsOn(size, func(v ssa.Value) bool {
				if ok, n := isWireValue(v); ok {
					src, srcName = v, n
					return true
				}
				return false
			})
			if src == nil {
				return
			}
			nWire++
			key := fmt.Sprintf("alloc-bound/%s/%s<-%s", fname(fn), what, srcName)
			rule := "memory is never allocated in proportion to a count or length field whose bytes have not arrived: a make() sized by a wire value needs a narrow (<=16 bit) type or a dominating upper bound"
			narrow := widthBits(src.Type()) <= 16
			bounded := upperBounded(in.Block(), src) || upperBounded(in.Block(), size)
			switch {
			case narrow:
				r.OK(key, rule, p.Pos(in.Pos()), fmt.Sprintf("wire value has %d bits", widthBits(src.Type())))
			case bounded:
				r.OK(key, rule, p.Pos(in.Pos()), "dominated by an upper-bound test")
			default:
				r.Fail(key, rule, p.Pos(in.Pos()), fmt.Sprintf("%s is sized by the %d-bit value from %s without any bound: a few bytes on the wire make the node allocate up to 2^%d elements or panic with 'makeslice: len out of range'", what, widthBits(src.Type()), srcName, widthBits(src.Type())))
			}
		})
	}
	r.Analysed["make_sites"] = nMake
	r.Min("make() sites in the repository", 20)
	r.Count("make() sites in the repository", nMake)
	r.Analysed["make_sites_sized_by_wire_value"] = nWire

	checkSegmentMruChain(p, r)
	checkDecoderPanicsAndLoops(p, r)

	// ---- third-party decoders that allocate by a size their input declares (read once in the library's source):
	// ulikunitz/xz v0.5.8 takes max(ReaderConfig.DictCap, the dictionary size byte of each block header) and allocates
	// that buffer before it decodes a byte of the block, so no configuration caps it. Received bytes must not reach it.
	declaredSizeDecoders := map[string]string{
		"github.com/ulikunitz/xz.NewReader":              "LZMA2 dictionary size byte of a block header (up to 4 GiB)",
		"github.com/ulikunitz/xz.ReaderConfig.NewReader": "LZMA2 dictionary size byte of a block header (up to 4 GiB)",
	}
	nLib := 0
	for _, fn := range p.RepoFuncs() {
		core.EachInstr(fn, func(in ssa.Instruction) {
			c, ok := in.(ssa.CallInstruction)
			if !ok {
				return
			}
			what, listed := declaredSizeDecoders[core.CalleeName(c)]
			if !listed {
				return
			}
			nLib++
			r.Fail("alloc-bound/"+fname(fn)+"/xz-dictionary", "bytes received from a peer are not handed to a library decoder that allocates a buffer of a size the bytes declare", p.Pos(in.Pos()), "the received transmission is decoded by xz.NewReader, which allocates the "+what+" before decoding any payload and cannot be capped through its configuration")
		})
	}
	r.Analysed["declared_size_library_decoder_calls"] = nLib

	// ---- "never loops for ever": the shortest-path search over link-state data from the network
	checkArcCostsNonNegative(p, r)

	// ---- "never loops/hangs for ever": feedback channels registered for the TCPCLv4 receive loop
	nReg := checkRegisteredChannelsRemoved(p, r)
	r.Min("channels registered for a service goroutine", 1)
	r.Count("channels registered for a service goroutine", nReg)
}

// checkSegmentMruChain follows the peer-declared segment size to the buffer
// allocation through a frozen chain of single-writer fields.
func checkSegmentMruChain(p *core.Program, r *core.Report) {
	stagesPkg := "pkg/cla/tcpclv4/internal/stages"
	// (a) sink: NextSegment allocates its parameter
	ns := p.Func(utilsPkg, "OutgoingTransfer", "NextSegment")
	okSink := false
	core.EachInstr(ns, func(in ssa.Instruction) {
		if ms, ok := in.(*ssa.MakeSlice); ok && core.Strip(ms.Len) == ssa.Value(ns.Params[1]) {
			okSink = true
		}
	})
	// (b) NextSegment's argument is TransferManager.segmentMtu
	okArg := true
	nCalls := 0
	for _, cs := range allCallSites(p, utilsPkg+".OutgoingTransfer.NextSegment") {
		if !p.DaemonReachable()[cs.Parent()] {
			continue
		}
		nCalls++
		if !pathEndsWith(core.Arg(cs, 0), "segmentMtu") {
			okArg = false
		}
	}
	// (c) segmentMtu has one writer: the constructor, from its parameter
	okField := true
	nW := 0
	for _, fn := range p.RepoFuncs() {
		core.EachInstr(fn, func(in ssa.Instruction) {
			if st, ok := in.(*ssa.Store); ok && core.IsField(st.Addr, utilsPkg, "TransferManager", "segmentMtu") {
				nW++
				ntm := p.Func(utilsPkg, "", "NewTransferManager")
				if fn != ntm || st.Val != ssa.Value(ntm.Params[2]) {
					okField = false
				}
			}
		})
	}
	// (d) NewTransferManager's argument in the daemon comes from a channel that only carries State.SegmentMtu
	okChan := true
	nNTM := 0
	for _, cs := range allCallSites(p, utilsPkg+".NewTransferManager") {
		if !p.DaemonReachable()[cs.Parent()] {
			continue
		}
		nNTM++
		arg := core.Arg(cs, 2)
		okThis := false
		// value received from a channel (select or unary receive)
		var ch ssa.Value
		core.DependsOn(arg, func(v ssa.Value) bool {
			if u, ok := v.(*ssa.UnOp); ok && u.Op == token.ARROW {
				ch = u.X
				return true
			}
			if ex, ok := v.(*ssa.Extract); ok {
				if sel, ok := ex.Tuple.(*ssa.Select); ok {
					for _, st := range sel.States {
						if st.Dir == types.RecvOnly && chanElemIs(st.Chan, types.Uint64) {
							ch = st.Chan
						}
					}
					return ch != nil
				}
			}
			return false
		})
		// the value handed to the constructor is the received one or something not above it (a clamp towards
		// smaller sizes); it is never raised above what was negotiated
		var recvVal ssa.Value
		core.DependsOn(arg, func(v ssa.Value) bool {
			if u, ok := v.(*ssa.UnOp); ok && u.Op == token.ARROW {
				recvVal = u
				return true
			}
			if ex, ok := v.(*ssa.Extract); ok {
				if _, ok := ex.Tuple.(*ssa.Select); ok && recvVal == nil {
					recvVal = ex
					return true
				}
			}
			return false
		})
		if recvVal != nil && !neverAbove(core.Strip(arg), recvVal) {
			r.Fail("peer-mru/"+fname(cs.Parent())+"/not-raised", "the segment size given to the TransferManager is the negotiated State.SegmentMtu or a smaller value: no path replaces it by something that can be larger", p.Pos(cs.Pos()), "the constructor's argument can be a value other than the negotiated size without a test that it is smaller (e.g. `if sMtu < own { sMtu = own }` takes the maximum): segments larger than the peer's Segment MRU are sent")
		} else if recvVal != nil {
			r.OK("peer-mru/"+fname(cs.Parent())+"/not-raised", "the segment size given to the TransferManager is the negotiated State.SegmentMtu or a smaller value: no path replaces it by something that can be larger", p.Pos(cs.Pos()), "")
		}
		if ch != nil {
			// every send on a uint64 channel in the same top-level function sends State.SegmentMtu
			sends := 0
			okSends := true
			core.EachInstrDeep(topFunc(cs.Parent()), func(_ *ssa.Function, in ssa.Instruction) {
				if snd, ok := in.(*ssa.Send); ok && chanElemIs(snd.Chan, types.Uint64) {
					sends++
					if !pathEndsWith(snd.X, "SegmentMtu") {
						okSends = false
					}
				}
			})
			okThis = sends > 0 && okSends
		}
		if !okThis {
			okChan = false
		}
	}
	r.Check(okSink && okArg && nCalls > 0 && okField && nW == 1 && okChan && nNTM > 0, "peer-mru/chain", "the segment buffer of the sending side is sized by TransferManager.segmentMtu, which has one writer (the constructor), whose argument in the daemon is received from a channel that only carries State.SegmentMtu — so bounding State.SegmentMtu bounds the allocation", p.Pos(ns.Pos()), "", fmt.Sprintf("NextSegment allocates its parameter: %v; callers pass segmentMtu: %v (%d); single constructor writer: %v (%d); constructor fed from the SegmentMtu channel: %v (%d)", okSink, okArg, nCalls, okField, nW, okChan, nNTM))

	// (e) origin: writers of State.SegmentMtu
	nO := 0
	for _, fn := range p.RepoFuncs() {
		core.EachInstr(fn, func(in ssa.Instruction) {
			st, ok := in.(*ssa.Store)
			if !ok || !core.IsField(st.Addr, stagesPkg, "State", "SegmentMtu") {
				return
			}
			nO++
			key := "peer-mru/" + fname(fn) + "/State.SegmentMtu"
			rule := "the segment size negotiated from the peer's SESS_INIT is at least 1 (a zero size makes the sender spin on empty segments) and bounded from above (a huge size makes the sender's make() panic or exhaust memory)"
			fromWire := core.DependsOn(st.Val, func(v ssa.Value) bool {
				return pathEndsWith(v, "SegmentMru") && !pathEndsWith(v, "Configuration", "SegmentMru")
			})
			if !fromWire {
				r.OK(key, rule, p.Pos(st.Pos()), "value does not come from the peer")
				return
			}
			conds := core.DominatingConds(st.Block())
			lower, upper := false, false
			isPeer := func(v ssa.Value) bool {
				v = core.Strip(v)
				return pathEndsWith(v, "SegmentMru") && !pathEndsWith(v, "Configuration", "SegmentMru")
			}
			// the stored value itself may be a phi / min(); check guards on the peer value or on the stored value
			for _, c := range conds {
				cb, ok := c.V.(*ssa.BinOp)
				if !ok {
					continue
				}
				x, y := cb.X, cb.Y
				if isPeer(x) || core.Strip(x) == core.Strip(st.Val) {
					if k, isC := core.ConstInt(y); isC {
						if (cb.Op == token.EQL && k == 0 && !c.True) || (cb.Op == token.NEQ && k == 0 && c.True) || (cb.Op == token.GTR && k >= 0 && c.True) || (cb.Op == token.GEQ && k >= 1 && c.True) || (cb.Op == token.LSS && k >= 1 && !c.True) || (cb.Op == token.LEQ && k >= 0 && !c.True) {
							lower = true
						}
					}
					if ((cb.Op == token.LEQ || cb.Op == token.LSS) && c.True) || ((cb.Op == token.GTR || cb.Op == token.GEQ) && !c.True) {
						if !isPeer(y) {
							upper = true
						}
					}
				}
			}
			// upper bound by construction: the stored value is a phi/min of the peer value and an own bound
			if !upper {
				if phi, ok := st.Val.(*ssa.Phi); ok {
					for i, e := range phi.Edges {
						if isPeer(e) {
							// taken only where peer <= own
							pred := phi.Block().Preds[i]
							cs := core.DominatingConds(pred)
							if ifi, ok := pred.Instrs[len(pred.Instrs)-1].(*ssa.If); ok && pred.Succs[0] != pred.Succs[1] {
								cs = append(cs, core.Cond{V: ifi.Cond, True: pred.Succs[0] == phi.Block(), If: ifi})
							}
							for _, c := range cs {
								if cb, ok := c.V.(*ssa.BinOp); ok && isPeer(cb.X) && !isPeer(cb.Y) {
									if ((cb.Op == token.LEQ || cb.Op == token.LSS) && c.True) || ((cb.Op == token.GTR || cb.Op == token.GEQ) && !c.True) {
										upper = true
									}
								}
							}
						}
					}
				}
				if core.DependsOn(st.Val, func(v ssa.Value) bool {
					c, ok := v.(*ssa.Call)
					return ok && core.CalleeName(c) == "math.Min"
				}) {
					upper = true
				}
				// a clamp extracted into a helper: every value the helper returns is a constant or its
				// parameter on a path where the parameter was found not to exceed a constant / non-wire bound
				if hc, ok := core.Strip(st.Val).(*ssa.Call); ok {
					if f := hc.Common().StaticCallee(); f != nil && core.IsRepo(f) && f.Blocks != nil && len(f.Params) == 1 && isPeer(hc.Common().Args[0]) {
						all, n := true, 0
						for _, rv := range core.ReturnValues(f, 0) {
							n++
							if _, isC := core.ConstInt(rv.V); isC {
								continue
							}
							if rv.V != ssa.Value(f.Params[0]) {
								all = false
								continue
							}
							cs := core.DominatingConds(rv.At.Block())
							if ifi, ok := rv.At.(*ssa.If); ok {
								_ = ifi
							}
							// include the edge condition of a phi predecessor
							if blk := rv.At.Block(); len(blk.Instrs) > 0 {
								if ifi, ok := blk.Instrs[len(blk.Instrs)-1].(*ssa.If); ok {
									for i, sc := range blk.Succs {
										for _, in := range sc.Instrs {
											if phi, isPhi := in.(*ssa.Phi); isPhi {
												for j, e := range phi.Edges {
													if e == rv.V && sc.Preds[j] == blk {
														cs = append(cs, core.Cond{V: ifi.Cond, True: i == 0, If: ifi})
													}
												}
											}
										}
									}
								}
							}
							okB := false
							for _, c := range cs {
								if cb, ok := c.V.(*ssa.BinOp); ok && cb.X == ssa.Value(f.Params[0]) {
									if _, isC := core.ConstInt(cb.Y); isC && (((cb.Op == token.LEQ || cb.Op == token.LSS) && c.True) || ((cb.Op == token.GTR || cb.Op == token.GEQ) && !c.True)) {
										okB = true
									}
								}
							}
							if !okB {
								all = false
							}
						}
						if all && n > 0 {
							upper = true
						}
					}
				}
			}
			r.Check(lower && upper, key, rule, p.Pos(st.Pos()), "", fmt.Sprintf("lower bound (>=1) established: %v, upper bound established: %v — the peer's SegmentMru is stored unchecked: 0 makes TransferManager.Send loop for ever sending empty segments, 2^63 panics in make([]byte, mtu)", lower, upper))
		})
	}
	r.Min("writers of State.SegmentMtu", 1)
	r.Count("writers of State.SegmentMtu", nO)
}

func chanElemIs(v ssa.Value, kind types.BasicKind) bool {
	ch, ok := v.Type().Underlying().(*types.Chan)
	if !ok {
		return false
	}
	b, ok := ch.Elem().Underlying().(*types.Basic)
	return ok && b.Kind() == kind
}

// checkDecoderPanicsAndLoops: PN1, PN2 and the assertion inventory.
func checkDecoderPanicsAndLoops(p *core.Program, r *core.Report) {
	var roots []*ssa.Function
	add := func(f *ssa.Function) {
		if f != nil {
			roots = append(roots, f)
		}
	}
	add(p.Func(bp7, "", "ParseBundle"))
	add(p.Func(bp7, "", "BuildFromMap"))
	add(p.Func(bp7, "", "NewEndpointID"))
	add(p.Func(bp7, "", "NewAdministrativeRecordFromCbor"))
	add(p.Func(msgsPkg, "", "ReadMessage"))
	add(p.Func(bbcPkg, "", "ParseFragment"))
	add(p.Func(bbcPkg, "IncomingTransmission", "Bundle"))
	add(p.Func(bbcPkg, "IncomingTransmission", "ReadFragment"))
	add(p.Func(discPkg, "", "UnmarshalAnnouncements"))
	add(p.Func(agentPkg, "", "unmarshalCbor"))
	add(p.Func(mtcpPkg, "MTCPServer", "handleSender"))
	// every UnmarshalCbor / Unmarshal / UnmarshalBinary method of the repository
	for _, fn := range p.RepoFuncs() {
		if fn.Signature.Recv() != nil && (fn.Name() == "UnmarshalCbor" || fn.Name() == "Unmarshal" || fn.Name() == "UnmarshalBinary") {
			add(fn)
		}
	}
	r.Min("decoder entry points", 40)
	r.Count("decoder entry points", len(roots))
	reach := p.Reachable(roots, func(f *ssa.Function) bool {
		if core.IsRepo(f) {
			// logging and the reporting channel are not part of decoding
			return true
		}
		return f.Pkg != nil && f.Pkg.Pkg.Path() == cbor
	})
	r.Analysed["decoder_reachable_functions"] = len(reach)
	var names []string
	nPanic := 0
	for f := range reach {
		if f.Blocks == nil {
			continue
		}
		names = append(names, fname(f))
		core.EachInstr(f, func(in ssa.Instruction) {
			if pn, ok := in.(*ssa.Panic); ok {
				if panicIsDead(f) {
					r.OK("no-panic/"+fname(f)+"/dead-default", "a panic in the decoder closure is unreachable: enumerating the function's paths over all valuations of the predicates it branches on yields no path into it", p.Pos(pn.Pos()), "dead by enumeration")
					return
				}
				nPanic++
				r.Fail("no-panic/"+fname(f), "no explicit panic is reachable from a decoder entry point (a peer or client must not be able to crash the node)", p.Pos(pn.Pos()), "panic() reachable from the decoders through the call graph")
			}
		})
	}
	sort.Strings(names)
	if nPanic == 0 {
		r.OK("no-panic/closure", "no explicit panic is reachable from a decoder entry point (a peer or client must not be able to crash the node)", "", fmt.Sprintf("%d functions reachable from %d entry points, none contains a panic instruction", len(reach), len(roots)))
	}
	// list the panics that exist elsewhere (inventory)
	for _, fn := range p.RepoFuncs() {
		if reach[fn] {
			continue
		}
		core.EachInstr(fn, func(in ssa.Instruction) {
			if pn, ok := in.(*ssa.Panic); ok {
				r.Note("no-panic/elsewhere/"+fname(fn), "panic outside the decoder closure (inventory)", p.Pos(pn.Pos()), "")
			}
		})
	}

	// PN2: loops in decoder functions
	isRead := func(in ssa.Instruction) bool {
		c, ok := in.(ssa.CallInstruction)
		if !ok {
			return false
		}
		n := shortName(core.CalleeName(c))
		if strings.HasPrefix(n, cbor+".Read") || n == cbor+".Unmarshal" || n == "encoding/binary.Read" || n == "io.ReadFull" || n == "pkg/bpv7.ExtensionBlockManager.ReadBlock" {
			return true
		}
		if c.Common().IsInvoke() && (c.Common().Method.Name() == "Read" || c.Common().Method.Name() == "UnmarshalCbor" || c.Common().Method.Name() == "NextReader") {
			return true
		}
		return false
	}
	nLoops := 0
	for f := range reach {
		if f.Blocks == nil || !core.IsRepo(f) {
			continue
		}
		for li, l := range core.Loops(f) {
			nLoops++
			key := fmt.Sprintf("loops-terminate/%s/loop#%d", fname(f), li+1)
			rule := "a decoder loop is bounded by data already in memory (range / len / constant bound) or consumes input on every iteration (so a finite input ends it)"
			// (a) header condition compares against len()/const/range
			bounded := false
			if ifi, ok := l.Header.Instrs[len(l.Header.Instrs)-1].(*ssa.If); ok {
				for _, v := range closureOf(ifi.Cond) {
					switch x := v.(type) {
					case *ssa.Call:
						if b, ok := x.Common().Value.(*ssa.Builtin); ok && (b.Name() == "len" || b.Name() == "cap") {
							bounded = true
						}
					case *ssa.Next:
						bounded = true
					case *ssa.Const:
					}
				}
				if b, ok := ifi.Cond.(*ssa.BinOp); ok {
					if _, isC := core.ConstInt(b.Y); isC {
						bounded = true
					}
					// bound is a field / parameter (not read from the wire in this function)
					if w, _ := isWireValue(core.Strip(b.Y)); !w {
						if _, isPhi := b.X.(*ssa.Phi); isPhi {
							if !dependsOnWire(b.Y) {
								bounded = true
							}
						}
					}
				}
			}
			reads := false
			for b := range l.Blocks {
				for _, in := range b.Instrs {
					if isRead(in) {
						reads = true
					}
				}
			}
			switch {
			case bounded:
				r.OK(key, rule, p.Pos(l.Header.Instrs[0].Pos()), "bounded by data in memory")
			case reads:
				r.OK(key, rule, p.Pos(l.Header.Instrs[0].Pos()), "every iteration reads from the input")
			default:
				// loops over channels / selects are service loops, not decoders
				service := false
				for b := range l.Blocks {
					for _, in := range b.Instrs {
						switch x := in.(type) {
						case *ssa.Select:
							service = true
						case *ssa.UnOp:
							if x.Op == token.ARROW {
								service = true
							}
						}
					}
				}
				if service {
					r.Note(key, "service loop over a channel (not a decoder loop)", p.Pos(l.Header.Instrs[0].Pos()), "")
				} else {
					r.Fail(key, rule, p.Pos(l.Header.Instrs[0].Pos()), "the loop is neither bounded by in-memory data nor consumes input")
				}
			}
		}
	}
	// element accesses whose index comes from the wire: directly, or as the counter of a loop that runs up to a
	// count read from the wire. The element exists only if a dominating guard relates the index to len() of the
	// indexed value (or to a constant); appending instead of indexing is the repository's idiom.
	nIdx, nWireIdx := 0, 0
	for f := range reach {
		if f.Blocks == nil || !core.IsRepo(f) {
			continue
		}
		loops := core.Loops(f)
		core.EachInstr(f, func(in ssa.Instruction) {
			var idx, base ssa.Value
			switch x := in.(type) {
			case *ssa.IndexAddr:
				idx, base = x.Index, x.X
			case *ssa.Index:
				idx, base = x.Index, x.X
			default:
				return
			}
			if _, isC := core.ConstInt(idx); isC {
				return
			}
			nIdx++
			why := ""
			var bounds []ssa.Value // the announced counts the index runs up to
			if dependsOnWire(idx) {
				why = "the index is computed from a value read from the input"
			} else if phi, ok := core.Strip(idx).(*ssa.Phi); ok {
				for _, l := range loops {
					if l.Header != phi.Block() {
						continue
					}
					if ifi, ok := l.Header.Instrs[len(l.Header.Instrs)-1].(*ssa.If); ok {
						if b, ok := ifi.Cond.(*ssa.BinOp); ok {
							for _, side := range []ssa.Value{b.X, b.Y} {
								if w, _ := isWireValue(core.Strip(side)); w || dependsOnWire(side) {
									why = "the index counts up to " + valStr(side) + ", a count read from the input"
									bounds = append(bounds, core.Strip(side))
								}
							}
						}
					}
				}
			}
			if why == "" {
				return
			}
			nWireIdx++
			key := "wire-index/" + fname(f) + "/" + valStr(base)
			rule := "an element is addressed with an index that the input controls only under a dominating comparison of that index with len() of the indexed value or with a constant"
			guarded := false
			for _, c := range core.DominatingConds(in.Block()) {
				cb, ok := c.V.(*ssa.BinOp)
				if !ok {
					continue
				}
				for _, pair := range [][2]ssa.Value{{cb.X, cb.Y}, {cb.Y, cb.X}} {
					isBound := false
					for _, bd := range bounds {
						if core.Strip(pair[0]) == bd && c.If != nil && c.If.Block() != in.Block() && !core.InLoop(c.If.Block()) {
							isBound = true // the announced count itself was compared before the loop
						}
					}
					if core.Strip(pair[0]) != core.Strip(idx) && !isBound {
						continue
					}
					if _, isC := core.ConstInt(pair[1]); isC {
						guarded = true
					}
					if lc, ok := core.Strip(pair[1]).(*ssa.Call); ok {
						if bi, ok := lc.Common().Value.(*ssa.Builtin); ok && bi.Name() == "len" {
							guarded = true
						}
					}
				}
			}
			r.Check(guarded, key, rule, p.Pos(in.Pos()), "", why+"; no dominating guard relates it to the length of "+valStr(base)+": an announced count larger than the slice makes the decoder panic (index out of range)")
		})
	}
	r.Min("computed element accesses in decoder functions", 5)
	r.Count("computed element accesses in decoder functions", nIdx)
	r.Analysed["decoder_wire_indexed_accesses"] = nWireIdx
	r.Analysed["decoder_loops"] = nLoops
	r.Min("loops in decoder functions", 20)
	r.Count("loops in decoder functions", nLoops)

	// single-value type assertions inside the decoder closure: a client-controlled dynamic type must never be
	// asserted without comma-ok (that panics). Accepted: the registry idioms.
	nAssert := 0
	for f := range reach {
		if f.Blocks == nil || !core.IsRepo(f) {
			continue
		}
		core.EachInstr(f, func(in ssa.Instruction) {
			ta, ok := in.(*ssa.TypeAssert)
			if !ok || ta.CommaOk {
				return
			}
			nAssert++
			key := fmt.Sprintf("no-unchecked-assertion/%s/%s", fname(f), types.TypeString(ta.AssertedType, func(p *types.Package) string { return p.Name() }))
			rule := "inside the decoders a dynamic type that depends on input is only asserted with comma-ok; single-value assertions are limited to the registry idioms (a value freshly created by reflect.New for a registered type, a block value behind a type code lookup, an error returned through reflection)"
			x := ta.X
			okIdiom, why := false, ""
			switch {
			case pathEndsWith(x, "Value"):
				okIdiom, why = true, "CanonicalBlock.Value behind a block type lookup (registry invariant: type code <-> Go type)"
			case core.DependsOn(x, func(v ssa.Value) bool {
				c, ok := v.(*ssa.Call)
				return ok && (core.CalleeName(c) == "reflect.Value.Interface" || core.CalleeName(c) == "reflect.New")
			}):
				okIdiom, why = true, "value created through reflection for a registered type"
			case core.DependsOn(x, func(v ssa.Value) bool {
				c, ok := v.(*ssa.Call)
				return ok && (core.CalleeName(c) == "sync.Map.Load" || core.CalleeName(c) == "sync.Map.LoadOrStore" || core.CalleeName(c) == "sync.Pool.Get")
			}):
				okIdiom, why = true, "value stored by this package in its own sync.Map / sync.Pool (its dynamic type does not depend on input)"
			default:
				// guarded by a preceding comma-ok assertion / type switch on the same value
				for _, c := range core.DominatingConds(ta.Block()) {
					if ex, ok := c.V.(*ssa.Extract); ok && c.True {
						if t2, ok := ex.Tuple.(*ssa.TypeAssert); ok && (t2.X == x || core.SameLoad(t2.X, x)) && types.Identical(t2.AssertedType, ta.AssertedType) {
							okIdiom, why = true, "dominated by a comma-ok assertion of the same value"
						}
					}
				}
			}
			if okIdiom {
				r.OK(key, rule, p.Pos(ta.Pos()), why)
			} else {
				r.Fail(key, rule, p.Pos(ta.Pos()), "single-value type assertion on "+valStr(x)+" in a function reachable from the decoders")
			}
		})
	}
	r.Analysed["decoder_single_value_assertions"] = nAssert

	// a connection that outlives its adapter must not crash the node
	checkSendsOnClosableChannels(p, r, mtcpPkg)

	// the broadcast connector's reader must not be stoppable by what it receives
	checkServiceSends(p, r, bbcPkg, "Connector")

	// encoding/binary.Write(w, order, data) panics (reflection on a nil interface) when data is nil. Where data is an
	// `interface{}` that comes from the caller (JSON `null` in a REST build request ends up here), it must be
	// tested against nil first.
	nBW := 0
	for f := range reach {
		if f.Blocks == nil || !core.IsRepo(f) {
			continue
		}
		for _, c := range core.CallsTo(f, "encoding/binary.Write") {
			data := core.Arg(c, 2)
			var origin ssa.Value
			fromCaller := core.DependsOn(data, func(v ssa.Value) bool {
				par, ok := v.(*ssa.Parameter)
				if !ok {
					return false
				}
				t := par.Type().Underlying()
				if sl, isSl := t.(*types.Slice); isSl {
					t = sl.Elem().Underlying()
				}
				it, isI := t.(*types.Interface)
				if isI && it.Empty() {
					origin = par
					return true
				}
				return false
			})
			if _, isMI := data.(*ssa.MakeInterface); isMI || !fromCaller {
				continue
			}
			nBW++
			okNil := false
			for _, cd := range core.DominatingConds(c.Block()) {
				if x, isNil, isCmp := core.NilCmp(cd); isCmp && !isNil && (x == data || core.SameLoad(x, data)) {
					okNil = true
				}
			}
			r.Check(okNil, "reflect-encode-nil/"+fname(f), "an interface{} handed in by the caller (it may hold JSON null from a REST build request) is written with encoding/binary only after a non-nil test: binary.Write panics on a nil interface", p.Pos(c.Pos()), "", "binary.Write on "+valStr(data)+" (from parameter "+origin.Name()+") without a nil test")
		}
	}
	r.Count("binary.Write on caller-supplied interface values in decoder-reachable code", nBW)
	r.Min("binary.Write on caller-supplied interface values in decoder-reachable code", 1)

	// inventory: unchecked type assertions on registry-created values
	nTA := 0
	for _, fn := range p.RepoFuncs() {
		core.EachInstr(fn, func(in ssa.Instruction) {
			ta, ok := in.(*ssa.TypeAssert)
			if !ok || ta.CommaOk {
				return
			}
			if pathEndsWith(ta.X, "Value") {
				nTA++
			}
		})
	}
	r.Note("inventory/unchecked-type-assertions", "single-value type assertions on CanonicalBlock.Value rely on the registry invariant 'type code <-> Go type'", "", fmt.Sprintf("%d sites", nTA))
	// the default registrations: type code of the registered example equals the constant of its type
	gm := p.Func(bp7, "", "GetExtensionBlockManager")
	nReg := len(core.CallsTo(gm, bp7+".ExtensionBlockManager.Register"))
	r.Check(nReg >= 4, "registry/default-registrations", "payload, previous-node, bundle-age and hop-count blocks are registered by default", p.Pos(gm.Pos()), fmt.Sprintf("%d registrations", nReg), fmt.Sprintf("%d registrations", nReg))
}

func dependsOnWire(v ssa.Value) bool {
	return core.DependsOn(v, func(x ssa.Value) bool {
		w, _ := isWireValue(x)
		return w
	})
}

// panicIsDead enumerates f's paths for every valuation of the boolean
// method calls it branches on (treated as independent pure predicates) and
// reports whether no path ends in a panic.
func panicIsDead(f *ssa.Function) bool {
	var preds []*ssa.Call
	core.EachInstr(f, func(in ssa.Instruction) {
		if c, ok := in.(*ssa.Call); ok {
			if b, ok := c.Type().Underlying().(*types.Basic); ok && b.Kind() == types.Bool {
				preds = append(preds, c)
			}
		}
	})
	if len(preds) == 0 || len(preds) > 6 {
		return false
	}
	for mask := 0; mask < 1<<uint(len(preds)); mask++ {
		bind := map[ssa.Value]int64{}
		for i, c := range preds {
			bind[c] = int64((mask >> uint(i)) & 1)
		}
		pe := &core.PathEnum{Fn: f, Bind: bind, MaxPaths: 200}
		pe.Run()
		if pe.Trunc {
			return false
		}
		for _, pr := range pe.Paths {
			if pr.Panics {
				return false
			}
		}
	}
	return true
}

// neverAbove: v is recv itself, or a phi each of whose edges is recv or a value
// that was established smaller than recv on the edge's predecessor (x < recv).
func neverAbove(v, recv ssa.Value) bool {
	if v == recv {
		return true
	}
	phi, ok := v.(*ssa.Phi)
	if !ok {
		return false
	}
	for i, e := range phi.Edges {
		e = core.Strip(e)
		if e == recv {
			continue
		}
		pred := phi.Block().Preds[i]
		okEdge := false
		for _, cd := range core.DominatingConds(pred) {
			b, ok := cd.V.(*ssa.BinOp)
			if !ok {
				continue
			}
			x, y := core.Strip(b.X), core.Strip(b.Y)
			same := func(a, bb ssa.Value) bool { return a == bb || core.SameLoad(a, bb) }
			switch {
			case same(x, e) && y == recv && ((b.Op == token.LSS && cd.True) || (b.Op == token.LEQ && cd.True) || (b.Op == token.GEQ && !cd.True) || (b.Op == token.GTR && !cd.True)):
				okEdge = true
			case x == recv && same(y, e) && ((b.Op == token.GTR && cd.True) || (b.Op == token.GEQ && cd.True) || (b.Op == token.LEQ && !cd.True) || (b.Op == token.LSS && !cd.True)):
				okEdge = true
			}
		}
		if !okEdge {
			return false
		}
	}
	return true
}

// checkRegisteredChannelsRemoved: a function that creates a channel, enters it into a registry (sync.Map field of its
// receiver) so that a service goroutine can send to it, and is itself the reader of that channel, must take the entry
// out again on every exit. An entry that outlives its reader keeps receiving: once the channel's buffer is full the
// service goroutine blocks on it for ever, and with it everything that goroutine serves (for TCPCLv4: all incoming
// messages of the session). Accepted: a `defer registry.Delete(sameKey)` registered unconditionally after the Store,
// or a deferred closure whose every path calls that Delete.
func checkRegisteredChannelsRemoved(p *core.Program, r *core.Report) int {
	n := 0
	for _, fn := range p.RepoFuncs() {
		if fn.Blocks == nil {
			continue
		}
		core.EachInstr(fn, func(in ssa.Instruction) {
			st, ok := in.(*ssa.Call)
			if !ok || core.CalleeName(st) != "sync.Map.Store" {
				return
			}
			mk, isMk := core.Strip(core.Arg(st, 1)).(*ssa.MakeChan)
			if !isMk {
				// the channel may live in a local cell (captured by a closure)
				if ld, isLd := core.Strip(core.Arg(st, 1)).(*ssa.UnOp); isLd {
					if a, isA := ld.X.(*ssa.Alloc); isA {
						for _, ref := range *a.Referrers() {
							if s2, isS := ref.(*ssa.Store); isS {
								if m2, isM := s2.Val.(*ssa.MakeChan); isM {
									mk, isMk = m2, true
								}
							}
						}
					}
				}
				if !isMk {
					return
				}
			}
			_ = mk
			owner, field, okF := core.FieldOwner(core.CallRecv(st))
			if !okF {
				return
			}
			n++
			sameRegistry := func(v ssa.Value) bool {
				o2, f2, ok2 := core.FieldOwner(v)
				return ok2 && o2 == owner && f2 == field
			}
			removed := false
			for _, blk := range fn.Blocks {
				for _, i2 := range blk.Instrs {
					d, isD := i2.(*ssa.Defer)
					if !isD {
						continue
					}
					// unconditional: every return passes this defer
					uncond := true
					for _, ret := range core.Returns(fn) {
						if !core.MustPassBefore(ret, func(i ssa.Instruction) bool { return i == ssa.Instruction(d) }) {
							uncond = false
						}
					}
					if !uncond {
						continue
					}
					if core.CalleeName(d) == "sync.Map.Delete" && sameRegistry(core.CallRecv(d)) && core.SameExpr(core.Arg(d, 0), core.Arg(st, 0)) {
						removed = true
					}
					if mc, isMC := d.Common().Value.(*ssa.MakeClosure); isMC {
						cl := mc.Fn.(*ssa.Function)
						all := len(core.Returns(cl)) > 0
						for _, ret := range core.Returns(cl) {
							if !core.MustPassBefore(ret, func(i ssa.Instruction) bool {
								c, ok := i.(ssa.CallInstruction)
								return ok && core.CalleeName(c) == "sync.Map.Delete"
							}) {
								all = false
							}
						}
						if all {
							removed = true
						}
					}
				}
			}
			r.Check(removed, "registered-channel/"+fname(fn)+"/"+owner.Obj().Name()+"."+field, "a channel entered into a registry for a service goroutine to send to is taken out again on every exit of the function that reads it (unconditional deferred Delete of the same key)", p.Pos(st.Pos()), "", "the entry can outlive the function that reads the channel: the service goroutine's send on it blocks for ever once the buffer is full, and the session stops processing incoming messages")
		})
	}
	return n
}
