package rules

import (
	"fmt"
	"strings"

	"dtnverif/core"

	"golang.org/x/tools/go/ssa"
)

func init() { Registry["C08"] = C08 }

const bhPkg = "github.com/timshannon/badgerhold"

func isBhCall(c ssa.CallInstruction, method string) bool {
	return core.CalleeName(c) == bhPkg+".Store."+method
}

// C08 — the bundle store behaves like a durable map, survives restarts.
func C08(p *core.Program, r *core.Report) {
	r.Explanation = "Equivalence with a reference map over operation histories and the state after a kill at an arbitrary instruction are NOT decided. Decided (necessary): (DP/FW) every key handed to badgerhold Get/Insert/Update/Delete flows from BundleID.Scrub().String() — directly or through BundleItem.Id, whose only writer is newBundleItem with that expression — and BundleItem.BId from Scrub(); only pkg/storage talks to badgerhold. (OR) in Store.Push every path to the index write (Insert/Update) passes a storeBundle call whose error was tested nil on that path and the error is returned otherwise; in Store.Delete the part files are removed before the index entry and a removal error does not skip the index delete. (AT) Store.Push reads the record, appends a part and writes it back: this read-modify-write, and every other index write, lies inside an exclusive region of the store's mutex, so concurrently pushed fragments of one bundle are both collected. (IT) the expiry sweep visits every expired item. Observation without verdict: part files are opened without Close/Sync."
	r.Assumptions = append(r.Assumptions,
		"badgerhold Get/Insert/Update/Delete are individually atomic and durable once they return (library, not analysed)",
		"a crash between the part-file write and the index write leaves an orphan file, never an index entry without file (order rule)")

	// ---- who-may-call badgerhold
	nBh := 0
	for _, fn := range p.RepoFuncs() {
		core.EachInstr(fn, func(in ssa.Instruction) {
			c, ok := in.(ssa.CallInstruction)
			if !ok || !strings.HasPrefix(core.CalleeName(c), bhPkg+".") {
				return
			}
			nBh++
			top := topFunc(fn)
			okPkg := top.Pkg != nil && core.NameIs(top.Pkg.Pkg.Path(), storagePkg)
			if !okPkg {
				r.Fail("who-may-call/badgerhold/"+fname(fn), "only pkg/storage talks to the index database", p.Pos(c.Pos()), core.CalleeName(c)+" called outside pkg/storage")
			}
		})
	}
	r.OK("who-may-call/badgerhold", "only pkg/storage talks to the index database", "", fmt.Sprintf("%d call sites, all in pkg/storage", nBh))
	r.Min("badgerhold call sites", 8)
	r.Count("badgerhold call sites", nBh)

	// ---- key derivation
	isScrubString := func(v ssa.Value) bool {
		c, ok := core.Strip(v).(*ssa.Call)
		if !ok || !core.NameIs(core.CalleeName(c), bp7+".BundleID.String") {
			return false
		}
		c2, ok := core.CallRecv(c).(*ssa.Call)
		return ok && core.NameIs(core.CalleeName(c2), bp7+".BundleID.Scrub")
	}
	nKeys := 0
	for _, fn := range p.RepoFuncs() {
		core.EachInstr(fn, func(in ssa.Instruction) {
			c, ok := in.(ssa.CallInstruction)
			if !ok {
				return
			}
			for _, m := range []string{"Get", "Insert", "Update", "Delete"} {
				if !isBhCall(c, m) {
					continue
				}
				nKeys++
				key := core.Strip(core.Arg(c, 0))
				okK := isScrubString(key) || pathEndsWith(key, "Id")
				r.Check(okK, fmt.Sprintf("key-derivation/%s/bh.%s", fname(fn), m), "the index key is BundleID.Scrub().String() of the bundle, directly or through BundleItem.Id", p.Pos(c.Pos()), "", "key is neither Scrub().String() nor a BundleItem.Id: "+valStr(key))
			}
		})
	}
	r.Min("index key uses", 5)
	r.Count("index key uses", nKeys)
	nbi := p.Func(storagePkg, "", "newBundleItem")
	for _, fn := range p.RepoFuncs() {
		core.EachInstr(fn, func(in ssa.Instruction) {
			st, ok := in.(*ssa.Store)
			if !ok {
				return
			}
			if core.IsField(st.Addr, storagePkg, "BundleItem", "Id") {
				r.Check(fn == nbi && isScrubString(st.Val), "key-derivation/who-may-write/BundleItem.Id/"+fname(fn), "BundleItem.Id is written only by newBundleItem, as Scrub().String()", p.Pos(st.Pos()), "", "unexpected writer / expression")
			}
			if core.IsField(st.Addr, storagePkg, "BundleItem", "BId") {
				c, isC := st.Val.(*ssa.Call)
				r.Check(fn == nbi && isC && core.NameIs(core.CalleeName(c), bp7+".BundleID.Scrub"), "key-derivation/who-may-write/BundleItem.BId/"+fname(fn), "BundleItem.BId is written only by newBundleItem, as Scrub()", p.Pos(st.Pos()), "", "unexpected writer / expression")
			}
		})
	}
	// the part file name derives from the full bundle id (fragments get their own file)
	bpp := p.Func(storagePkg, "", "bundlePartPath")
	okPath := len(core.CallsTo(bpp, "crypto/sha256.Sum256")) == 1 && len(core.CallsTo(bpp, bp7+".BundleID.String")) == 1
	r.Check(okPath, "key-derivation/"+fname(bpp), "a part's file name is the hash of the part's full bundle ID (distinct fragments get distinct files)", p.Pos(bpp.Pos()), "", "file name derivation changed")

	// ---- OR: Push
	push := p.Func(storagePkg, "Store", "Push")
	nIdx := 0
	core.EachInstr(push, func(in ssa.Instruction) {
		c, ok := in.(ssa.CallInstruction)
		if !ok || !(isBhCall(c, "Insert") || isBhCall(c, "Update")) {
			return
		}
		nIdx++
		conds := core.DominatingConds(c.Block())
		okFile := false
		for _, sc := range core.CallsTo(push, storagePkg+".BundlePart.storeBundle") {
			if errNilGuard(conds, sc.(ssa.Value)) && core.MustPassBefore(c, func(i ssa.Instruction) bool { return i == ssa.Instruction(sc) }) {
				okFile = true
			}
		}
		r.Check(okFile, fmt.Sprintf("file-before-index/%s/index-write#%d", fname(push), nIdx), "the index entry is written only after the part file was stored successfully", p.Pos(c.Pos()), "", "index write reachable without a successful storeBundle; "+condStrings(conds))
	})
	r.Min("index writes in Push", 2)
	r.Count("index writes in Push", nIdx)
	for _, sc := range core.CallsTo(push, storagePkg+".BundlePart.storeBundle") {
		// error is returned
		okRet := false
		for _, rv := range core.ReturnValues(push, 0) {
			if rv.V == sc.(ssa.Value) {
				if errNonNilGuard(core.DominatingConds(rv.At.Block()), sc.(ssa.Value)) {
					okRet = true
				}
			}
		}
		r.Check(okRet, "file-before-index/"+fname(push)+"/store-error-returned", "a failed part-file write is returned to the caller", p.Pos(sc.Pos()), "", "storeBundle's error is not returned")
	}
	// Delete: files then index, errors do not skip
	del := p.Func(storagePkg, "Store", "Delete")
	for _, c := range core.CallsTo(del, bhPkg+".Store.Delete") {
		dels := core.CallsTo(del, storagePkg+".BundlePart.deleteBundle")
		okLoop := len(dels) == 1 && core.InLoop(dels[0].Block())
		// the index delete is not inside the file loop and not guarded by a file error
		conds := core.DominatingConds(c.Block())
		okNoSkip := true
		for _, d := range dels {
			if errNilGuard(conds, d.(ssa.Value)) {
				okNoSkip = false
			}
		}
		okAfter := !core.InLoop(c.Block())
		l := (*core.Loop)(nil)
		if len(dels) == 1 {
			l = core.InnermostLoop(core.Loops(del), dels[0].Block())
		}
		okAll := l != nil && len(l.EarlyExits()) == 0
		r.Check(okLoop && okNoSkip && okAfter && okAll, "file-before-index/"+fname(del)+"/files-then-index", "deleting removes all part files first (complete loop) and then the index entry, also when a file removal failed", p.Pos(c.Pos()), "", fmt.Sprintf("file loop %v, complete %v, index delete after loop %v, not skipped on file error %v", okLoop, okAll, okAfter, okNoSkip))
	}

	// ---- AT
	g := newGuardedEngine(p)
	_ = g
	qs, us := storeItemRMW(push)
	r.Min("read-modify-write sequences in Store.Push", 1)
	r.Count("read-modify-write sequences in Store.Push", len(us))
	var mutex string
	ls := core.ComputeLockSets(push)
	for i := range us {
		same := ls.SameWriteRegion(qs[i], us[i], "")
		if same {
			for _, e := range ls.At[us[i]] {
				if e.Write {
					mutex = e.Mutex
				}
			}
		}
		r.Check(same, "atomic-rmw/"+fname(push)+"/collect-fragment", "collecting a fragment reads the record, appends the part and writes it back inside one exclusive region, so two fragments of one bundle pushed concurrently are both kept", p.Pos(us[i].Pos()), "", fmt.Sprintf("query at %s holds %s, update at %s holds %s: two concurrent pushes of different fragments both read the old record and the later update drops the other part", p.Pos(qs[i].Pos()), ls.HeldNames(qs[i]), p.Pos(us[i].Pos()), ls.HeldNames(us[i])))
	}
	// also the insert path: QueryId (not found) then Insert must be one region (two first fragments)
	for _, c := range core.CallsTo(push, bhPkg+".Store.Insert") {
		q := core.CallsTo(push, storagePkg+".Store.QueryId")
		same := len(q) > 0 && ls.SameWriteRegion(q[0], c, "")
		r.Check(same, "atomic-rmw/"+fname(push)+"/insert-if-absent", "the unknown-ID test and the insert are one exclusive region (two concurrent first fragments must not both insert)", p.Pos(c.Pos()), "", "query and insert are not in one exclusive region")
	}
	if mutex != "" {
		for _, name := range []string{"Update", "Delete"} {
			fn := p.Func(storagePkg, "Store", name)
			lsf := core.ComputeLockSets(fn)
			for _, m := range []string{"Update", "Delete"} {
				for _, c := range core.CallsTo(fn, bhPkg+".Store."+m) {
					_, held := lsf.Held(c, mutex, true)
					r.Check(held, fmt.Sprintf("lockset/%s/bh.%s", fname(fn), m), "every index write holds the mutex that protects Push's read-modify-write", p.Pos(c.Pos()), "", "write without "+mutex+"; held "+lsf.HeldNames(c))
				}
			}
		}
	}

	// ---- IT: expiry sweep
	de := p.Func(storagePkg, "Store", "DeleteExpired")
	for _, c := range core.CallsTo(de, storagePkg+".Store.Delete") {
		l := core.InnermostLoop(core.Loops(de), c.Block())
		r.Check(l != nil && len(l.EarlyExits()) == 0, "complete-iteration/"+fname(de), "the expiry sweep deletes every expired item (no break/return in the loop)", p.Pos(c.Pos()), "", "loop has an early exit")
	}
	okFind := false
	for _, c := range core.CallsTo(de, bhPkg+".Store.Find") {
		_ = c
		okFind = len(core.CallsTo(de, "time.Now")) == 1
	}
	r.Check(okFind, "expiry/"+fname(de)+"/query", "expired items are those whose Expires lies before now", p.Pos(de.Pos()), "", "Find(Expires < time.Now()) changed")
	// pending query
	qp := p.Func(storagePkg, "Store", "QueryPending")
	r.Check(len(core.CallsTo(qp, bhPkg+".Store.Find")) == 1, "pending/"+fname(qp), "the pending query asks the index for Pending == true", p.Pos(qp.Pos()), "", "query changed")

	// ---- observation
	for _, name := range []string{"storeBundle", "Load"} {
		fn := p.Func(storagePkg, "BundlePart", name)
		opens := len(core.CallsTo(fn, "os.OpenFile")) + len(core.CallsTo(fn, "os.Open"))
		closes := 0
		core.EachInstr(fn, func(in ssa.Instruction) {
			if c, ok := in.(ssa.CallInstruction); ok && core.CalleeName(c) == "os.File.Close" {
				closes++
			}
		})
		r.Note("resource-pairing/"+fname(fn), "cross-reference only: files opened by the store are reclaimed by finalisers, never closed or synced explicitly", p.Pos(fn.Pos()), fmt.Sprintf("%d open, %d close", opens, closes))
	}
}

// storeItemRMW: Store.QueryId result flowing into bh.Update within fn.
func storeItemRMW(fn *ssa.Function) (queries []ssa.CallInstruction, updates []ssa.CallInstruction) {
	qs := core.CallsTo(fn, storagePkg+".Store.QueryId")
	for _, u := range core.CallsTo(fn, bhPkg+".Store.Update") {
		for _, a := range core.CallArgs(u) {
			for _, q := range qs {
				if core.DependsOn(a, func(v ssa.Value) bool {
					if v == q.(ssa.Value) {
						return true
					}
					ex, ok := v.(*ssa.Extract)
					return ok && ex.Tuple == q.(ssa.Value)
				}) {
					queries = append(queries, q)
					updates = append(updates, u)
				}
			}
		}
	}
	return
}
