package rules

import (
	"fmt"
	"go/constant"
	"go/token"
	"strings"

	"dtnverif/core"

	"golang.org/x/tools/go/ssa"
)

func init() { Registry["C08"] = C08 }

const bhPkg = "github.com/timshannon/badgerhold"

func isBhCall(c ssa.CallInstruction, method string) bool {
	return core.CalleeName(c) == bhPkg+".Store."+method
}

// C08 — the bundle store behaves like a durable map, survives restarts.
func C08(p *core.Program, r *core.Report) {
	r.Explanation = "Equivalence with a reference map over operation histories and the state after a kill at an arbitrary instruction are NOT decided. Decided (necessary): (DP/FW) every key handed to badgerhold Get/Insert/Update/Delete flows from BundleID.Scrub().String() — directly or through BundleItem.Id, whose only writer is newBundleItem with that expression — and BundleItem.BId from Scrub(); only pkg/storage talks to badgerhold. (OR) in Store.Push every path to the index write (Insert/Update) passes a storeBundle call whose error was tested nil on that path and the error is returned otherwise; in Store.Delete the part files are removed before the index entry and a removal error does not skip the index delete. (AT) Store.Push reads the record, appends a part and writes it back: this read-modify-write, and every other index write, lies inside an exclusive region of the store's mutex, so concurrently pushed fragments of one bundle are both collected. (IT) the expiry sweep visits every expired item. Observation without verdict: part files are opened without Close/Sync."
	r.Assumptions = append(r.Assumptions,
		"badgerhold Get/Insert/Update/Delete are individually atomic and durable once they return (library, not analysed)",
		"a crash between the part-file write and the index write leaves an orphan file, never an index entry without file (order rule)")

	// ---- who-may-call badgerhold
	nBh := 0
	for _, fn := range p.RepoFuncs() {
		core.EachInstr(fn, func(in ssa.Instruction) {
			c, ok := in.(ssa.CallInstruction)
			if !ok || !strings.HasPrefix(core.CalleeName(c), bhPkg+".") {
				return
			}
			nBh++
			top := topFunc(fn)
			okPkg := top.Pkg != nil && core.NameIs(top.Pkg.Pkg.Path(), storagePkg)
			if !okPkg {
				r.Fail("who-may-call/badgerhold/"+fname(fn), "only pkg/storage talks to the index database", p.Pos(c.Pos()), core.CalleeName(c)+" called outside pkg/storage")
			}
		})
	}
	r.OK("who-may-call/badgerhold", "only pkg/storage talks to the index database", "", fmt.Sprintf("%d call sites, all in pkg/storage", nBh))
	r.Min("badgerhold call sites", 8)
	r.Count("badgerhold call sites", nBh)

	// ---- key derivation
	isScrubString := func(v ssa.Value) bool {
		c, ok := core.Strip(v).(*ssa.Call)
		if !ok || !core.NameIs(core.CalleeName(c), bp7+".BundleID.String") {
			return false
		}
		c2, ok := core.CallRecv(c).(*ssa.Call)
		return ok && core.NameIs(core.CalleeName(c2), bp7+".BundleID.Scrub")
	}
	nKeys := 0
	for _, fn := range p.RepoFuncs() {
		core.EachInstr(fn, func(in ssa.Instruction) {
			c, ok := in.(ssa.CallInstruction)
			if !ok {
				return
			}
			for _, m := range []string{"Get", "Insert", "Update", "Delete"} {
				if !isBhCall(c, m) {
					continue
				}
				nKeys++
				key := core.Strip(core.Arg(c, 0))
				okK := isScrubString(key) || pathEndsWith(key, "Id")
				r.Check(okK, fmt.Sprintf("key-derivation/%s/bh.%s", fname(fn), m), "the index key is BundleID.Scrub().String() of the bundle, directly or through BundleItem.Id", p.Pos(c.Pos()), "", "key is neither Scrub().String() nor a BundleItem.Id: "+valStr(key))
			}
		})
	}
	r.Min("index key uses", 5)
	r.Count("index key uses", nKeys)
	nbi := p.Func(storagePkg, "", "newBundleItem")
	for _, fn := range p.RepoFuncs() {
		core.EachInstr(fn, func(in ssa.Instruction) {
			st, ok := in.(*ssa.Store)
			if !ok {
				return
			}
			if core.IsField(st.Addr, storagePkg, "BundleItem", "Id") {
				r.Check(fn == nbi && isScrubString(st.Val), "key-derivation/who-may-write/BundleItem.Id/"+fname(fn), "BundleItem.Id is written only by newBundleItem, as Scrub().String()", p.Pos(st.Pos()), "", "unexpected writer / expression")
			}
			if core.IsField(st.Addr, storagePkg, "BundleItem", "BId") {
				c, isC := st.Val.(*ssa.Call)
				r.Check(fn == nbi && isC && core.NameIs(core.CalleeName(c), bp7+".BundleID.Scrub"), "key-derivation/who-may-write/BundleItem.BId/"+fname(fn), "BundleItem.BId is written only by newBundleItem, as Scrub()", p.Pos(st.Pos()), "", "unexpected writer / expression")
			}
		})
	}
	// the part file name derives from the full bundle id (fragments get their own file)
	bpp := p.Func(storagePkg, "", "bundlePartPath")
	sums := core.CallsTo(bpp, "crypto/sha256.Sum256")
	okPath := len(sums) == 1 && len(bpp.Params) >= 1 && partNameDependsOnID(bpp, core.Arg(sums[0], 0))
	r.Check(okPath, "key-derivation/"+fname(bpp), "a part's file name is the hash of the part's full bundle ID (distinct fragments get distinct files)", p.Pos(bpp.Pos()), "", "file name derivation changed")
	// ... and the name of a whole bundle cannot be spelled by a fragment's: BundleID.String() joins source, time,
	// sequence number (and offset, total length) with '-', and a source's endpoint may itself end in "-7-0". The two
	// kinds of name start with different literal text.
	okTag, whyTag := false, "no Sum256 call"
	if len(sums) == 1 {
		okTag, whyTag = partNameKindTagged(core.Arg(sums[0], 0))
	}
	r.Check(okTag, "key-derivation/"+fname(bpp)+"/kind-tagged", "the hashed name of a whole bundle's file and of a fragment's file start with different literal prefixes, so that no whole bundle's name equals a fragment's (an endpoint may contain '-' and digits)", p.Pos(bpp.Pos()), "", whyTag)

	checkFileBeforeIndex(p, r)
	push := p.Func(storagePkg, "Store", "Push")
	// Delete: the index record goes first, then all part files. A record is what
	// makes a bundle visible (QueryId, QueryPending): it must never outlive its
	// files, an orphaned file is harmless.
	del := p.Func(storagePkg, "Store", "Delete")
	idxDels := core.CallsTo(del, bhPkg+".Store.Delete")
	fileDels := core.CallsTo(del, storagePkg+".BundlePart.deleteBundle")
	r.Count("index deletions in Store.Delete", len(idxDels))
	r.Min("index deletions in Store.Delete", 1)
	for _, c := range idxDels {
		okLoop := len(fileDels) == 1 && core.InLoop(fileDels[0].Block())
		l := (*core.Loop)(nil)
		if len(fileDels) == 1 {
			l = core.InnermostLoop(core.Loops(del), fileDels[0].Block())
		}
		okAll := l != nil && len(l.EarlyExits()) == 0
		// every file removal happens after the record is gone ...
		okOrder := !core.InLoop(c.Block())
		for _, d := range fileDels {
			if !core.MustPassBefore(d, func(i ssa.Instruction) bool { return i == ssa.Instruction(c) }) {
				okOrder = false
			}
			// ... and only if that succeeded (otherwise record and files stay together)
			if !errNilGuard(core.DominatingConds(d.Block()), c.(ssa.Value)) {
				okOrder = false
			}
		}
		// a found record is removed on every path: the index delete is guarded only by the lookup
		okAlways := true
		for _, cd := range core.DominatingConds(c.Block()) {
			x, _, isNilCmp := core.NilCmp(cd)
			if !isNilCmp {
				okAlways = false
				continue
			}
			ex, isEx := x.(*ssa.Extract)
			if !isEx {
				okAlways = false
				continue
			}
			if qc, isCall := ex.Tuple.(*ssa.Call); !isCall || !core.NameIs(core.CalleeName(qc), storagePkg+".Store.QueryId") {
				okAlways = false
			}
		}
		r.Check(okLoop && okAll && okOrder && okAlways, "file-before-index/"+fname(del)+"/index-then-files", "deleting removes the index record first and, once that succeeded, all part files (complete loop; a failed file removal does not stop the loop): a stop in between leaves orphaned files, never a record whose files are gone", p.Pos(c.Pos()), "", fmt.Sprintf("file loop %v, complete %v, record removed before every file removal and files only after success %v, record removal guarded by the lookup only %v", okLoop, okAll, okOrder, okAlways))
	}

	// Push: a push is acknowledged without storing anything only if the record
	// already holds this very data: the stored record is the whole bundle, or the
	// fragment was found among its parts.
	nIgn := 0
	for _, rv := range core.ReturnValues(push, 0) {
		k, isC := rv.V.(*ssa.Const)
		if !isC || k.Value != nil {
			continue
		}
		stored := false
		for _, sc := range core.CallsTo(push, storagePkg+".BundlePart.storeBundle") {
			if core.MustPassBefore(rv.At, func(i ssa.Instruction) bool { return i == ssa.Instruction(sc) }) {
				stored = true
			}
		}
		if stored {
			continue
		}
		nIgn++
		conds := core.DominatingConds(rv.At.Block())
		okWhole, okFound := false, false
		for _, cd := range conds {
			if pathEndsWith(cd.V, "Fragmented") && !cd.True && core.DependsOn(cd.V, func(v ssa.Value) bool {
				qc, isCall := v.(*ssa.Call)
				return isCall && core.NameIs(core.CalleeName(qc), storagePkg+".Store.QueryId")
			}) {
				okWhole = true
			}
			if isPartsMatchCond(cd) {
				okFound = true
			}
		}
		r.Check(okWhole || okFound, fmt.Sprintf("store/%s/acknowledged-without-storing#%d", fname(push), nIgn), "Push returns success without writing anything only when the stored record is the whole bundle or already contains this fragment (a whole bundle arriving after some of its fragments must replace them, not be dropped)", p.Pos(rv.At.Pos()), "", "a push is acknowledged and dropped although the record holds only (other) fragments; "+condStrings(conds))
	}
	r.Count("acknowledged-without-storing returns in Push", nIgn)
	r.Min("acknowledged-without-storing returns in Push", 2)

	// Push: the part files removed when a whole bundle supersedes its fragments are those of the superseded parts.
	// The list that is iterated for removal must not share its backing array with the list written into the record
	// (an in-place rewrite `append(old[:0], new...)` overwrites the entries that are about to be removed: the new
	// part's file is deleted, a fragment's file is orphaned).
	nRm := 0
	for _, dc := range core.CallsTo(push, storagePkg+".BundlePart.deleteBundle") {
		nRm++
		// the slice the loop walks: receiver is an element (load of IndexAddr) of it
		var walked ssa.Value
		recv := core.CallRecv(dc)
		if ld, ok := recv.(*ssa.UnOp); ok {
			if ia, ok := ld.X.(*ssa.IndexAddr); ok {
				walked = ia.X
			}
		}
		if walked == nil {
			// range value copied into a local first
			core.DependsOn(recv, func(v ssa.Value) bool {
				if ia, ok := v.(*ssa.IndexAddr); ok && walked == nil {
					walked = ia.X
				}
				return false
			})
		}
		okAlias, why := walked != nil, "the list walked for removal could not be identified"
		if walked != nil {
			core.EachInstr(push, func(in ssa.Instruction) {
				st, ok := in.(*ssa.Store)
				if !ok || !core.IsField(st.Addr, storagePkg, "BundleItem", "Parts") {
					return
				}
				if !reaches(st, dc) {
					return
				}
				// the list walked is the record's OLD parts: if it is read from the record's Parts field, the read
				// must come before this store
				if ld, isLd := walked.(*ssa.UnOp); isLd && core.IsField(ld.X, storagePkg, "BundleItem", "Parts") && core.SameLoad(ld, loadOfAddr(st.Addr)) || isLoadOfSameField(walked, st.Addr) {
					if wl, ok := walked.(ssa.Instruction); ok && !core.MustPassBefore(st, func(i ssa.Instruction) bool { return i == wl }) {
						okAlias = false
						why = "the list walked to remove the superseded files is read from the record after its Parts were replaced (" + p.Pos(st.Pos()) + "): the new part's file is removed, the fragments' files stay"
					}
				}
				if sharesBacking(st.Val, func(v ssa.Value) bool { return v == walked || core.SameLoad(v, walked) }, 0) {
					okAlias = false
					why = "the record's Parts are rewritten in place (" + p.Pos(st.Pos()) + ") over the backing array of the list that is then walked to remove the superseded files"
				}
			})
		}
		r.Check(okAlias, fmt.Sprintf("store/%s/removed-parts-not-overwritten#%d", fname(push), nRm), "the list of superseded parts whose files are removed does not share its backing array with the list written into the record before", p.Pos(dc.Pos()), "", why)
	}
	// ... and they are removed only once the record was switched over successfully: a removal that also runs on the
	// error exits of Push (a deferred clean-up registered before the file write / the record update) leaves the record
	// pointing at fragment files that are gone when the write of the whole bundle fails
	nRmDeep := 0
	core.EachInstrDeep(push, func(f *ssa.Function, in ssa.Instruction) {
		dc, ok := in.(ssa.CallInstruction)
		if !ok || !core.NameIs(core.CalleeName(dc), storagePkg+".BundlePart.deleteBundle") {
			return
		}
		nRmDeep++
		okAfter := false
		if f == push {
			conds := core.DominatingConds(in.Block())
			for _, uc := range core.CallsTo(push, bhPkg+".Store.Update") {
				if errNilGuard(conds, uc.(ssa.Value)) && core.MustPassBefore(in, func(i ssa.Instruction) bool { return i == ssa.Instruction(uc) }) {
					okAfter = true
				}
			}
		}
		r.Check(okAfter, fmt.Sprintf("store/%s/removes-after-switch#%d", fname(push), nRmDeep), "the files of superseded fragments are removed only on the path on which the record was updated successfully (not from a deferred clean-up that also runs when the whole bundle's file or the record update failed)", p.Pos(in.Pos()), "", "the removal is reachable although storeBundle or the record update failed: the record still lists the fragments, whose files are gone")
	})
	r.Count("part-file removals in Push", nRm+nRmDeep)
	r.Min("part-file removals in Push", 1)

	// Load agrees with IsComplete: a record that is not fragmented is complete and is loaded directly
	// (ReassembleFragments refuses bundles that are not fragments)
	ldFn := p.Func(storagePkg, "BundleItem", "Load")
	okDirect := false
	for _, rc := range core.CallsTo(ldFn, bp7+".ReassembleFragments") {
		for _, cd := range core.DominatingConds(rc.Block()) {
			if pathEndsWith(cd.V, "Fragmented") && cd.True {
				okDirect = true
			}
		}
	}
	nDirect := 0
	for _, lc := range core.CallsTo(ldFn, storagePkg+".BundlePart.Load") {
		for _, cd := range core.DominatingConds(lc.Block()) {
			if pathEndsWith(cd.V, "Fragmented") && !cd.True {
				nDirect++
			}
		}
	}
	r.Check(okDirect && nDirect > 0, "store/"+fname(ldFn)+"/whole-bundle-direct", "BundleItem.Load reassembles only fragmented records and loads a record stored as a whole directly (IsComplete reports such a record complete; ReassembleFragments refuses non-fragments)", p.Pos(ldFn.Pos()), "", fmt.Sprintf("ReassembleFragments only under Fragmented: %v; direct part load under !Fragmented: %v", okDirect, nDirect > 0))

	// ---- AT
	g := newGuardedEngine(p)
	_ = g
	qs, us := storeItemRMW(push)
	r.Min("read-modify-write sequences in Store.Push", 1)
	r.Count("read-modify-write sequences in Store.Push", len(us))
	var mutex string
	ls := core.ComputeLockSets(push)
	for i := range us {
		same := ls.SameWriteRegion(qs[i], us[i], "")
		if same {
			for _, e := range ls.At[us[i]] {
				if e.Write {
					mutex = e.Mutex
				}
			}
		}
		r.Check(same, "atomic-rmw/"+fname(push)+"/collect-fragment", "collecting a fragment reads the record, appends the part and writes it back inside one exclusive region, so two fragments of one bundle pushed concurrently are both kept", p.Pos(us[i].Pos()), "", fmt.Sprintf("query at %s holds %s, update at %s holds %s: two concurrent pushes of different fragments both read the old record and the later update drops the other part", p.Pos(qs[i].Pos()), ls.HeldNames(qs[i]), p.Pos(us[i].Pos()), ls.HeldNames(us[i])))
	}
	// also the insert path: QueryId (not found) then Insert must be one region (two first fragments)
	for _, c := range core.CallsTo(push, bhPkg+".Store.Insert") {
		q := core.CallsTo(push, storagePkg+".Store.QueryId")
		same := len(q) > 0 && ls.SameWriteRegion(q[0], c, "")
		r.Check(same, "atomic-rmw/"+fname(push)+"/insert-if-absent", "the unknown-ID test and the insert are one exclusive region (two concurrent first fragments must not both insert)", p.Pos(c.Pos()), "", "query and insert are not in one exclusive region")
	}
	if mutex != "" {
		for _, name := range []string{"Update", "Delete"} {
			fn := p.Func(storagePkg, "Store", name)
			lsf := core.ComputeLockSets(fn)
			for _, m := range []string{"Update", "Delete"} {
				for _, c := range core.CallsTo(fn, bhPkg+".Store."+m) {
					_, held := lsf.Held(c, mutex, true)
					r.Check(held, fmt.Sprintf("lockset/%s/bh.%s", fname(fn), m), "every index write holds the mutex that protects Push's read-modify-write", p.Pos(c.Pos()), "", "write without "+mutex+"; held "+lsf.HeldNames(c))
				}
			}
		}
	}

	checkPartFileLocking(p, r, mutex)
	checkWriteErrorsNotDropped(p, r)
	// Update is the write half of a read-modify-write its callers perform without the store mutex (QueryId ...
	// Update): the parts of a record are Push's business, so Update keeps those of the record as it is NOW
	upd := p.Func(storagePkg, "Store", "Update")
	lsu := core.ComputeLockSets(upd)
	var getTarget ssa.Value
	var getCall ssa.CallInstruction
	for _, gc := range core.CallsTo(upd, bhPkg+".Store.Get") {
		getCall = gc
		getTarget = core.Strip(core.Arg(gc, 1))
	}
	for _, field := range []string{"Parts", "Fragmented"} {
		okF := false
		for _, uc := range core.CallsTo(upd, bhPkg+".Store.Update") {
			core.EachInstr(upd, func(in ssa.Instruction) {
				st, ok := in.(*ssa.Store)
				if !ok || !core.IsField(st.Addr, storagePkg, "BundleItem", field) || getTarget == nil {
					return
				}
				fromCurrent := core.DependsOn(st.Val, func(v ssa.Value) bool {
					fa, ok := v.(*ssa.FieldAddr)
					return ok && fa.X == getTarget
				})
				_, heldGet := lsu.Held(getCall.(ssa.Instruction), "pkg/storage.Store.mutex", true)
				_, heldUpd := lsu.Held(uc.(ssa.Instruction), "pkg/storage.Store.mutex", true)
				if fromCurrent && heldGet && heldUpd && core.MustPassBefore(uc.(ssa.Instruction), func(i ssa.Instruction) bool { return i == ssa.Instruction(st) }) {
					okF = true
				}
			})
		}
		r.Check(okF, "atomic-rmw/"+fname(upd)+"/keeps-current-"+field, "Store.Update writes the caller's meta data over the record but takes "+field+" from the record as it is in the store at that moment (read under the store mutex): a fragment or the whole bundle pushed between the caller's QueryId and its Update is not undone", p.Pos(upd.Pos()), "", "the caller's stale copy of "+field+" is written back: a Push acknowledged in between loses its part (or the record points to files that Push has removed)")
	}
	r.Analysed["error_returning_functions_checked"] = checkErrorsNotSwallowedTol(p, r, map[string]bool{
		"pkg/storage.BundlePart.deleteBundle": true, // best-effort removal of a part file: logged, an orphaned file is harmless
		"pkg/storage.Store.QueryId":           true, // "not found" is an answer (nothing to delete / insert instead of update)
	}, storagePkg)

	// ---- IT: expiry sweep
	de := p.Func(storagePkg, "Store", "DeleteExpired")
	for _, c := range core.CallsTo(de, storagePkg+".Store.Delete") {
		l := core.InnermostLoop(core.Loops(de), c.Block())
		r.Check(l != nil && len(l.EarlyExits()) == 0, "complete-iteration/"+fname(de), "the expiry sweep deletes every expired item (no break/return in the loop)", p.Pos(c.Pos()), "", "loop has an early exit")
	}
	okFind := false
	for _, c := range core.CallsTo(de, bhPkg+".Store.Find") {
		_ = c
		okFind = len(core.CallsTo(de, "time.Now")) == 1
	}
	r.Check(okFind, "expiry/"+fname(de)+"/query", "expired items are those whose Expires lies before now", p.Pos(de.Pos()), "", "Find(Expires < time.Now()) changed")
	// pending query
	qp := p.Func(storagePkg, "Store", "QueryPending")
	r.Check(len(core.CallsTo(qp, bhPkg+".Store.Find")) == 1, "pending/"+fname(qp), "the pending query asks the index for Pending == true", p.Pos(qp.Pos()), "", "query changed")

	// ---- observation
	for _, name := range []string{"storeBundle", "Load"} {
		fn := p.Func(storagePkg, "BundlePart", name)
		opens := len(core.CallsTo(fn, "os.OpenFile")) + len(core.CallsTo(fn, "os.Open"))
		closes := 0
		core.EachInstr(fn, func(in ssa.Instruction) {
			if c, ok := in.(ssa.CallInstruction); ok && core.CalleeName(c) == "os.File.Close" {
				closes++
			}
		})
		r.Note("resource-pairing/"+fname(fn), "cross-reference only: files opened by the store are reclaimed by finalisers, never closed or synced explicitly", p.Pos(fn.Pos()), fmt.Sprintf("%d open, %d close", opens, closes))
	}
	checkStoreOpensAfterKill(p, r)
}

// storeItemRMW: Store.QueryId result flowing into bh.Update within fn.
func storeItemRMW(fn *ssa.Function) (queries []ssa.CallInstruction, updates []ssa.CallInstruction) {
	qs := core.CallsTo(fn, storagePkg+".Store.QueryId")
	for _, u := range core.CallsTo(fn, bhPkg+".Store.Update") {
		for _, a := range core.CallArgs(u) {
			for _, q := range qs {
				if core.DependsOn(a, func(v ssa.Value) bool {
					if v == q.(ssa.Value) {
						return true
					}
					ex, ok := v.(*ssa.Extract)
					return ok && ex.Tuple == q.(ssa.Value)
				}) {
					queries = append(queries, q)
					updates = append(updates, u)
				}
			}
		}
	}
	return
}

// isPartsMatchCond: the condition is (derived from) the comparison of a stored
// part's coordinates with the pushed part's — the "fragment already stored"
// outcome of the duplicate search.
func isPartsMatchCond(cd core.Cond) bool {
	if !cd.True {
		return false
	}
	return core.DependsOn(cd.V, func(v ssa.Value) bool {
		b, ok := v.(*ssa.BinOp)
		return ok && b.Op == token.EQL && (pathEndsWith(b.X, "FragmentOffset") || pathEndsWith(b.X, "PayloadLength") || pathEndsWith(b.X, "TotalDataLength"))
	}) || isBoolPhiOfConsts(cd.V)
}

func isBoolPhiOfConsts(v ssa.Value) bool {
	phi, ok := v.(*ssa.Phi)
	if !ok {
		return false
	}
	for _, e := range phi.Edges {
		if _, isC := e.(*ssa.Const); !isC {
			return false
		}
	}
	return true
}

// checkWriteErrorsNotDropped: what Push acknowledges must be on disk. On the
// path that writes a part file, the result of every call that can report a
// failed write — Write*, bufio.Writer.Flush, (*os.File).Close / Sync of a
// file opened for writing — is used (returned or tested); a discarded Flush
// error turns "no space left on device" into a successful Push whose part can
// never be loaded, and the duplicate test then refuses to store it again.
func checkWriteErrorsNotDropped(p *core.Program, r *core.Report) {
	n := 0
	for _, fn := range p.RepoFuncs() {
		if fn.Pkg != p.Pkg(storagePkg) {
			continue
		}
		top := topFunc(fn)
		// only functions (and their closures) that write a bundle out
		writes := false
		core.EachInstrDeep(top, func(_ *ssa.Function, in ssa.Instruction) {
			if c, ok := in.(ssa.CallInstruction); ok && core.NameIs(core.CalleeName(c), bp7+".Bundle.WriteBundle") {
				writes = true
			}
		})
		if !writes {
			continue
		}
		core.EachInstr(fn, func(in ssa.Instruction) {
			c, ok := in.(*ssa.Call)
			if !ok {
				return
			}
			name := core.CalleeName(c)
			switch name {
			case "bufio.Writer.Flush", "os.File.Close", "os.File.Sync", "os.File.Write", "bufio.Writer.Write":
			default:
				if !core.NameIs(name, bp7+".Bundle.WriteBundle") {
					return
				}
			}
			n++
			used := false
			if refs := c.Referrers(); refs != nil {
				for _, ref := range *refs {
					if _, isDbg := ref.(*ssa.DebugRef); !isDbg {
						used = true
					}
				}
			}
			r.Check(used, fmt.Sprintf("write-errors/%s/%s", fname(fn), shortName(name)), "on the path that writes a part file, the error of every call that can report a failed write (Write, Flush, Close, Sync) is returned or tested, not discarded", p.Pos(c.Pos()), "", "the result of "+shortName(name)+" is discarded: a failed write (full disk) is acknowledged as stored, the part can never be loaded and a second push of the fragment is refused as a duplicate")
		})
	}
	r.Count("write-side calls on the part-file path", n)
	r.Min("write-side calls on the part-file path", 1)
}

// checkPartFileLocking: see the comment inside.
func checkPartFileLocking(p *core.Program, r *core.Report, mutex string) {
	if mutex == "" {
		mutex = "pkg/storage.Store.mutex"
	}
	// part files are named by a hash of the fragment's ID and length: a fragment pushed again gets the same file.
	// Writing and removing part files therefore belongs to the same exclusive region as the record they belong to
	// (a Delete that unlinks after releasing the lock removes the file a concurrent Push has just written again).
	if mutex != "" {
		nFile := 0
		for _, fn := range p.RepoFuncs() {
			if fn.Pkg != p.Pkg(storagePkg) || fn.Signature.Recv() == nil || !core.TypeIs(fn.Signature.Recv().Type(), storagePkg, "Store") {
				continue
			}
			lsf := core.ComputeLockSets(fn)
			for _, m := range []string{"storeBundle", "deleteBundle"} {
				for _, c := range core.CallsTo(fn, storagePkg+".BundlePart."+m) {
					nFile++
					_, held := lsf.Held(c, mutex, true)
					r.Check(held, fmt.Sprintf("lockset/%s/part-file.%s", fname(fn), m), "part files are written and removed while holding the store mutex, in the region that changes their record", p.Pos(c.Pos()), "", "part file operation without "+mutex+" (held "+lsf.HeldNames(c)+"): it can interleave with a Push/Delete of the same fragment, whose file has the same name")
				}
			}
		}
		r.Count("part-file operations in Store methods", nFile)
		r.Min("part-file operations in Store methods", 4)
	}

}

func loadOfAddr(addr ssa.Value) ssa.Value { return nil }

// isLoadOfSameField: v is a load *(&x.f) and addr is &x.f of the same base and field.
func isLoadOfSameField(v ssa.Value, addr ssa.Value) bool {
	ld, ok := v.(*ssa.UnOp)
	if !ok || ld.Op != token.MUL {
		return false
	}
	fa1, ok1 := ld.X.(*ssa.FieldAddr)
	fa2, ok2 := addr.(*ssa.FieldAddr)
	return ok1 && ok2 && fa1.X == fa2.X && fa1.Field == fa2.Field
}

// partNameDependsOnID: the hashed name is computed from the BundleID parameter (its String(), or the value itself
// handed to a formatting function).
func partNameDependsOnID(bpp *ssa.Function, name ssa.Value) bool {
	return core.DependsOn(name, func(v ssa.Value) bool {
		if v == ssa.Value(bpp.Params[0]) {
			return true
		}
		cc, ok := v.(*ssa.Call)
		return ok && core.NameIs(core.CalleeName(cc), bp7+".BundleID.String")
	})
}

// literalPrefix of a string-valued expression: the constant text it starts with ("" when unknown).
func literalPrefix(v ssa.Value) string {
	v = core.Strip(v)
	switch x := v.(type) {
	case *ssa.Const:
		if x.Value != nil && x.Value.Kind() == constant.String {
			return constant.StringVal(x.Value)
		}
	case *ssa.BinOp:
		if x.Op == token.ADD {
			return literalPrefix(x.X)
		}
	case *ssa.Call:
		if n := core.CalleeName(x); n == "fmt.Sprintf" || n == "fmt.Sprint" {
			f := literalPrefix(core.Arg(x, 0))
			if i := strings.IndexByte(f, '%'); i >= 0 {
				f = f[:i]
			}
			return f
		}
	}
	return ""
}

func partNameKindTagged(name ssa.Value) (bool, string) {
	name = core.Strip(name)
	phi, ok := name.(*ssa.Phi)
	if !ok {
		return false, "one expression names whole bundles and fragments alike"
	}
	var pre []string
	for _, e := range phi.Edges {
		pre = append(pre, literalPrefix(e))
	}
	for i := range pre {
		if pre[i] == "" {
			return false, "a name does not start with literal text"
		}
		for j := range pre {
			if i != j && strings.HasPrefix(pre[i], pre[j]) {
				return false, fmt.Sprintf("prefix %q begins with %q", pre[i], pre[j])
			}
		}
	}
	return len(pre) >= 2, fmt.Sprintf("prefixes %q", pre)
}

// checkStoreOpensAfterKill: badger refuses to open a value log whose last entry is incomplete (a kill within a write)
// unless Options.Truncate is set; the node then does not start and every acknowledged record is out of reach. NewStore
// sets the option (constant true) on the options it hands to badgerhold.Open, before the call.
func checkStoreOpensAfterKill(p *core.Program, r *core.Report) {
	ns := p.Func(storagePkg, "", "NewStore")
	opens := core.CallsTo(ns, bhPkg+".Open")
	r.Min("badgerhold.Open calls in NewStore", 1)
	r.Count("badgerhold.Open calls in NewStore", len(opens))
	for _, oc := range opens {
		ok := false
		core.EachInstr(ns, func(in ssa.Instruction) {
			st, isSt := in.(*ssa.Store)
			if !isSt || !core.IsBoolConst(st.Val, true) {
				return
			}
			fa, isFA := st.Addr.(*ssa.FieldAddr)
			if !isFA {
				return
			}
			if sty := derefStructOf(fa.X.Type()); sty == nil || sty.Field(fa.Field).Name() != "Truncate" {
				return
			}
			if core.MustPassBefore(oc, func(i ssa.Instruction) bool { return i == in }) {
				ok = true
			}
		})
		r.Check(ok, "crash/"+fname(ns)+"/truncate-allowed", "the index database is opened with Options.Truncate = true, so that a write cut short by a kill costs only that unacknowledged entry and not the start of the node", p.Pos(oc.Pos()), "", "Options.Truncate is not set before badgerhold.Open: after a kill within a Push/Update/Delete the store, and with it the node, does not start any more ('Value log truncate required')")
	}
}

// checkFileBeforeIndex (shared by C05 and C08): Push writes a part's file first and its index record only after that
// succeeded, and returns a failed file write to its caller. A record without a file makes the retry of an accepted,
// pending bundle fail for ever (and a second Push of the same bundle is then acknowledged as "known").
func checkFileBeforeIndex(p *core.Program, r *core.Report) {
	push := p.Func(storagePkg, "Store", "Push")
	nIdx := 0
	core.EachInstr(push, func(in ssa.Instruction) {
		c, ok := in.(ssa.CallInstruction)
		if !ok || !(isBhCall(c, "Insert") || isBhCall(c, "Update")) {
			return
		}
		nIdx++
		conds := core.DominatingConds(c.Block())
		okFile := false
		for _, sc := range core.CallsTo(push, storagePkg+".BundlePart.storeBundle") {
			if errNilGuard(conds, sc.(ssa.Value)) && core.MustPassBefore(c, func(i ssa.Instruction) bool { return i == ssa.Instruction(sc) }) {
				okFile = true
			}
		}
		r.Check(okFile, fmt.Sprintf("file-before-index/%s/index-write#%d", fname(push), nIdx), "the index entry is written only after the part file was stored successfully", p.Pos(c.Pos()), "", "index write reachable without a successful storeBundle; "+condStrings(conds))
	})
	r.Min("index writes in Push", 2)
	r.Count("index writes in Push", nIdx)
	for _, sc := range core.CallsTo(push, storagePkg+".BundlePart.storeBundle") {
		// error is returned
		okRet := false
		for _, rv := range core.ReturnValues(push, 0) {
			if rv.V == sc.(ssa.Value) {
				if errNonNilGuard(core.DominatingConds(rv.At.Block()), sc.(ssa.Value)) {
					okRet = true
				}
			}
		}
		r.Check(okRet, "file-before-index/"+fname(push)+"/store-error-returned", "a failed part-file write is returned to the caller", p.Pos(sc.Pos()), "", "storeBundle's error is not returned")
	}
}
