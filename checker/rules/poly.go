package rules

import (
	"dtnverif/core"

	"fmt"
	"go/constant"
	"go/token"
	"math"
	"sort"
	"strings"

	"golang.org/x/tools/go/ssa"
)

// poly is a polynomial over named symbols with float coefficients:
// monomial key = sorted symbol names joined by "*" ("" = constant term).
type poly map[string]float64

func pconst(c float64) poly { return poly{"": c} }
func psym(s string) poly    { return poly{s: 1} }

func (a poly) add(b poly, sign float64) poly {
	out := poly{}
	for k, v := range a {
		out[k] += v
	}
	for k, v := range b {
		out[k] += sign * v
	}
	return out.clean()
}

func (a poly) mul(b poly) poly {
	out := poly{}
	for ka, va := range a {
		for kb, vb := range b {
			var syms []string
			if ka != "" {
				syms = append(syms, strings.Split(ka, "*")...)
			}
			if kb != "" {
				syms = append(syms, strings.Split(kb, "*")...)
			}
			sort.Strings(syms)
			out[strings.Join(syms, "*")] += va * vb
		}
	}
	return out.clean()
}

func (a poly) clean() poly {
	for k, v := range a {
		if v == 0 {
			delete(a, k)
		}
	}
	return a
}

func (a poly) String() string {
	var ks []string
	for k := range a {
		ks = append(ks, k)
	}
	sort.Strings(ks)
	var parts []string
	for _, k := range ks {
		if k == "" {
			parts = append(parts, fmt.Sprintf("%g", a[k]))
		} else {
			parts = append(parts, fmt.Sprintf("%g*%s", a[k], k))
		}
	}
	if len(parts) == 0 {
		return "0"
	}
	return strings.Join(parts, " + ")
}

func (a poly) symbols() []string {
	set := map[string]bool{}
	for k := range a {
		if k == "" {
			continue
		}
		for _, s := range strings.Split(k, "*") {
			set[s] = true
		}
	}
	var out []string
	for s := range set {
		out = append(out, s)
	}
	sort.Strings(out)
	return out
}

func (a poly) degree(sym string) int {
	d := 0
	for k := range a {
		n := 0
		if k != "" {
			for _, s := range strings.Split(k, "*") {
				if s == sym {
					n++
				}
			}
		}
		if n > d {
			d = n
		}
	}
	return d
}

func (a poly) eval(env map[string]float64) float64 {
	t := 0.0
	for k, c := range a {
		m := c
		if k != "" {
			for _, s := range strings.Split(k, "*") {
				m *= env[s]
			}
		}
		t += m
	}
	return t
}

// substitute partially evaluates all symbols in env, leaving the others.
func (a poly) substitute(env map[string]float64) poly {
	out := poly{}
	for k, c := range a {
		m := c
		var rest []string
		if k != "" {
			for _, s := range strings.Split(k, "*") {
				if v, ok := env[s]; ok {
					m *= v
				} else {
					rest = append(rest, s)
				}
			}
		}
		out[strings.Join(rest, "*")] += m
	}
	return out.clean()
}

// rangeOnUnitBox computes the exact range of the polynomial for all symbols
// in [0,1] (real arithmetic). Symbols of degree 1 are taken at the vertices
// (a multi-affine function attains its extrema there); at most one symbol may
// have a higher degree (≤3), for which the univariate extrema are found from
// the derivative's roots at every vertex of the remaining symbols.
func (a poly) rangeOnUnitBox() (lo, hi float64, ok bool, why string) {
	syms := a.symbols()
	var high []string
	var lin []string
	for _, s := range syms {
		if a.degree(s) > 1 {
			high = append(high, s)
		} else {
			lin = append(lin, s)
		}
	}
	if len(high) > 1 {
		return 0, 0, false, "more than one symbol of degree > 1: " + strings.Join(high, ",")
	}
	if len(lin) > 12 {
		return 0, 0, false, "too many symbols"
	}
	lo, hi = math.Inf(1), math.Inf(-1)
	upd := func(v float64) {
		if v < lo {
			lo = v
		}
		if v > hi {
			hi = v
		}
	}
	for mask := 0; mask < 1<<uint(len(lin)); mask++ {
		env := map[string]float64{}
		for i, s := range lin {
			if mask&(1<<uint(i)) != 0 {
				env[s] = 1
			} else {
				env[s] = 0
			}
		}
		if len(high) == 0 {
			upd(a.eval(env))
			continue
		}
		h := high[0]
		u := a.substitute(env)
		d := u.degree(h)
		if d > 3 {
			return 0, 0, false, "degree > 3 in " + h
		}
		coef := make([]float64, 4)
		for k, c := range u {
			n := 0
			if k != "" {
				n = len(strings.Split(k, "*"))
			}
			coef[n] += c
		}
		f := func(x float64) float64 { return coef[0] + x*(coef[1]+x*(coef[2]+x*coef[3])) }
		upd(f(0))
		upd(f(1))
		// derivative: coef[1] + 2 coef[2] x + 3 coef[3] x^2
		A, B, C := 3*coef[3], 2*coef[2], coef[1]
		var roots []float64
		if A == 0 {
			if B != 0 {
				roots = append(roots, -C/B)
			}
		} else if disc := B*B - 4*A*C; disc >= 0 {
			s := math.Sqrt(disc)
			roots = append(roots, (-B+s)/(2*A), (-B-s)/(2*A))
		}
		for _, x := range roots {
			if x > 0 && x < 1 {
				upd(f(x))
			}
		}
	}
	return lo, hi, true, ""
}

// symbolizer turns SSA float expressions into polynomials.
type symbolizer struct {
	sym   func(v ssa.Value) (string, bool) // names a leaf
	leafs map[string]ssa.Value
	subst []map[ssa.Value]ssa.Value // parameter -> argument while a pure helper is inlined
}

// pureHelperResult: c calls a function of the repository whose body is straight-line code returning one value
// (e.g. an extracted `reinforce(p, q float64) float64`); its result expression and the parameter binding.
func pureHelperResult(c *ssa.Call) (ssa.Value, map[ssa.Value]ssa.Value, bool) {
	f := c.Common().StaticCallee()
	if f == nil || !core.IsRepo(f) || len(f.Blocks) != 1 || c.Common().IsInvoke() {
		return nil, nil, false
	}
	ret, ok := f.Blocks[0].Instrs[len(f.Blocks[0].Instrs)-1].(*ssa.Return)
	if !ok || len(ret.Results) != 1 || len(f.Params) != len(c.Common().Args) {
		return nil, nil, false
	}
	for _, in := range f.Blocks[0].Instrs {
		switch in.(type) {
		case *ssa.BinOp, *ssa.UnOp, *ssa.Convert, *ssa.ChangeType, *ssa.Return, *ssa.DebugRef:
		default:
			return nil, nil, false
		}
	}
	m := map[ssa.Value]ssa.Value{}
	for i, par := range f.Params {
		m[par] = c.Common().Args[i]
	}
	return ret.Results[0], m, true
}

func (s *symbolizer) resolveParam(v ssa.Value) (ssa.Value, bool) {
	for i := len(s.subst) - 1; i >= 0; i-- {
		if a, ok := s.subst[i][v]; ok {
			return a, true
		}
	}
	return nil, false
}

func (s *symbolizer) toPoly(v ssa.Value, depth int) (poly, error) {
	if depth > 20 {
		return nil, fmt.Errorf("expression too deep")
	}
	if name, ok := s.sym(v); ok {
		if s.leafs == nil {
			s.leafs = map[string]ssa.Value{}
		}
		s.leafs[name] = v
		return psym(name), nil
	}
	switch x := v.(type) {
	case *ssa.Const:
		if x.Value == nil {
			return nil, fmt.Errorf("nil constant")
		}
		f, _ := constant.Float64Val(constant.ToFloat(x.Value))
		return pconst(f), nil
	case *ssa.BinOp:
		a, err := s.toPoly(x.X, depth+1)
		if err != nil {
			return nil, err
		}
		b, err := s.toPoly(x.Y, depth+1)
		if err != nil {
			return nil, err
		}
		switch x.Op {
		case token.ADD:
			return a.add(b, 1), nil
		case token.SUB:
			return a.add(b, -1), nil
		case token.MUL:
			return a.mul(b), nil
		}
		return nil, fmt.Errorf("operator %s is outside the polynomial fragment", x.Op)
	case *ssa.UnOp:
		if x.Op == token.SUB {
			a, err := s.toPoly(x.X, depth+1)
			if err != nil {
				return nil, err
			}
			return pconst(0).add(a, -1), nil
		}
	case *ssa.Convert:
		return s.toPoly(x.X, depth+1)
	case *ssa.ChangeType:
		return s.toPoly(x.X, depth+1)
	case *ssa.Parameter:
		if a, ok := s.resolveParam(x); ok {
			// the argument belongs to the caller's frame
			saved := s.subst
			s.subst = s.subst[:len(s.subst)-1]
			pl, err := s.toPoly(a, depth+1)
			s.subst = saved
			return pl, err
		}
	case *ssa.Call:
		if res, m, ok := pureHelperResult(x); ok {
			s.subst = append(s.subst, m)
			pl, err := s.toPoly(res, depth+1)
			s.subst = s.subst[:len(s.subst)-1]
			return pl, err
		}
	}
	return nil, fmt.Errorf("value %s (%T) is outside the polynomial fragment", v.Name(), v)
}

// floatForm decides, on the SSA expression itself, whether a float64 update
// is written in a form whose IEEE-754 evaluation is monotone in the required
// direction for operands in [0,1] (every operation rounds monotonically):
//
//	raising:  old + t   with t built from products of values in [0,1] and (1 - x), x in [0,1]  (t >= 0, so fl(old+t) >= old)
//	lowering: old * f   with f in [0,1]                                                         (fl(old*f) <= old)
//
// An algebraically equal form such as 1-(1-old)*(1-q) is NOT monotone in
// floating point: 1-(1-old) already differs from old below 0.5.
type floatForm struct {
	s     *symbolizer
	isOld func(ssa.Value) bool
}

func (ff *floatForm) unwrap(v ssa.Value) (ssa.Value, func()) {
	noop := func() {}
	for i := 0; i < 8; i++ {
		switch x := v.(type) {
		case *ssa.Convert:
			v = x.X
			continue
		case *ssa.ChangeType:
			v = x.X
			continue
		case *ssa.Parameter:
			if a, ok := ff.s.resolveParam(x); ok {
				saved := ff.s.subst
				ff.s.subst = ff.s.subst[:len(ff.s.subst)-1]
				inner, undo := ff.unwrap(a)
				return inner, func() { undo(); ff.s.subst = saved }
			}
		case *ssa.Call:
			if res, m, ok := pureHelperResult(x); ok {
				ff.s.subst = append(ff.s.subst, m)
				inner, undo := ff.unwrap(res)
				return inner, func() { undo(); ff.s.subst = ff.s.subst[:len(ff.s.subst)-1] }
			}
		}
		break
	}
	return v, noop
}

// unit: v evaluates to a value in [0,1] given that leaves are in [0,1].
func (ff *floatForm) unit(v ssa.Value, depth int) bool {
	if depth > 12 {
		return false
	}
	v, undo := ff.unwrap(v)
	defer undo()
	if ff.isOld(v) {
		return true
	}
	if _, ok := ff.s.sym(v); ok {
		return true
	}
	switch x := v.(type) {
	case *ssa.Const:
		if x.Value == nil {
			return false
		}
		f, _ := constant.Float64Val(constant.ToFloat(x.Value))
		return f >= 0 && f <= 1
	case *ssa.BinOp:
		switch x.Op {
		case token.MUL:
			return ff.unit(x.X, depth+1) && ff.unit(x.Y, depth+1)
		case token.SUB:
			// 1 - u with u in [0,1]
			one, undoOne := ff.unwrap(x.X)
			c, isC := one.(*ssa.Const)
			undoOne()
			if isC && c.Value != nil {
				if f, _ := constant.Float64Val(constant.ToFloat(c.Value)); f == 1 {
					return ff.unit(x.Y, depth+1)
				}
			}
		}
	}
	return false
}

func (ff *floatForm) raising(v ssa.Value) bool {
	v, undo := ff.unwrap(v)
	defer undo()
	b, ok := v.(*ssa.BinOp)
	if !ok || b.Op != token.ADD {
		return false
	}
	x, ux := ff.unwrap(b.X)
	okX := ff.isOld(x)
	ux()
	y, uy := ff.unwrap(b.Y)
	okY := ff.isOld(y)
	uy()
	return (okX && ff.unit(b.Y, 0)) || (okY && ff.unit(b.X, 0))
}

func (ff *floatForm) lowering(v ssa.Value) bool {
	v, undo := ff.unwrap(v)
	defer undo()
	b, ok := v.(*ssa.BinOp)
	if !ok || b.Op != token.MUL {
		return false
	}
	x, ux := ff.unwrap(b.X)
	okX := ff.isOld(x)
	ux()
	y, uy := ff.unwrap(b.Y)
	okY := ff.isOld(y)
	uy()
	return (okX && ff.unit(b.Y, 0)) || (okY && ff.unit(b.X, 0))
}
