package rules

import (
	"fmt"
	"go/token"
	"os"
	"strings"

	"dtnverif/core"

	"golang.org/x/tools/go/ssa"
)

func init() { Registry["C03"] = C03 }

const cbor = "github.com/dtn7/cboring"

// crcDecoderRun enumerates the paths of a block decoder for one
// (array length, CRC type) pair and returns them.
type crcPath struct {
	outcome  string // nil / nonnil / maybe
	compared bool   // took the equal edge of bytes.Equal(calculated, transmitted)
	events   []string
}

func crcSummaries(p *core.Program, r *core.Report) {
	// HasCRC() is GetCRCType() != CRCNo and GetCRCType() returns the field — the summary used below
	for _, typ := range []string{"PrimaryBlock", "CanonicalBlock"} {
		has := p.Func(bp7, typ, "HasCRC")
		get := p.Func(bp7, typ, "GetCRCType")
		ok1 := false
		for _, rv := range core.ReturnValues(has, 0) {
			if b, ok := rv.V.(*ssa.BinOp); ok && b.Op == token.NEQ {
				if k, isC := core.ConstInt(b.Y); isC && k == 0 {
					if c, ok := b.X.(*ssa.Call); ok && core.Callee(c) == get {
						ok1 = true
					}
				}
			}
		}
		ok2 := false
		for _, rv := range core.ReturnValues(get, 0) {
			if pathEndsWith(rv.V, "CRCType") {
				ok2 = true
			}
		}
		r.Check(ok1 && ok2, "summary/"+typ+".HasCRC", "HasCRC() is `CRCType != CRCNo` (summary used by the path enumeration)", p.Pos(has.Pos()), "", "HasCRC/GetCRCType changed shape")
	}
}

func isRecvField(v ssa.Value, fn *ssa.Function, field string) bool {
	base, path, ok := core.FieldRef(v)
	if !ok || len(path) != 1 || path[0] != field {
		return false
	}
	if base == ssa.Value(fn.Params[0]) {
		return true
	}
	// value receiver spilled into a local
	if a, isA := base.(*ssa.Alloc); isA && allocHoldsParam(a, fn.Params[0]) {
		return true
	}
	return false
}

func runCRCDecoder(p *core.Program, fn *ssa.Function, typ string, blockLen, crcT int64) ([]crcPath, bool) {
	return runBlockDecoder(p, fn, typ, blockLen, crcT, -1)
}

// runBlockDecoder additionally binds the control flags read from the wire when flags >= 0.
func runBlockDecoder(p *core.Program, fn *ssa.Function, typ string, blockLen, crcT, flags int64) ([]crcPath, bool) {
	var lenVal, crcVal, flagVal ssa.Value
	core.EachInstr(fn, func(in ssa.Instruction) {
		if ex, ok := in.(*ssa.Extract); ok && ex.Index == 0 {
			if c, ok := ex.Tuple.(*ssa.Call); ok && lenVal == nil && core.NameIs(core.CalleeName(c), cbor+".ReadArrayLength") {
				lenVal = ex
			}
		}
		if st, ok := in.(*ssa.Store); ok && isRecvField(st.Addr, fn, "CRCType") {
			if ex, ok := core.Strip(st.Val).(*ssa.Extract); ok {
				crcVal = ex
			}
		}
		if st, ok := in.(*ssa.Store); ok && isRecvField(st.Addr, fn, "BundleControlFlags") {
			if ex, ok := core.Strip(st.Val).(*ssa.Extract); ok {
				flagVal = ex
			}
		}
	})
	if lenVal == nil || crcVal == nil {
		return nil, false
	}
	knownType := func(st *core.PathState) (int64, bool) { return st.Known(crcVal) }
	pe := &core.PathEnum{Fn: fn, Bind: map[ssa.Value]int64{lenVal: blockLen, crcVal: crcT}}
	if flags >= 0 {
		if flagVal == nil {
			return nil, false
		}
		pe.Bind[flagVal] = flags
	}
	pe.EvalCall = func(c *ssa.Call, st *core.PathState) (int64, bool) {
		n := core.CalleeName(c)
		if flags >= 0 && core.NameIs(n, bp7+"."+typ+".HasFragmentation") && st.Data["flagsStored"] != nil {
			return flags & 1, true
		}
		if core.NameIs(n, bp7+"."+typ+".HasCRC") || core.NameIs(n, bp7+"."+typ+".GetCRCType") {
			// only valid once the field has been stored on this path
			if st.Data["crcStored"] == nil {
				return 0, false
			}
			t, ok := knownType(st)
			if !ok {
				return 0, false
			}
			if strings.HasSuffix(n, "HasCRC") {
				if t != 0 {
					return 1, true
				}
				return 0, true
			}
			return t, true
		}
		return 0, false
	}
	pe.OnInstr = func(in ssa.Instruction, st *core.PathState) {
		switch x := in.(type) {
		case *ssa.Store:
			if isRecvField(x.Addr, fn, "CRCType") {
				st.Data["crcStored"] = true
			}
			if isRecvField(x.Addr, fn, "BundleControlFlags") {
				st.Data["flagsStored"] = true
			}
		case *ssa.UnOp:
			if x.Op == token.MUL && isRecvField(x.X, fn, "CRCType") && st.Data["crcStored"] != nil {
				if t, ok := knownType(st); ok {
					st.Env[x] = t
				}
			}
		case *ssa.BinOp:
			// crcErr != nil after calculateCRCBuff(buf, T): non-nil iff T is unknown (CF rule checks calculateCRCBuff)
			if x.Op == token.NEQ || x.Op == token.EQL {
				var other ssa.Value
				if core.IsNilConst(x.Y) {
					other = x.X
				} else if core.IsNilConst(x.X) {
					other = x.Y
				}
				if ex, ok := other.(*ssa.Extract); ok && ex.Index == 1 {
					if c, ok := ex.Tuple.(*ssa.Call); ok && core.NameIs(core.CalleeName(c), bp7+".calculateCRCBuff") {
						if t, ok := st.Known(core.Arg(c, 1)); ok {
							bad := t < 0 || t > 2
							v := int64(0)
							if bad == (x.Op == token.NEQ) {
								v = 1
							}
							st.Env[x] = v
						}
					}
				}
			}
		case *ssa.Call:
			n := shortName(core.CalleeName(x))
			switch {
			case n == "io.TeeReader":
				st.Events = append(st.Events, "TeeReader")
				st.Data["tee"] = x
			case strings.HasPrefix(n, cbor+".Read") || n == cbor+".Unmarshal":
				rd := st.Resolve(core.CallArgs(x)[len(core.CallArgs(x))-1])
				via := "raw"
				if tee, ok := st.Data["tee"].(*ssa.Call); ok && rd == ssa.Value(tee) {
					via = "tee"
				}
				st.Events = append(st.Events, strings.TrimPrefix(n, cbor+".")+"@"+via)
			case n == "pkg/bpv7.ExtensionBlockManager.ReadBlock":
				rd := st.Resolve(core.Arg(x, 1))
				via := "raw"
				if tee, ok := st.Data["tee"].(*ssa.Call); ok && rd == ssa.Value(tee) {
					via = "tee"
				}
				st.Events = append(st.Events, "ReadBlock@"+via)
			case n == cbor+".WriteArrayLength":
				v := "?"
				if k, ok := st.Known(core.Arg(x, 0)); ok {
					v = fmt.Sprint(k)
				}
				st.Events = append(st.Events, "ReplayArrayLength("+v+")")
			case n == "pkg/bpv7.calculateCRCBuff":
				st.Events = append(st.Events, "calculateCRCBuff")
			case n == "pkg/bpv7.checkCRCField":
				rd := st.Resolve(core.Arg(x, 0))
				via := "raw"
				if tee, ok := st.Data["tee"].(*ssa.Call); ok && rd == ssa.Value(tee) {
					via = "tee"
					// the buffer handed over is the one the tee writes into
					if core.Strip(st.Resolve(core.Arg(x, 1))) != core.Strip(st.Resolve(core.Arg(tee, 1))) {
						via = "tee-other-buffer"
					}
				}
				st.Events = append(st.Events, "checkCRCField@"+via)
			}
		}
	}
	pe.Run()
	if pe.Trunc {
		return nil, false
	}
	var out []crcPath
	for _, pr := range pe.Paths {
		cp := crcPath{outcome: pr.ErrOutcome(0), events: pr.State.Events}
		for _, c := range pr.State.Taken {
			if call, ok := core.CondIsCall(c, "bytes.Equal"); ok && c.True {
				a0, a1 := core.Arg(call, 0), core.Arg(call, 1)
				okCalc, okWire := false, false
				for _, a := range []ssa.Value{a0, a1} {
					if ex, ok := a.(*ssa.Extract); ok && ex.Index == 0 {
						if cc, ok := ex.Tuple.(*ssa.Call); ok {
							if core.NameIs(core.CalleeName(cc), bp7+".calculateCRCBuff") {
								okCalc = true
							}
							if core.NameIs(core.CalleeName(cc), cbor+".ReadByteString") {
								okWire = true
							}
						}
					}
				}
				if okCalc && okWire {
					cp.compared = true
				}
			}
		}
		for _, c := range pr.State.Taken {
			if x, isNil, ok := core.NilCmp(c); ok && isNil {
				if ex, ok := x.(*ssa.Extract); ok && ex.Index == 1 {
					if cc, ok := ex.Tuple.(*ssa.Call); ok && core.NameIs(core.CalleeName(cc), bp7+".checkCRCField") {
						cp.compared = true // the helper's own obligations (crc-field-check/...) cover the comparison
					}
				}
			}
		}
		out = append(out, cp)
		if os.Getenv("DTNLINT_DEBUG") != "" {
			fmt.Printf("DEBUG %s len=%d crc=%d outcome=%s compared=%v events=%v taken=%s ret=%s\n", typ, blockLen, crcT, cp.outcome, cp.compared, cp.events, condStrings(pr.State.Taken), p.Pos(pr.Return.Pos()))
		}
	}
	return out, true
}

// C03 — block CRCs per specification, every mismatch rejected.
func C03(p *core.Program, r *core.Report) {
	r.Explanation = "(K1) finite-domain path enumeration of both block decoders for every admissible array length x CRC type in {0,1,2,3,2^32}: a path that can return nil must have taken the equal edge of bytes.Equal(calculated, transmitted) unless the CRC type is 0; unknown CRC types have no accepting path. (K2) on the accepting paths the CRC buffer receives exactly the block: TeeReader (decoder) / MultiWriter (encoder) is installed before the first content read/write, a header read before it is replayed with the same value, every later read goes through the tee, calculateCRCBuff runs before the CRC field is read/written. (CF) the tables are crc16.MakeTable(0x8408) (X-25 with the library's init/xor-out) and crc32.MakeTable(Castagnoli), results are stored big-endian into a zeroed field of 2/4 bytes that was appended to the buffer before the checksum, unknown types are errors. (GC) created primary blocks always carry a CRC and encoders write the freshly computed value. Not decided: the error-detection theorems of the polynomials themselves."
	r.Assumptions = append(r.Assumptions,
		"howeyc/crc16 Checksum with a MakeTable(0x8408) table is CRC-16/X-25; hash/crc32 Castagnoli is CRC-32C",
		"io.TeeReader copies exactly the bytes read; io.MultiWriter duplicates every write",
		"bytes.Equal is byte-wise equality")

	crcSummaries(p, r)

	type dec struct {
		typ     string
		lens    []int64
		withCRC map[int64]bool
	}
	decs := []dec{
		{"PrimaryBlock", []int64{8, 9, 10, 11}, map[int64]bool{9: true, 11: true}},
		{"CanonicalBlock", []int64{5, 6}, map[int64]bool{6: true}},
	}
	nCombos := 0
	for _, d := range decs {
		fn := p.Func(bp7, d.typ, "UnmarshalCbor")
		for _, n := range d.lens {
			for _, t := range []int64{0, 1, 2, 3, 1 << 32} {
				paths, ok := runCRCDecoder(p, fn, d.typ, n, t)
				key := fmt.Sprintf("compare-or-reject/%s/len=%d,crcType=%d", fname(fn), n, t)
				rule := "a block that declares a CRC (type 1 or 2) is accepted only through the equal edge of the comparison of the computed with the transmitted value; unknown CRC types are rejected"
				if !ok {
					r.Unknown(key, rule, p.Pos(fn.Pos()), "decoder shape outside the enumerated idioms (array length / CRC type values not found, or too many paths)")
					continue
				}
				nCombos++
				accepting, unchecked := 0, 0
				for _, cp := range paths {
					if cp.outcome == "nonnil" {
						continue
					}
					accepting++
					if !cp.compared {
						unchecked++
					}
				}
				switch {
				case t == 1 || t == 2:
					r.Check(unchecked == 0, key, rule, p.Pos(fn.Pos()), fmt.Sprintf("%d path(s), %d accepting, all through the comparison", len(paths), accepting),
						fmt.Sprintf("%d of %d accepting path(s) never compare the CRC: a block announcing CRC type %d in an array of %d elements is accepted without any check", unchecked, accepting, t, n))
				case t > 2:
					r.Check(accepting == 0, key, rule, p.Pos(fn.Pos()), fmt.Sprintf("%d path(s), none accepting", len(paths)),
						fmt.Sprintf("%d accepting path(s) for an unknown CRC type (the serialiser refuses such a block, so it cannot be re-encoded)", accepting))
				default:
					r.OK(key, rule, p.Pos(fn.Pos()), fmt.Sprintf("CRC type none: %d path(s), %d accepting", len(paths), accepting))
				}
				// K2 on accepting+compared paths
				if (t == 1 || t == 2) && d.withCRC[n] {
					okOrder := true
					why := ""
					nChecked := 0
					for _, cp := range paths {
						if cp.outcome == "nonnil" || !cp.compared {
							continue
						}
						nChecked++
						if w := crcEventOrder(cp.events, d.typ, n); w != "" {
							okOrder = false
							why = w + " in " + strings.Join(cp.events, " ")
						}
					}
					r.Check(okOrder && nChecked > 0, fmt.Sprintf("crc-covers-block/%s/len=%d,crcType=%d", fname(fn), n, t), "the CRC is computed over exactly the received block: the tee is installed before the array header is read, every read goes through it, the last read is the CRC field handed to checkCRCField together with the tee's buffer", p.Pos(fn.Pos()), fmt.Sprintf("%d accepting path(s) in order", nChecked), why)
				}
			}
		}
	}
	r.Min("decoder (length, CRC type) combinations", 30)
	r.Count("decoder (length, CRC type) combinations", nCombos)

	checkCRCEncoders(p, r)
	// the buffer the CRC is computed over holds this block's bytes only: an object from a pool is reset first
	bpFuncs := map[*ssa.Function]bool{}
	for _, fn := range p.RepoFuncs() {
		if fn.Pkg == p.Pkg(bp7) {
			bpFuncs[fn] = true
		}
	}
	r.Analysed["pooled_objects_in_pkg_bpv7"] = checkPooledObjectsReset(p, r, bpFuncs)
	// "every mismatch is rejected": the rejection of a block reaches the caller of the bundle decoder - no decoder on
	// the way returns nil, or goes on with the next block, after a step of it failed
	for _, fn := range []*ssa.Function{p.Func(bp7, "Bundle", "UnmarshalCbor"), p.Func(bp7, "CanonicalBlock", "UnmarshalCbor"), p.Func(bp7, "PrimaryBlock", "UnmarshalCbor"), p.Func(bp7, "", "checkCRCField"), p.Func(bp7, "", "ParseBundle")} {
		checkErrorsNotSwallowed(p, r, fn, "rejection-propagates/", nil)
	}
	checkCRCConfig(p, r)
	checkCRCFieldHelper(p, r)
	checkCRCCreation(p, r)
}

// checkCRCFieldHelper: the decoders' common last step, checkCRCField(r, buff,
// type). buff holds the block as received up to the CRC field. Necessary for
// "computed over exactly the received bytes with the CRC field zeroed":
// (a) the field's header is read through r (so it is in buff as received) and
// must be a byte string of the type's width; (b) the data handed to the
// checksum is buff's content at that moment followed by emptyCRC(type), and it
// is taken before the transmitted value is read (r copies into buff); (c) the
// checksum uses the table and width of the type and is stored big-endian;
// (d) the transmitted value is read with io.ReadFull from r; (e) success is
// returned only through the equal edge of bytes.Equal(calculated, transmitted).
func checkCRCFieldHelper(p *core.Program, r *core.Report) {
	fn := p.Func(bp7, "", "checkCRCField")
	rd, buf, typ := ssa.Value(fn.Params[0]), ssa.Value(fn.Params[1]), ssa.Value(fn.Params[2])
	base := "crc-field-check/" + fname(fn) + "/"
	var majors, bytesCall, readFull *ssa.Call
	core.EachInstr(fn, func(in ssa.Instruction) {
		c, ok := in.(*ssa.Call)
		if !ok {
			return
		}
		switch n := shortName(core.CalleeName(c)); {
		case n == cbor+".ReadMajors" && core.Arg(c, 0) == rd:
			majors = c
		case n == "bytes.Buffer.Bytes" && core.CallRecv(c) == buf:
			bytesCall = c
		case n == "io.ReadFull" && core.Arg(c, 0) == rd:
			readFull = c
		}
	})
	if majors == nil || bytesCall == nil || readFull == nil {
		r.Fail(base+"shape", "checkCRCField reads the field header from r, takes buff.Bytes() and reads the value with io.ReadFull(r, ...)", p.Pos(fn.Pos()), fmt.Sprintf("ReadMajors(r): %v, buff.Bytes(): %v, io.ReadFull(r): %v", majors != nil, bytesCall != nil, readFull != nil))
		return
	}
	// (a) header: byte string of len(emptyCRC(type)) — both tests dominate the snapshot
	conds := core.DominatingConds(bytesCall.Block())
	okMajor, okLen := false, false
	for _, cd := range conds {
		b, ok := cd.V.(*ssa.BinOp)
		if !ok {
			continue
		}
		eq := (b.Op == token.EQL && cd.True) || (b.Op == token.NEQ && !cd.True)
		if !eq {
			continue
		}
		for _, pair := range [][2]ssa.Value{{b.X, b.Y}, {b.Y, b.X}} {
			ex, isEx := core.Strip(pair[0]).(*ssa.Extract)
			if !isEx || ex.Tuple != ssa.Value(majors) {
				continue
			}
			if k, isC := core.ConstInt(pair[1]); isC && ex.Index == 0 && k == 0x40 {
				okMajor = true
			}
			if ex.Index == 1 && core.DependsOn(pair[1], func(v ssa.Value) bool {
				c, ok := v.(*ssa.Call)
				return ok && core.NameIs(core.CalleeName(c), bp7+".emptyCRC")
			}) {
				okLen = true
			}
		}
	}
	okHdrFirst := core.MustPassBefore(bytesCall, func(i ssa.Instruction) bool { return i == ssa.Instruction(majors) })
	r.Check(okMajor && okLen && okHdrFirst, base+"header-as-received", "the CRC field's header is read through the tee before the buffer is taken (so it is covered as received) and must be a byte string whose length is the width of the CRC type", p.Pos(majors.Pos()), "", fmt.Sprintf("byte-string major tested: %v, length == len(emptyCRC(type)): %v, read before buff.Bytes(): %v", okMajor, okLen, okHdrFirst))
	// (b) snapshot before the value is read, data = snapshot ++ emptyCRC
	okSnap := core.MustPassBefore(readFull, func(i ssa.Instruction) bool { return i == ssa.Instruction(bytesCall) })
	// (c) checksums
	type exp struct {
		k        int64
		checksum string
		table    string
		put      string
	}
	nSum := 0
	for _, e := range []exp{{1, "github.com/howeyc/crc16.Checksum", "crc16table", "PutUint16"}, {2, "hash/crc32.Checksum", "crc32table", "PutUint32"}} {
		ok, detail := false, "checksum call not found"
		// the checksum may be computed in a small unexported helper that is handed the destination, the data and the
		// CRC type: its parameters are read as the arguments of its (only) call in checkCRCField
		type sumSite struct {
			call    ssa.CallInstruction
			at      ssa.Instruction // the instruction of fn that stands for it (the call itself, or the helper's call)
			resolve func(ssa.Value) ssa.Value
		}
		var sites []sumSite
		for _, c := range core.CallsTo(fn, e.checksum) {
			sites = append(sites, sumSite{c, c, func(v ssa.Value) ssa.Value { return v }})
		}
		for _, h := range core.WithHelpers(fn, 12) {
			if h == fn {
				continue
			}
			var hcalls []ssa.CallInstruction
			core.EachInstr(fn, func(in ssa.Instruction) {
				if cc, ok := in.(ssa.CallInstruction); ok && core.Callee(cc) == h {
					hcalls = append(hcalls, cc)
				}
			})
			if len(hcalls) != 1 {
				continue
			}
			hc := hcalls[0]
			res := func(v ssa.Value) ssa.Value {
				if par, ok := v.(*ssa.Parameter); ok {
					for i, q := range h.Params {
						if q == par && i < len(hc.Common().Args) {
							return hc.Common().Args[i]
						}
					}
				}
				return v
			}
			for _, c := range core.CallsTo(h, e.checksum) {
				sites = append(sites, sumSite{c, hc, res})
			}
		}
		for _, site := range sites {
			c := site.call
			nSum++
			args := core.CallArgs(c)
			args = append([]ssa.Value(nil), args...)
			for i := range args {
				args[i] = site.resolve(args[i])
			}
			okT := false
			if tbl, isLoad := args[1].(*ssa.UnOp); isLoad {
				if g, isG := tbl.X.(*ssa.Global); isG && g.Name() == e.table {
					okT = true
				}
			}
			okD := core.DependsOn(args[0], func(v ssa.Value) bool { return v == ssa.Value(bytesCall) }) &&
				core.DependsOn(args[0], func(v ssa.Value) bool {
					cc, ok := v.(*ssa.Call)
					return ok && core.NameIs(core.CalleeName(cc), bp7+".emptyCRC")
				})
			okP := false
			for _, ref := range *c.(*ssa.Call).Referrers() {
				if pc, isC := ref.(*ssa.Call); isC && strings.HasSuffix(core.CalleeName(pc), "bigEndian."+e.put) {
					okP = true
				}
			}
			okK := false
			for _, cd := range core.DominatingConds(c.Block()) {
				if b, isB := cd.V.(*ssa.BinOp); isB && b.Op == token.EQL && cd.True && site.resolve(b.X) == typ {
					if k, isC := core.ConstInt(b.Y); isC && k == e.k {
						okK = true
					}
				}
			}
			okBefore := core.MustPassBefore(readFull, func(i ssa.Instruction) bool { return i == site.at }) || !reaches(site.at, readFull)
			ok = okT && okD && okP && okK
			detail = fmt.Sprintf("table=%v data=buff.Bytes()++emptyCRC=%v big-endian put=%v under type==%d: %v (before the value is read: %v)", okT, okD, okP, e.k, okK, okBefore)
		}
		r.Check(ok && okSnap, fmt.Sprintf("%schecksum/type=%d", base, e.k), "the checksum is taken over the bytes received so far (snapshot of the buffer before the transmitted value is read into it) followed by a zeroed field, with the table and width of the CRC type, and stored big-endian", p.Pos(fn.Pos()), detail, detail+fmt.Sprintf("; snapshot before ReadFull: %v", okSnap))
	}
	// (d)+(e) success only through bytes.Equal(calculated, transmitted)
	okCmp, nNil := true, 0
	for _, rv := range core.ReturnValues(fn, 1) {
		if c, isC := rv.V.(*ssa.Const); !isC || c.Value != nil {
			continue
		}
		nNil++
		g := false
		for _, cd := range core.DominatingConds(rv.At.Block()) {
			call, isCall := core.CondIsCall(cd, "bytes.Equal")
			if !isCall || !cd.True {
				continue
			}
			wire := false
			for _, a := range core.CallArgs(call) {
				if core.SameLoad(a, core.Arg(readFull, 1)) || a == core.Arg(readFull, 1) || core.Strip(a) == core.Strip(core.Arg(readFull, 1)) {
					wire = true
				}
			}
			if wire && core.MustPassBefore(call, func(i ssa.Instruction) bool { return i == ssa.Instruction(readFull) }) {
				g = true
			}
		}
		if !g {
			okCmp = false
		}
	}
	r.Check(okCmp && nNil > 0, base+"accept-only-equal", "checkCRCField returns success only through the equal edge of bytes.Equal(calculated value, value read with io.ReadFull from the stream)", p.Pos(fn.Pos()), "", "a nil error is reachable without the comparison of the transmitted value")
	// the error result of ReadFull is not dropped
	okRF := false
	for _, cd := range allConds(fn) {
		if x, isNil, ok := core.NilCmp(cd); ok && !isNil {
			if ex, isEx := x.(*ssa.Extract); isEx && ex.Tuple == ssa.Value(readFull) && ex.Index == 1 {
				okRF = true
			}
		}
	}
	r.Check(okRF, base+"short-read-is-error", "a CRC field cut short (io.ReadFull error) is an error", p.Pos(readFull.Pos()), "", "io.ReadFull's error is not tested")
	r.Count("checksum calls in checkCRCField", nSum)
	r.Min("checksum calls in checkCRCField", 2)
}

// allConds lists the branch conditions of fn (true edges).
func allConds(fn *ssa.Function) []core.Cond {
	var out []core.Cond
	for _, b := range fn.Blocks {
		if ifi, ok := b.Instrs[len(b.Instrs)-1].(*ssa.If); ok {
			out = append(out, core.Cond{V: ifi.Cond, True: true, If: ifi})
		}
	}
	return out
}

// crcEventOrder validates the event string of an accepting decoder path: the
// tee is installed before anything is read, every read of the block —
// including the array header — goes through it (a header that is read first
// and replayed would be re-encoded in its shortest form, not as received),
// and the last read is the CRC field, checked by checkCRCField on the tee and
// its buffer (checkCRCField keeps the field's header as received and zeroes
// only the value).
func crcEventOrder(ev []string, typ string, n int64) string {
	tee, chk := -1, -1
	for i, e := range ev {
		if e == "TeeReader" && tee < 0 {
			tee = i
		}
		if strings.HasPrefix(e, "checkCRCField") && chk < 0 {
			chk = i
		}
	}
	if tee < 0 {
		return "no TeeReader on the path"
	}
	for _, e := range ev {
		if e == "calculateCRCBuff" {
			return "the decoder recomputes the CRC over a re-encoded CRC field header (calculateCRCBuff writes the shortest form) instead of the header it received"
		}
		if strings.HasPrefix(e, "ReplayArrayLength(") {
			return "the array header is replayed into the CRC buffer in its shortest form instead of being read through the tee as received"
		}
	}
	if chk < 0 {
		return "no checkCRCField on the path"
	}
	if ev[chk] != "checkCRCField@tee" {
		return "checkCRCField is not given the tee reader and the buffer the tee writes into: " + ev[chk]
	}
	for i, e := range ev {
		isRead := strings.HasPrefix(e, "Read") || strings.HasPrefix(e, "Unmarshal")
		if !isRead {
			continue
		}
		if i < tee {
			return "read before the tee is installed: " + e
		}
		if i < chk && !strings.HasSuffix(e, "@tee") {
			return "read bypasses the tee: " + e
		}
		if i > chk {
			return "something is read after the CRC field: " + e
		}
	}
	return ""
}

// checkCRCEncoders: K2/K4 on the encoder side.
func checkCRCEncoders(p *core.Program, r *core.Report) {
	for _, typ := range []string{"PrimaryBlock", "CanonicalBlock"} {
		fn := p.Func(bp7, typ, "MarshalCbor")
		base := "crc-written/" + fname(fn) + "/"
		mw := core.CallsTo(fn, "io.MultiWriter")
		calc := core.CallsTo(fn, bp7+".calculateCRCBuff")
		if len(mw) != 1 || len(calc) != 1 {
			r.Fail(base+"shape", "the encoder tees its output into a CRC buffer and computes the CRC once", p.Pos(fn.Pos()), fmt.Sprintf("%d MultiWriter, %d calculateCRCBuff", len(mw), len(calc)))
			continue
		}
		// every write primitive happens after MultiWriter was set up when the block has a CRC
		var firstWriteBad string
		core.EachInstr(fn, func(in ssa.Instruction) {
			c, ok := in.(*ssa.Call)
			if !ok {
				return
			}
			n := shortName(core.CalleeName(c))
			isWrite := strings.HasPrefix(n, cbor+".Write") || n == cbor+".Marshal" || n == "pkg/bpv7.ExtensionBlockManager.WriteBlock"
			if !isWrite {
				return
			}
			w := core.CallArgs(c)[len(core.CallArgs(c))-1]
			// the writer must be the multiwriter or a phi containing it
			okW := w == ssa.Value(mw[0].(*ssa.Call))
			if phi, isPhi := w.(*ssa.Phi); isPhi {
				for _, e := range phi.Edges {
					if e == ssa.Value(mw[0].(*ssa.Call)) {
						okW = true
					}
				}
			}
			if !okW {
				firstWriteBad = p.Pos(c.Pos()) + " " + n
			}
		})
		r.Check(firstWriteBad == "", base+"all-writes-teed", "every write of the block goes through the MultiWriter that feeds the CRC buffer", p.Pos(mw[0].Pos()), "", "write bypasses the CRC buffer: "+firstWriteBad)
		// MultiWriter includes the crc buffer that calculateCRCBuff reads
		okBuf := false
		for _, a := range core.CallArgs(mw[0]) {
			if core.DependsOn(a, func(v ssa.Value) bool { return v == core.Arg(calc[0], 0) }) {
				okBuf = true
			}
		}
		r.Check(okBuf, base+"same-buffer", "the buffer that is checksummed is the one the block was written into", p.Pos(calc[0].Pos()), "", "calculateCRCBuff reads another buffer")
		// CRC computed under HasCRC and its result is what is written
		conds := core.DominatingConds(calc[0].Block())
		_, g := callGuard(conds, bp7+"."+typ+".HasCRC", true)
		r.Check(g, base+"only-if-declared", "a CRC is computed and written iff the block declares one", p.Pos(calc[0].Pos()), "", "calculateCRCBuff not under HasCRC(); "+condStrings(conds))
		okVal := false
		for _, w := range core.CallsTo(fn, cbor+".WriteByteString") {
			if ex, ok := core.Arg(w, 0).(*ssa.Extract); ok && ex.Tuple == calc[0].(ssa.Value) && ex.Index == 0 {
				okVal = true
				// and it is the last write
				okLast, _ := core.MustPassAfter(w, func(i ssa.Instruction) bool {
					cc, ok := i.(*ssa.Call)
					return ok && (strings.HasPrefix(shortName(core.CalleeName(cc)), cbor+".Write") || core.NameIs(core.CalleeName(cc), cbor+".Marshal"))
				}, core.IsReturn)
				r.Check(!okLast, base+"crc-is-last-field", "nothing is written after the CRC field", p.Pos(w.Pos()), "", "another write follows the CRC field")
			}
		}
		r.Check(okVal, base+"fresh-value", "the serialiser writes the value it just computed (never the cached CRC field)", p.Pos(calc[0].Pos()), "", "WriteByteString does not take calculateCRCBuff's result")
		// the CRC type passed is the block's own
		r.Check(pathEndsWith(core.Arg(calc[0], 1), "CRCType"), base+"own-type", "the CRC is computed for the block's own CRC type", p.Pos(calc[0].Pos()), "", "type argument is not the block's CRCType")
		// announced array length has a CRC slot iff HasCRC (path enumeration over the flag predicates)
		checkAnnouncedLength(p, r, fn, typ)
	}
}

// checkAnnouncedLength enumerates the encoder's paths per (fragment, crc)
// predicate valuation and compares the announced array length with the number
// of fields written.
func checkAnnouncedLength(p *core.Program, r *core.Report, fn *ssa.Function, typ string) {
	frags := []int64{0}
	if typ == "PrimaryBlock" {
		frags = []int64{0, 1}
	}
	for _, frag := range frags {
		for _, crc := range []int64{0, 1} {
			pe := &core.PathEnum{Fn: fn, Bind: map[ssa.Value]int64{}}
			pe.EvalCall = func(c *ssa.Call, st *core.PathState) (int64, bool) {
				n := core.CalleeName(c)
				if core.NameIs(n, bp7+"."+typ+".HasCRC") {
					return crc, true
				}
				if core.NameIs(n, bp7+"."+typ+".HasFragmentation") {
					return frag, true
				}
				return 0, false
			}
			pe.OnInstr = func(in ssa.Instruction, st *core.PathState) {
				c, ok := in.(*ssa.Call)
				if !ok {
					return
				}
				n := shortName(core.CalleeName(c))
				switch {
				case n == cbor+".WriteArrayLength":
					if k, ok := st.Known(core.Arg(c, 0)); ok {
						st.Events = append(st.Events, fmt.Sprintf("A(%d)", k))
					} else {
						st.Events = append(st.Events, "A(?)")
					}
				case strings.HasPrefix(n, cbor+".Write") || n == cbor+".Marshal" || n == "pkg/bpv7.ExtensionBlockManager.WriteBlock":
					st.Events = append(st.Events, "f")
				}
			}
			pe.Run()
			key := fmt.Sprintf("crc-written/%s/announced-length/frag=%d,crc=%d", fname(fn), frag, crc)
			rule := "the announced array length equals the number of elements written, and includes the CRC slot exactly when the block declares a CRC"
			if pe.Trunc {
				r.Unknown(key, rule, p.Pos(fn.Pos()), "too many paths")
				continue
			}
			ok := true
			detail := ""
			nOK := 0
			for _, pr := range pe.Paths {
				if pr.Panics || pr.ErrOutcome(0) == "nonnil" {
					continue
				}
				ev := pr.State.Events
				if len(ev) == 0 || !strings.HasPrefix(ev[0], "A(") || ev[0] == "A(?)" {
					ok = false
					detail = "array length is not a known constant on the path: " + strings.Join(ev, " ")
					continue
				}
				var n int
				fmt.Sscanf(ev[0], "A(%d)", &n)
				if n != len(ev)-1 {
					ok = false
					detail = fmt.Sprintf("announces %d elements, writes %d", n, len(ev)-1)
				}
				nOK++
			}
			r.Check(ok && nOK > 0, key, rule, p.Pos(fn.Pos()), fmt.Sprintf("%d success path(s)", nOK), detail)
		}
	}
}

func checkCRCConfig(p *core.Program, r *core.Report) {
	// tables
	initFn := p.Pkg(bp7).Func("init")
	want := map[string]struct {
		callee string
		poly   int64
	}{
		"crc16table": {"github.com/howeyc/crc16.MakeTable", 0x8408},
		"crc32table": {"hash/crc32.MakeTable", 0x82f63b78},
	}
	found := map[string]bool{}
	core.EachInstr(initFn, func(in ssa.Instruction) {
		st, ok := in.(*ssa.Store)
		if !ok {
			return
		}
		g, ok := st.Addr.(*ssa.Global)
		if !ok {
			return
		}
		w, ok := want[g.Name()]
		if !ok {
			return
		}
		c, ok := st.Val.(*ssa.Call)
		if ok && core.CalleeName(c) == w.callee {
			if k, isC := core.ConstInt(core.Arg(c, 0)); isC && k == w.poly {
				found[g.Name()] = true
			}
		}
	})
	for n := range want {
		r.Check(found[n], "crc-config/tables/"+n, "CRC16 uses the reflected CCITT polynomial 0x8408 (X-25 with the library's init/xor-out), CRC32 uses Castagnoli", p.Pos(initFn.Pos()), "", n+" is not initialised from the expected MakeTable(polynomial)")
	}
	// who writes the tables
	for _, fn := range p.RepoFuncs() {
		core.EachInstr(fn, func(in ssa.Instruction) {
			if st, ok := in.(*ssa.Store); ok {
				if g, ok := st.Addr.(*ssa.Global); ok && (g.Name() == "crc16table" || g.Name() == "crc32table") && fn != initFn {
					r.Fail("crc-config/tables/"+g.Name()+"/who-may-write/"+fname(fn), "the CRC tables are only initialised once", p.Pos(st.Pos()), "table reassigned")
				}
			}
		})
	}
	calc := p.Func(bp7, "", "calculateCRCBuff")
	// per type: checksum call, table, big-endian put of the right width, under crcType == k
	type exp struct {
		k        int64
		checksum string
		table    string
		put      string
	}
	for _, e := range []exp{{1, "github.com/howeyc/crc16.Checksum", "crc16table", "encoding/binary.bigEndian.PutUint16"}, {2, "hash/crc32.Checksum", "crc32table", "encoding/binary.bigEndian.PutUint32"}} {
		ok := false
		detail := ""
		for _, c := range core.CallsTo(calc, e.checksum) {
			args := core.CallArgs(c)
			tbl, isLoad := args[1].(*ssa.UnOp)
			okT := false
			if isLoad {
				if g, isG := tbl.X.(*ssa.Global); isG && g.Name() == e.table {
					okT = true
				}
			}
			// data = buff.Bytes() of the parameter buffer
			okD := false
			if bc, isC := args[0].(*ssa.Call); isC && core.CalleeName(bc) == "bytes.Buffer.Bytes" && core.CallRecv(bc) == ssa.Value(calc.Params[0]) {
				okD = true
			}
			// consumed by big-endian put of matching width, under crcType == k
			okP := false
			for _, ref := range *c.(*ssa.Call).Referrers() {
				if pc, isC := ref.(*ssa.Call); isC && strings.HasSuffix(core.CalleeName(pc), strings.TrimPrefix(e.put, "encoding/binary.")) {
					okP = true
				}
			}
			okK := false
			for _, cd := range core.DominatingConds(c.Block()) {
				if b, isB := cd.V.(*ssa.BinOp); isB && b.Op == token.EQL && cd.True && b.X == ssa.Value(calc.Params[1]) {
					if k, isC := core.ConstInt(b.Y); isC && k == e.k {
						okK = true
					}
				}
			}
			ok = okT && okD && okP && okK
			detail = fmt.Sprintf("table=%v data=buff.Bytes()=%v big-endian put=%v under type==%d: %v", okT, okD, okP, e.k, okK)
		}
		r.Check(ok, fmt.Sprintf("crc-config/%s/type=%d", fname(calc), e.k), "the checksum of the whole buffer is taken with the right table and stored big-endian in a field of the right width, for the matching CRC type", p.Pos(calc.Pos()), detail, detail)
	}
	// zeroed field appended before the checksum: WriteByteString(emptyCRC(type), buff) dominates the checksum calls
	okZero := false
	for _, w := range core.CallsTo(calc, cbor+".WriteByteString") {
		if ex, ok := core.Arg(w, 0).(*ssa.Extract); ok {
			if ec, ok := ex.Tuple.(*ssa.Call); ok && core.NameIs(core.CalleeName(ec), bp7+".emptyCRC") && core.Strip(core.Arg(w, 1)) == ssa.Value(calc.Params[0]) {
				okZero = true
				for _, name := range []string{"github.com/howeyc/crc16.Checksum", "hash/crc32.Checksum"} {
					for _, c := range core.CallsTo(calc, name) {
						if !core.MustPassBefore(c, func(i ssa.Instruction) bool { return i == ssa.Instruction(w) }) {
							okZero = false
						}
					}
				}
			}
		}
	}
	r.Check(okZero, "crc-config/"+fname(calc)+"/zeroed-field", "the CRC is computed over the block with a zeroed CRC field of the right length appended (as a byte string) first", p.Pos(calc.Pos()), "", "emptyCRC is not written to the buffer before the checksum")
	// unknown types are errors in both helpers
	for _, fn := range []*ssa.Function{calc, p.Func(bp7, "", "emptyCRC")} {
		okErr := false
		pe := &core.PathEnum{Fn: fn, Bind: map[ssa.Value]int64{fn.Params[len(fn.Params)-1]: 3}}
		pe.Run()
		nOK := 0
		for _, pr := range pe.Paths {
			if pr.ErrOutcome(1) != "nonnil" {
				nOK++
			}
		}
		okErr = !pe.Trunc && len(pe.Paths) > 0 && nOK == 0
		r.Check(okErr, "crc-config/"+fname(fn)+"/unknown-type-is-error", "an unknown CRC type yields an error", p.Pos(fn.Pos()), "", fmt.Sprintf("%d path(s) return without error for type 3", nOK))
	}
	// emptyCRC lengths
	ec := p.Func(bp7, "", "emptyCRC")
	for _, e := range []struct{ k, n int64 }{{1, 2}, {2, 4}} {
		pe := &core.PathEnum{Fn: ec, Bind: map[ssa.Value]int64{ec.Params[0]: e.k}}
		var sizes []int64
		pe.OnInstr = func(in ssa.Instruction, st *core.PathState) {
			if ms, ok := in.(*ssa.MakeSlice); ok {
				if k, ok := st.Known(ms.Len); ok {
					sizes = append(sizes, k)
				}
			}
			if al, ok := in.(*ssa.Alloc); ok && al.Heap {
				if n, ok := arrayLen(al); ok {
					sizes = append(sizes, n)
				}
			}
		}
		pe.Run()
		ok := len(sizes) == 1 && sizes[0] == e.n
		r.Check(ok, fmt.Sprintf("crc-config/%s/width(type=%d)", fname(ec), e.k), "the CRC field is 2 bytes for CRC16 and 4 bytes for CRC32", p.Pos(ec.Pos()), "", fmt.Sprintf("allocations on the path: %v", sizes))
	}
}

func arrayLen(a *ssa.Alloc) (int64, bool) { return allocArrayLen(a) }

func checkCRCCreation(p *core.Program, r *core.Report) {
	set := p.Func(bp7, "PrimaryBlock", "SetCRCType")
	crc32 := constVal(p, bp7, "CRC32")
	// enumerate with the parameter bound to 0, 1, 2: the stored type is never 0
	for _, k := range []int64{0, 1, 2} {
		pe := &core.PathEnum{Fn: set, Bind: map[ssa.Value]int64{set.Params[1]: k}}
		var stored []int64
		unknown := false
		pe.OnInstr = func(in ssa.Instruction, st *core.PathState) {
			if s, ok := in.(*ssa.Store); ok && isRecvField(s.Addr, set, "CRCType") {
				if v, ok := st.Known(st.Resolve(s.Val)); ok {
					stored = append(stored, v)
				} else if v, ok := st.Known(s.Val); ok {
					stored = append(stored, v)
				} else {
					unknown = true
				}
			}
		}
		pe.Run()
		ok := !unknown && len(stored) > 0
		for _, v := range stored {
			if v == 0 {
				ok = false
			}
		}
		r.Check(ok, fmt.Sprintf("always-crc/%s/arg=%d", fname(set), k), "a primary block never ends up without a CRC: SetCRCType(none) stores a real CRC type", p.Pos(set.Pos()), fmt.Sprint(stored), fmt.Sprintf("stored types %v (unknown=%v)", stored, unknown))
	}
	np := p.Func(bp7, "", "NewPrimaryBlock")
	okNew := false
	core.EachInstr(np, func(in ssa.Instruction) {
		if s, ok := in.(*ssa.Store); ok && core.IsField(s.Addr, bp7, "PrimaryBlock", "CRCType") {
			if v, ok := core.ConstInt(s.Val); ok && v == crc32 {
				okNew = true
			}
		}
	})
	r.Check(okNew, "always-crc/"+fname(np)+"/default", "NewPrimaryBlock creates the block with CRC32", p.Pos(np.Pos()), "", "CRCType is not initialised to CRC32")
	// Builder.Build applies a CRC type to the whole bundle on its success path
	build := p.Func(bp7, "BundleBuilder", "Build")
	okB := len(core.CallsTo(build, bp7+".Bundle.SetCRCType")) > 0
	r.Check(okB, "always-crc/"+fname(build)+"/applies-crc", "the builder applies its CRC type to all blocks (the primary block then cannot be CRC-less, see SetCRCType)", p.Pos(build.Pos()), "", "Build no longer calls Bundle.SetCRCType")
	// who else writes PrimaryBlock.CRCType
	allowed := map[string]bool{"pkg/bpv7.PrimaryBlock.SetCRCType": true, "pkg/bpv7.NewPrimaryBlock": true, "pkg/bpv7.PrimaryBlock.UnmarshalCbor": true}
	for _, fn := range p.RepoFuncs() {
		core.EachInstr(fn, func(in ssa.Instruction) {
			if s, ok := in.(*ssa.Store); ok && core.IsField(s.Addr, bp7, "PrimaryBlock", "CRCType") {
				if !p.DaemonReachable()[fn] && !allowed[fname(fn)] {
					return
				}
				r.Check(allowed[fname(fn)], "always-crc/who-may-write/"+fname(fn), "PrimaryBlock.CRCType is written only by the constructor, SetCRCType and the decoder", p.Pos(s.Pos()), "", "unexpected writer")
			}
		})
	}
}
