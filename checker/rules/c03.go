package rules

import (
	"fmt"
	"os"
	"go/token"
	"strings"

	"dtnverif/core"

	"golang.org/x/tools/go/ssa"
)

func init() { Registry["C03"] = C03 }

const cbor = "github.com/dtn7/cboring"

// crcDecoderRun enumerates the paths of a block decoder for one
// (array length, CRC type) pair and returns them.
type crcPath struct {
	outcome  string // nil / nonnil / maybe
	compared bool   // took the equal edge of bytes.Equal(calculated, transmitted)
	events   []string
}

func crcSummaries(p *core.Program, r *core.Report) {
	// HasCRC() is GetCRCType() != CRCNo and GetCRCType() returns the field — the summary used below
	for _, typ := range []string{"PrimaryBlock", "CanonicalBlock"} {
		has := p.Func(bp7, typ, "HasCRC")
		get := p.Func(bp7, typ, "GetCRCType")
		ok1 := false
		for _, rv := range core.ReturnValues(has, 0) {
			if b, ok := rv.V.(*ssa.BinOp); ok && b.Op == token.NEQ {
				if k, isC := core.ConstInt(b.Y); isC && k == 0 {
					if c, ok := b.X.(*ssa.Call); ok && core.Callee(c) == get {
						ok1 = true
					}
				}
			}
		}
		ok2 := false
		for _, rv := range core.ReturnValues(get, 0) {
			if pathEndsWith(rv.V, "CRCType") {
				ok2 = true
			}
		}
		r.Check(ok1 && ok2, "summary/"+typ+".HasCRC", "HasCRC() is `CRCType != CRCNo` (summary used by the path enumeration)", p.Pos(has.Pos()), "", "HasCRC/GetCRCType changed shape")
	}
}

func isRecvField(v ssa.Value, fn *ssa.Function, field string) bool {
	base, path, ok := core.FieldRef(v)
	if !ok || len(path) != 1 || path[0] != field {
		return false
	}
	if base == ssa.Value(fn.Params[0]) {
		return true
	}
	// value receiver spilled into a local
	if a, isA := base.(*ssa.Alloc); isA && allocHoldsParam(a, fn.Params[0]) {
		return true
	}
	return false
}

func runCRCDecoder(p *core.Program, fn *ssa.Function, typ string, blockLen, crcT int64) ([]crcPath, bool) {
	return runBlockDecoder(p, fn, typ, blockLen, crcT, -1)
}

// runBlockDecoder additionally binds the control flags read from the wire when flags >= 0.
func runBlockDecoder(p *core.Program, fn *ssa.Function, typ string, blockLen, crcT, flags int64) ([]crcPath, bool) {
	var lenVal, crcVal, flagVal ssa.Value
	core.EachInstr(fn, func(in ssa.Instruction) {
		if ex, ok := in.(*ssa.Extract); ok && ex.Index == 0 {
			if c, ok := ex.Tuple.(*ssa.Call); ok && lenVal == nil && core.NameIs(core.CalleeName(c), cbor+".ReadArrayLength") {
				lenVal = ex
			}
		}
		if st, ok := in.(*ssa.Store); ok && isRecvField(st.Addr, fn, "CRCType") {
			if ex, ok := core.Strip(st.Val).(*ssa.Extract); ok {
				crcVal = ex
			}
		}
		if st, ok := in.(*ssa.Store); ok && isRecvField(st.Addr, fn, "BundleControlFlags") {
			if ex, ok := core.Strip(st.Val).(*ssa.Extract); ok {
				flagVal = ex
			}
		}
	})
	if lenVal == nil || crcVal == nil {
		return nil, false
	}
	knownType := func(st *core.PathState) (int64, bool) { return st.Known(crcVal) }
	pe := &core.PathEnum{Fn: fn, Bind: map[ssa.Value]int64{lenVal: blockLen, crcVal: crcT}}
	if flags >= 0 {
		if flagVal == nil {
			return nil, false
		}
		pe.Bind[flagVal] = flags
	}
	pe.EvalCall = func(c *ssa.Call, st *core.PathState) (int64, bool) {
		n := core.CalleeName(c)
		if flags >= 0 && core.NameIs(n, bp7+"."+typ+".HasFragmentation") && st.Data["flagsStored"] != nil {
			return flags & 1, true
		}
		if core.NameIs(n, bp7+"."+typ+".HasCRC") || core.NameIs(n, bp7+"."+typ+".GetCRCType") {
			// only valid once the field has been stored on this path
			if st.Data["crcStored"] == nil {
				return 0, false
			}
			t, ok := knownType(st)
			if !ok {
				return 0, false
			}
			if strings.HasSuffix(n, "HasCRC") {
				if t != 0 {
					return 1, true
				}
				return 0, true
			}
			return t, true
		}
		return 0, false
	}
	pe.OnInstr = func(in ssa.Instruction, st *core.PathState) {
		switch x := in.(type) {
		case *ssa.Store:
			if isRecvField(x.Addr, fn, "CRCType") {
				st.Data["crcStored"] = true
			}
			if isRecvField(x.Addr, fn, "BundleControlFlags") {
				st.Data["flagsStored"] = true
			}
		case *ssa.UnOp:
			if x.Op == token.MUL && isRecvField(x.X, fn, "CRCType") && st.Data["crcStored"] != nil {
				if t, ok := knownType(st); ok {
					st.Env[x] = t
				}
			}
		case *ssa.BinOp:
			// crcErr != nil after calculateCRCBuff(buf, T): non-nil iff T is unknown (CF rule checks calculateCRCBuff)
			if x.Op == token.NEQ || x.Op == token.EQL {
				var other ssa.Value
				if core.IsNilConst(x.Y) {
					other = x.X
				} else if core.IsNilConst(x.X) {
					other = x.Y
				}
				if ex, ok := other.(*ssa.Extract); ok && ex.Index == 1 {
					if c, ok := ex.Tuple.(*ssa.Call); ok && core.NameIs(core.CalleeName(c), bp7+".calculateCRCBuff") {
						if t, ok := st.Known(core.Arg(c, 1)); ok {
							bad := t < 0 || t > 2
							v := int64(0)
							if bad == (x.Op == token.NEQ) {
								v = 1
							}
							st.Env[x] = v
						}
					}
				}
			}
		case *ssa.Call:
			n := shortName(core.CalleeName(x))
			switch {
			case n == "io.TeeReader":
				st.Events = append(st.Events, "TeeReader")
				st.Data["tee"] = x
			case strings.HasPrefix(n, cbor+".Read") || n == cbor+".Unmarshal":
				rd := st.Resolve(core.CallArgs(x)[len(core.CallArgs(x))-1])
				via := "raw"
				if tee, ok := st.Data["tee"].(*ssa.Call); ok && rd == ssa.Value(tee) {
					via = "tee"
				}
				st.Events = append(st.Events, strings.TrimPrefix(n, cbor+".")+"@"+via)
			case n == "pkg/bpv7.ExtensionBlockManager.ReadBlock":
				rd := st.Resolve(core.Arg(x, 1))
				via := "raw"
				if tee, ok := st.Data["tee"].(*ssa.Call); ok && rd == ssa.Value(tee) {
					via = "tee"
				}
				st.Events = append(st.Events, "ReadBlock@"+via)
			case n == cbor+".WriteArrayLength":
				v := "?"
				if k, ok := st.Known(core.Arg(x, 0)); ok {
					v = fmt.Sprint(k)
				}
				st.Events = append(st.Events, "ReplayArrayLength("+v+")")
			case n == "pkg/bpv7.calculateCRCBuff":
				st.Events = append(st.Events, "calculateCRCBuff")
			}
		}
	}
	pe.Run()
	if pe.Trunc {
		return nil, false
	}
	var out []crcPath
	for _, pr := range pe.Paths {
		cp := crcPath{outcome: pr.ErrOutcome(0), events: pr.State.Events}
		for _, c := range pr.State.Taken {
			if call, ok := core.CondIsCall(c, "bytes.Equal"); ok && c.True {
				a0, a1 := core.Arg(call, 0), core.Arg(call, 1)
				okCalc, okWire := false, false
				for _, a := range []ssa.Value{a0, a1} {
					if ex, ok := a.(*ssa.Extract); ok && ex.Index == 0 {
						if cc, ok := ex.Tuple.(*ssa.Call); ok {
							if core.NameIs(core.CalleeName(cc), bp7+".calculateCRCBuff") {
								okCalc = true
							}
							if core.NameIs(core.CalleeName(cc), cbor+".ReadByteString") {
								okWire = true
							}
						}
					}
				}
				if okCalc && okWire {
					cp.compared = true
				}
			}
		}
		out = append(out, cp)
		if os.Getenv("DTNLINT_DEBUG") != "" {
			fmt.Printf("DEBUG %s len=%d crc=%d outcome=%s compared=%v events=%v taken=%s ret=%s\n", typ, blockLen, crcT, cp.outcome, cp.compared, cp.events, condStrings(pr.State.Taken), p.Pos(pr.Return.Pos()))
		}
	}
	return out, true
}

// C03 — block CRCs per specification, every mismatch rejected.
func C03(p *core.Program, r *core.Report) {
	r.Explanation = "(K1) finite-domain path enumeration of both block decoders for every admissible array length x CRC type in {0,1,2,3,2^32}: a path that can return nil must have taken the equal edge of bytes.Equal(calculated, transmitted) unless the CRC type is 0; unknown CRC types have no accepting path. (K2) on the accepting paths the CRC buffer receives exactly the block: TeeReader (decoder) / MultiWriter (encoder) is installed before the first content read/write, a header read before it is replayed with the same value, every later read goes through the tee, calculateCRCBuff runs before the CRC field is read/written. (CF) the tables are crc16.MakeTable(0x8408) (X-25 with the library's init/xor-out) and crc32.MakeTable(Castagnoli), results are stored big-endian into a zeroed field of 2/4 bytes that was appended to the buffer before the checksum, unknown types are errors. (GC) created primary blocks always carry a CRC and encoders write the freshly computed value. Not decided: the error-detection theorems of the polynomials themselves."
	r.Assumptions = append(r.Assumptions,
		"howeyc/crc16 Checksum with a MakeTable(0x8408) table is CRC-16/X-25; hash/crc32 Castagnoli is CRC-32C",
		"io.TeeReader copies exactly the bytes read; io.MultiWriter duplicates every write",
		"bytes.Equal is byte-wise equality")

	crcSummaries(p, r)

	type dec struct {
		typ     string
		lens    []int64
		withCRC map[int64]bool
	}
	decs := []dec{
		{"PrimaryBlock", []int64{8, 9, 10, 11}, map[int64]bool{9: true, 11: true}},
		{"CanonicalBlock", []int64{5, 6}, map[int64]bool{6: true}},
	}
	nCombos := 0
	for _, d := range decs {
		fn := p.Func(bp7, d.typ, "UnmarshalCbor")
		for _, n := range d.lens {
			for _, t := range []int64{0, 1, 2, 3, 1 << 32} {
				paths, ok := runCRCDecoder(p, fn, d.typ, n, t)
				key := fmt.Sprintf("compare-or-reject/%s/len=%d,crcType=%d", fname(fn), n, t)
				rule := "a block that declares a CRC (type 1 or 2) is accepted only through the equal edge of the comparison of the computed with the transmitted value; unknown CRC types are rejected"
				if !ok {
					r.Unknown(key, rule, p.Pos(fn.Pos()), "decoder shape outside the enumerated idioms (array length / CRC type values not found, or too many paths)")
					continue
				}
				nCombos++
				accepting, unchecked := 0, 0
				for _, cp := range paths {
					if cp.outcome == "nonnil" {
						continue
					}
					accepting++
					if !cp.compared {
						unchecked++
					}
				}
				switch {
				case t == 1 || t == 2:
					r.Check(unchecked == 0, key, rule, p.Pos(fn.Pos()), fmt.Sprintf("%d path(s), %d accepting, all through the comparison", len(paths), accepting),
						fmt.Sprintf("%d of %d accepting path(s) never compare the CRC: a block announcing CRC type %d in an array of %d elements is accepted without any check", unchecked, accepting, t, n))
				case t > 2:
					r.Check(accepting == 0, key, rule, p.Pos(fn.Pos()), fmt.Sprintf("%d path(s), none accepting", len(paths)),
						fmt.Sprintf("%d accepting path(s) for an unknown CRC type (the serialiser refuses such a block, so it cannot be re-encoded)", accepting))
				default:
					r.OK(key, rule, p.Pos(fn.Pos()), fmt.Sprintf("CRC type none: %d path(s), %d accepting", len(paths), accepting))
				}
				// K2 on accepting+compared paths
				if (t == 1 || t == 2) && d.withCRC[n] {
					okOrder := true
					why := ""
					nChecked := 0
					for _, cp := range paths {
						if cp.outcome == "nonnil" || !cp.compared {
							continue
						}
						nChecked++
						if w := crcEventOrder(cp.events, d.typ, n); w != "" {
							okOrder = false
							why = w + " in " + strings.Join(cp.events, " ")
						}
					}
					r.Check(okOrder && nChecked > 0, fmt.Sprintf("crc-covers-block/%s/len=%d,crcType=%d", fname(fn), n, t), "the CRC is computed over exactly the received block: tee installed before the first content read (an earlier header read is replayed with the same value), all later reads through the tee, computation before the CRC field is read", p.Pos(fn.Pos()), fmt.Sprintf("%d accepting path(s) in order", nChecked), why)
				}
			}
		}
	}
	r.Min("decoder (length, CRC type) combinations", 30)
	r.Count("decoder (length, CRC type) combinations", nCombos)

	checkCRCEncoders(p, r)
	checkCRCConfig(p, r)
	checkCRCCreation(p, r)
}

// crcEventOrder validates the event string of an accepting decoder path.
func crcEventOrder(ev []string, typ string, n int64) string {
	tee, calc := -1, -1
	for i, e := range ev {
		if e == "TeeReader" && tee < 0 {
			tee = i
		}
		if e == "calculateCRCBuff" && calc < 0 {
			calc = i
		}
	}
	if tee < 0 {
		return "no TeeReader on the path"
	}
	if calc < 0 {
		return "no calculateCRCBuff on the path"
	}
	replayed := false
	for i, e := range ev {
		isRead := strings.HasPrefix(e, "Read") || strings.HasPrefix(e, "Unmarshal")
		if i < tee {
			if strings.HasPrefix(e, "ReplayArrayLength(") {
				replayed = e == fmt.Sprintf("ReplayArrayLength(%d)", n)
				continue
			}
			if isRead && !strings.HasPrefix(e, "ReadArrayLength") {
				return "content read before the tee: " + e
			}
		}
		if i > tee && i < calc && isRead && !strings.HasSuffix(e, "@tee") {
			return "read bypasses the tee: " + e
		}
	}
	// a header read before the tee must have been replayed
	for i, e := range ev {
		if i < tee && strings.HasPrefix(e, "ReadArrayLength") && !replayed {
			return "array header read before the tee is not replayed into the CRC buffer with the same value"
		}
	}
	// after calculateCRCBuff the next read is the CRC byte string
	for i := calc + 1; i < len(ev); i++ {
		if strings.HasPrefix(ev[i], "Read") {
			if !strings.HasPrefix(ev[i], "ReadByteString") {
				return "the CRC field is not the first thing read after the computation"
			}
			break
		}
	}
	return ""
}

// checkCRCEncoders: K2/K4 on the encoder side.
func checkCRCEncoders(p *core.Program, r *core.Report) {
	for _, typ := range []string{"PrimaryBlock", "CanonicalBlock"} {
		fn := p.Func(bp7, typ, "MarshalCbor")
		base := "crc-written/" + fname(fn) + "/"
		mw := core.CallsTo(fn, "io.MultiWriter")
		calc := core.CallsTo(fn, bp7+".calculateCRCBuff")
		if len(mw) != 1 || len(calc) != 1 {
			r.Fail(base+"shape", "the encoder tees its output into a CRC buffer and computes the CRC once", p.Pos(fn.Pos()), fmt.Sprintf("%d MultiWriter, %d calculateCRCBuff", len(mw), len(calc)))
			continue
		}
		// every write primitive happens after MultiWriter was set up when the block has a CRC
		var firstWriteBad string
		core.EachInstr(fn, func(in ssa.Instruction) {
			c, ok := in.(*ssa.Call)
			if !ok {
				return
			}
			n := shortName(core.CalleeName(c))
			isWrite := strings.HasPrefix(n, cbor+".Write") || n == cbor+".Marshal" || n == "pkg/bpv7.ExtensionBlockManager.WriteBlock"
			if !isWrite {
				return
			}
			w := core.CallArgs(c)[len(core.CallArgs(c))-1]
			// the writer must be the multiwriter or a phi containing it
			okW := w == ssa.Value(mw[0].(*ssa.Call))
			if phi, isPhi := w.(*ssa.Phi); isPhi {
				for _, e := range phi.Edges {
					if e == ssa.Value(mw[0].(*ssa.Call)) {
						okW = true
					}
				}
			}
			if !okW {
				firstWriteBad = p.Pos(c.Pos()) + " " + n
			}
		})
		r.Check(firstWriteBad == "", base+"all-writes-teed", "every write of the block goes through the MultiWriter that feeds the CRC buffer", p.Pos(mw[0].Pos()), "", "write bypasses the CRC buffer: "+firstWriteBad)
		// MultiWriter includes the crc buffer that calculateCRCBuff reads
		okBuf := false
		for _, a := range core.CallArgs(mw[0]) {
			if core.DependsOn(a, func(v ssa.Value) bool { return v == core.Arg(calc[0], 0) }) {
				okBuf = true
			}
		}
		r.Check(okBuf, base+"same-buffer", "the buffer that is checksummed is the one the block was written into", p.Pos(calc[0].Pos()), "", "calculateCRCBuff reads another buffer")
		// CRC computed under HasCRC and its result is what is written
		conds := core.DominatingConds(calc[0].Block())
		_, g := callGuard(conds, bp7+"."+typ+".HasCRC", true)
		r.Check(g, base+"only-if-declared", "a CRC is computed and written iff the block declares one", p.Pos(calc[0].Pos()), "", "calculateCRCBuff not under HasCRC(); "+condStrings(conds))
		okVal := false
		for _, w := range core.CallsTo(fn, cbor+".WriteByteString") {
			if ex, ok := core.Arg(w, 0).(*ssa.Extract); ok && ex.Tuple == calc[0].(ssa.Value) && ex.Index == 0 {
				okVal = true
				// and it is the last write
				okLast, _ := core.MustPassAfter(w, func(i ssa.Instruction) bool {
					cc, ok := i.(*ssa.Call)
					return ok && (strings.HasPrefix(shortName(core.CalleeName(cc)), cbor+".Write") || core.NameIs(core.CalleeName(cc), cbor+".Marshal"))
				}, core.IsReturn)
				r.Check(!okLast, base+"crc-is-last-field", "nothing is written after the CRC field", p.Pos(w.Pos()), "", "another write follows the CRC field")
			}
		}
		r.Check(okVal, base+"fresh-value", "the serialiser writes the value it just computed (never the cached CRC field)", p.Pos(calc[0].Pos()), "", "WriteByteString does not take calculateCRCBuff's result")
		// the CRC type passed is the block's own
		r.Check(pathEndsWith(core.Arg(calc[0], 1), "CRCType"), base+"own-type", "the CRC is computed for the block's own CRC type", p.Pos(calc[0].Pos()), "", "type argument is not the block's CRCType")
		// announced array length has a CRC slot iff HasCRC (path enumeration over the flag predicates)
		checkAnnouncedLength(p, r, fn, typ)
	}
}

// checkAnnouncedLength enumerates the encoder's paths per (fragment, crc)
// predicate valuation and compares the announced array length with the number
// of fields written.
func checkAnnouncedLength(p *core.Program, r *core.Report, fn *ssa.Function, typ string) {
	frags := []int64{0}
	if typ == "PrimaryBlock" {
		frags = []int64{0, 1}
	}
	for _, frag := range frags {
		for _, crc := range []int64{0, 1} {
			pe := &core.PathEnum{Fn: fn, Bind: map[ssa.Value]int64{}}
			pe.EvalCall = func(c *ssa.Call, st *core.PathState) (int64, bool) {
				n := core.CalleeName(c)
				if core.NameIs(n, bp7+"."+typ+".HasCRC") {
					return crc, true
				}
				if core.NameIs(n, bp7+"."+typ+".HasFragmentation") {
					return frag, true
				}
				return 0, false
			}
			pe.OnInstr = func(in ssa.Instruction, st *core.PathState) {
				c, ok := in.(*ssa.Call)
				if !ok {
					return
				}
				n := shortName(core.CalleeName(c))
				switch {
				case n == cbor+".WriteArrayLength":
					if k, ok := st.Known(core.Arg(c, 0)); ok {
						st.Events = append(st.Events, fmt.Sprintf("A(%d)", k))
					} else {
						st.Events = append(st.Events, "A(?)")
					}
				case strings.HasPrefix(n, cbor+".Write") || n == cbor+".Marshal" || n == "pkg/bpv7.ExtensionBlockManager.WriteBlock":
					st.Events = append(st.Events, "f")
				}
			}
			pe.Run()
			key := fmt.Sprintf("crc-written/%s/announced-length/frag=%d,crc=%d", fname(fn), frag, crc)
			rule := "the announced array length equals the number of elements written, and includes the CRC slot exactly when the block declares a CRC"
			if pe.Trunc {
				r.Unknown(key, rule, p.Pos(fn.Pos()), "too many paths")
				continue
			}
			ok := true
			detail := ""
			nOK := 0
			for _, pr := range pe.Paths {
				if pr.Panics || pr.ErrOutcome(0) == "nonnil" {
					continue
				}
				ev := pr.State.Events
				if len(ev) == 0 || !strings.HasPrefix(ev[0], "A(") || ev[0] == "A(?)" {
					ok = false
					detail = "array length is not a known constant on the path: " + strings.Join(ev, " ")
					continue
				}
				var n int
				fmt.Sscanf(ev[0], "A(%d)", &n)
				if n != len(ev)-1 {
					ok = false
					detail = fmt.Sprintf("announces %d elements, writes %d", n, len(ev)-1)
				}
				nOK++
			}
			r.Check(ok && nOK > 0, key, rule, p.Pos(fn.Pos()), fmt.Sprintf("%d success path(s)", nOK), detail)
		}
	}
}

func checkCRCConfig(p *core.Program, r *core.Report) {
	// tables
	initFn := p.Pkg(bp7).Func("init")
	want := map[string]struct {
		callee string
		poly   int64
	}{
		"crc16table": {"github.com/howeyc/crc16.MakeTable", 0x8408},
		"crc32table": {"hash/crc32.MakeTable", 0x82f63b78},
	}
	found := map[string]bool{}
	core.EachInstr(initFn, func(in ssa.Instruction) {
		st, ok := in.(*ssa.Store)
		if !ok {
			return
		}
		g, ok := st.Addr.(*ssa.Global)
		if !ok {
			return
		}
		w, ok := want[g.Name()]
		if !ok {
			return
		}
		c, ok := st.Val.(*ssa.Call)
		if ok && core.CalleeName(c) == w.callee {
			if k, isC := core.ConstInt(core.Arg(c, 0)); isC && k == w.poly {
				found[g.Name()] = true
			}
		}
	})
	for n := range want {
		r.Check(found[n], "crc-config/tables/"+n, "CRC16 uses the reflected CCITT polynomial 0x8408 (X-25 with the library's init/xor-out), CRC32 uses Castagnoli", p.Pos(initFn.Pos()), "", n+" is not initialised from the expected MakeTable(polynomial)")
	}
	// who writes the tables
	for _, fn := range p.RepoFuncs() {
		core.EachInstr(fn, func(in ssa.Instruction) {
			if st, ok := in.(*ssa.Store); ok {
				if g, ok := st.Addr.(*ssa.Global); ok && (g.Name() == "crc16table" || g.Name() == "crc32table") && fn != initFn {
					r.Fail("crc-config/tables/"+g.Name()+"/who-may-write/"+fname(fn), "the CRC tables are only initialised once", p.Pos(st.Pos()), "table reassigned")
				}
			}
		})
	}
	calc := p.Func(bp7, "", "calculateCRCBuff")
	// per type: checksum call, table, big-endian put of the right width, under crcType == k
	type exp struct {
		k        int64
		checksum string
		table    string
		put      string
	}
	for _, e := range []exp{{1, "github.com/howeyc/crc16.Checksum", "crc16table", "encoding/binary.bigEndian.PutUint16"}, {2, "hash/crc32.Checksum", "crc32table", "encoding/binary.bigEndian.PutUint32"}} {
		ok := false
		detail := ""
		for _, c := range core.CallsTo(calc, e.checksum) {
			args := core.CallArgs(c)
			tbl, isLoad := args[1].(*ssa.UnOp)
			okT := false
			if isLoad {
				if g, isG := tbl.X.(*ssa.Global); isG && g.Name() == e.table {
					okT = true
				}
			}
			// data = buff.Bytes() of the parameter buffer
			okD := false
			if bc, isC := args[0].(*ssa.Call); isC && core.CalleeName(bc) == "bytes.Buffer.Bytes" && core.CallRecv(bc) == ssa.Value(calc.Params[0]) {
				okD = true
			}
			// consumed by big-endian put of matching width, under crcType == k
			okP := false
			for _, ref := range *c.(*ssa.Call).Referrers() {
				if pc, isC := ref.(*ssa.Call); isC && strings.HasSuffix(core.CalleeName(pc), strings.TrimPrefix(e.put, "encoding/binary.")) {
					okP = true
				}
			}
			okK := false
			for _, cd := range core.DominatingConds(c.Block()) {
				if b, isB := cd.V.(*ssa.BinOp); isB && b.Op == token.EQL && cd.True && b.X == ssa.Value(calc.Params[1]) {
					if k, isC := core.ConstInt(b.Y); isC && k == e.k {
						okK = true
					}
				}
			}
			ok = okT && okD && okP && okK
			detail = fmt.Sprintf("table=%v data=buff.Bytes()=%v big-endian put=%v under type==%d: %v", okT, okD, okP, e.k, okK)
		}
		r.Check(ok, fmt.Sprintf("crc-config/%s/type=%d", fname(calc), e.k), "the checksum of the whole buffer is taken with the right table and stored big-endian in a field of the right width, for the matching CRC type", p.Pos(calc.Pos()), detail, detail)
	}
	// zeroed field appended before the checksum: WriteByteString(emptyCRC(type), buff) dominates the checksum calls
	okZero := false
	for _, w := range core.CallsTo(calc, cbor+".WriteByteString") {
		if ex, ok := core.Arg(w, 0).(*ssa.Extract); ok {
			if ec, ok := ex.Tuple.(*ssa.Call); ok && core.NameIs(core.CalleeName(ec), bp7+".emptyCRC") && core.Strip(core.Arg(w, 1)) == ssa.Value(calc.Params[0]) {
				okZero = true
				for _, name := range []string{"github.com/howeyc/crc16.Checksum", "hash/crc32.Checksum"} {
					for _, c := range core.CallsTo(calc, name) {
						if !core.MustPassBefore(c, func(i ssa.Instruction) bool { return i == ssa.Instruction(w) }) {
							okZero = false
						}
					}
				}
			}
		}
	}
	r.Check(okZero, "crc-config/"+fname(calc)+"/zeroed-field", "the CRC is computed over the block with a zeroed CRC field of the right length appended (as a byte string) first", p.Pos(calc.Pos()), "", "emptyCRC is not written to the buffer before the checksum")
	// unknown types are errors in both helpers
	for _, fn := range []*ssa.Function{calc, p.Func(bp7, "", "emptyCRC")} {
		okErr := false
		pe := &core.PathEnum{Fn: fn, Bind: map[ssa.Value]int64{fn.Params[len(fn.Params)-1]: 3}}
		pe.Run()
		nOK := 0
		for _, pr := range pe.Paths {
			if pr.ErrOutcome(1) != "nonnil" {
				nOK++
			}
		}
		okErr = !pe.Trunc && len(pe.Paths) > 0 && nOK == 0
		r.Check(okErr, "crc-config/"+fname(fn)+"/unknown-type-is-error", "an unknown CRC type yields an error", p.Pos(fn.Pos()), "", fmt.Sprintf("%d path(s) return without error for type 3", nOK))
	}
	// emptyCRC lengths
	ec := p.Func(bp7, "", "emptyCRC")
	for _, e := range []struct{ k, n int64 }{{1, 2}, {2, 4}} {
		pe := &core.PathEnum{Fn: ec, Bind: map[ssa.Value]int64{ec.Params[0]: e.k}}
		var sizes []int64
		pe.OnInstr = func(in ssa.Instruction, st *core.PathState) {
			if ms, ok := in.(*ssa.MakeSlice); ok {
				if k, ok := st.Known(ms.Len); ok {
					sizes = append(sizes, k)
				}
			}
			if al, ok := in.(*ssa.Alloc); ok && al.Heap {
				if n, ok := arrayLen(al); ok {
					sizes = append(sizes, n)
				}
			}
		}
		pe.Run()
		ok := len(sizes) == 1 && sizes[0] == e.n
		r.Check(ok, fmt.Sprintf("crc-config/%s/width(type=%d)", fname(ec), e.k), "the CRC field is 2 bytes for CRC16 and 4 bytes for CRC32", p.Pos(ec.Pos()), "", fmt.Sprintf("allocations on the path: %v", sizes))
	}
}

func arrayLen(a *ssa.Alloc) (int64, bool) { return allocArrayLen(a) }

func checkCRCCreation(p *core.Program, r *core.Report) {
	set := p.Func(bp7, "PrimaryBlock", "SetCRCType")
	crc32 := constVal(p, bp7, "CRC32")
	// enumerate with the parameter bound to 0, 1, 2: the stored type is never 0
	for _, k := range []int64{0, 1, 2} {
		pe := &core.PathEnum{Fn: set, Bind: map[ssa.Value]int64{set.Params[1]: k}}
		var stored []int64
		unknown := false
		pe.OnInstr = func(in ssa.Instruction, st *core.PathState) {
			if s, ok := in.(*ssa.Store); ok && isRecvField(s.Addr, set, "CRCType") {
				if v, ok := st.Known(st.Resolve(s.Val)); ok {
					stored = append(stored, v)
				} else if v, ok := st.Known(s.Val); ok {
					stored = append(stored, v)
				} else {
					unknown = true
				}
			}
		}
		pe.Run()
		ok := !unknown && len(stored) > 0
		for _, v := range stored {
			if v == 0 {
				ok = false
			}
		}
		r.Check(ok, fmt.Sprintf("always-crc/%s/arg=%d", fname(set), k), "a primary block never ends up without a CRC: SetCRCType(none) stores a real CRC type", p.Pos(set.Pos()), fmt.Sprint(stored), fmt.Sprintf("stored types %v (unknown=%v)", stored, unknown))
	}
	np := p.Func(bp7, "", "NewPrimaryBlock")
	okNew := false
	core.EachInstr(np, func(in ssa.Instruction) {
		if s, ok := in.(*ssa.Store); ok && core.IsField(s.Addr, bp7, "PrimaryBlock", "CRCType") {
			if v, ok := core.ConstInt(s.Val); ok && v == crc32 {
				okNew = true
			}
		}
	})
	r.Check(okNew, "always-crc/"+fname(np)+"/default", "NewPrimaryBlock creates the block with CRC32", p.Pos(np.Pos()), "", "CRCType is not initialised to CRC32")
	// Builder.Build applies a CRC type to the whole bundle on its success path
	build := p.Func(bp7, "BundleBuilder", "Build")
	okB := len(core.CallsTo(build, bp7+".Bundle.SetCRCType")) > 0
	r.Check(okB, "always-crc/"+fname(build)+"/applies-crc", "the builder applies its CRC type to all blocks (the primary block then cannot be CRC-less, see SetCRCType)", p.Pos(build.Pos()), "", "Build no longer calls Bundle.SetCRCType")
	// who else writes PrimaryBlock.CRCType
	allowed := map[string]bool{"pkg/bpv7.PrimaryBlock.SetCRCType": true, "pkg/bpv7.NewPrimaryBlock": true, "pkg/bpv7.PrimaryBlock.UnmarshalCbor": true}
	for _, fn := range p.RepoFuncs() {
		core.EachInstr(fn, func(in ssa.Instruction) {
			if s, ok := in.(*ssa.Store); ok && core.IsField(s.Addr, bp7, "PrimaryBlock", "CRCType") {
				if !p.DaemonReachable()[fn] && !allowed[fname(fn)] {
					return
				}
				r.Check(allowed[fname(fn)], "always-crc/who-may-write/"+fname(fn), "PrimaryBlock.CRCType is written only by the constructor, SetCRCType and the decoder", p.Pos(s.Pos()), "", "unexpected writer")
			}
		})
	}
}
