package rules

import (
	"fmt"
	"go/token"
	"go/types"
	"strings"

	"dtnverif/core"

	"golang.org/x/tools/go/ssa"
)

func init() { Registry["C12"] = C12 }

const (
	mtcpPkg = "pkg/cla/mtcp"
	bbcPkg  = "pkg/cla/bbc"
)

// namedErrAlloc returns the spill slot of fn's (last) error result, or nil.
func namedErrAlloc(fn *ssa.Function) *ssa.Alloc {
	return core.ResultSlot(fn, fn.Signature.Results().Len()-1)
}

// C12 — MTCP and broadcast links deliver what was sent or report failure.
func C12(p *core.Program, r *core.Report) {
	r.Explanation = "Order preservation on the TCP stream and behaviour under loss are NOT decided beyond these necessary conditions: (WG) MTCP framing: the client writes a byte-string header carrying the length of the buffer it marshalled the bundle into, then that buffer, flushes, then a zero-length probe header on the raw connection; the server reads a header, skips zero lengths (keep-alive/probe) and parses one bundle from the same reader. (error discipline) every fallible step of MTCPClient.Send stores its error into the named result before returning, the deferred closure reports PeerDisappeared exactly when that result is non-nil, and both defers are registered before the first write. (BBC typestate) the payload of a fragment is appended only after all four checks passed (not finished, transmission id, expected sequence number, no second START) and the sequence state is updated only there; writer and reader advance the sequence number through the same function whose modulus fits the 5-bit header field; a received bundle is reported only under IsFinished() and Bundle()==nil and every error exit emits a failure fragment; the writer sets START from a flag cleared after first use, END iff the rest fits, and cuts payload prefixes of at most mtu-2 bytes. (CF) header bit masks of NewFragment and the accessors agree, are disjoint and cover the byte."
	r.Assumptions = append(r.Assumptions, "bufio.Writer.Flush and net.Conn.Write report a broken connection as an error (operating system / library behaviour)")

	checkMTCP(p, r)
	checkSendsOnClosableChannels(p, r, mtcpPkg)
	checkFieldBuffersReset(p, r, mtcpPkg, bbcPkg)
	r.Analysed["error_returning_functions_checked"] = checkErrorsNotSwallowedIn(p, r, mtcpPkg, bbcPkg)
	checkLoopVarCapture(p, r)
	checkBBC(p, r)
}

func checkMTCP(p *core.Program, r *core.Report) {
	send := p.Func(mtcpPkg, "MTCPClient", "Send")
	errA := namedErrAlloc(send)
	if errA == nil {
		r.Unknown("mtcp/"+fname(send)+"/named-result", "Send uses a named error result observed by its deferred closure", p.Pos(send.Pos()), "named result not found")
		return
	}
	// fallible steps in order
	type step struct {
		name string
		call ssa.CallInstruction
	}
	var steps []step
	core.EachInstr(send, func(in ssa.Instruction) {
		c, ok := in.(*ssa.Call)
		if !ok {
			return
		}
		n := shortName(core.CalleeName(c))
		switch n {
		case cbor + ".Marshal", cbor + ".WriteByteStringLen", "bytes.Buffer.WriteTo", "bufio.Writer.Flush":
			steps = append(steps, step{n, c})
		}
	})
	r.Min("fallible steps in MTCPClient.Send", 5)
	r.Count("fallible steps in MTCPClient.Send", len(steps))
	for i, s := range steps {
		c := s.call.(*ssa.Call)
		// its error value
		var errV ssa.Value = c
		if c.Type().String() != "error" {
			errV = extractOf(c, 1, send)
		}
		// on the != nil edge the value is stored into err and the function returns
		okStore := false
		core.EachInstr(send, func(in ssa.Instruction) {
			st, ok := in.(*ssa.Store)
			if !ok || st.Addr != ssa.Value(errA) || st.Val != errV {
				return
			}
			conds := core.DominatingConds(st.Block())
			for _, cd := range conds {
				x, isNil, ok := core.NilCmp(cd)
				if ok && !isNil && x == errV {
					// followed by return without further steps
					ok2, _ := core.MustPassAfter(st, func(i ssa.Instruction) bool {
						cc, ok := i.(*ssa.Call)
						if !ok {
							return false
						}
						for _, s2 := range steps {
							if s2.call == ssa.CallInstruction(cc) {
								return true
							}
						}
						return false
					}, core.IsReturn)
					okStore = !ok2
				}
			}
		})
		// the step's success is required to go on: next step dominated by errV == nil
		okNext := true
		if i+1 < len(steps) {
			okNext = errNilGuardValue(core.DominatingConds(steps[i+1].call.Block()), errV)
		}
		r.Check(okStore && okNext, fmt.Sprintf("mtcp/%s/step#%d:%s", fname(send), i+1, strings.TrimPrefix(s.name, cbor+".")), "each fallible step's error is stored into the named result and ends the send; the next step runs only after success", p.Pos(c.Pos()), "", fmt.Sprintf("error propagated: %v, next step guarded: %v", okStore, okNext))
	}
	// framing: header length = len of the marshalled buffer; payload = that buffer; probe = 0 on raw conn
	{
		// the roles are identified by callee and argument shape, not by position
		var marshal, hdr, payload, flush, probe ssa.CallInstruction
		for _, s := range steps {
			switch s.name {
			case cbor + ".Marshal":
				marshal = s.call
			case "bytes.Buffer.WriteTo":
				payload = s.call
			case "bufio.Writer.Flush":
				flush = s.call
			case cbor + ".WriteByteStringLen":
				if k, isC := core.ConstInt(core.Arg(s.call, 0)); isC && k == 0 {
					probe = s.call
				} else {
					hdr = s.call
				}
			}
		}
		if marshal == nil || hdr == nil || payload == nil {
			r.Fail("mtcp/"+fname(send)+"/frame", "a frame is a byte-string header announcing exactly the length of the serialised bundle, followed by those bytes", p.Pos(send.Pos()), "marshal / header / payload step not found")
		} else {
			buf := core.Strip(core.Arg(marshal, 1))
			okHdr := false
			if lc, ok := core.Strip(core.Arg(hdr, 0)).(*ssa.Call); ok && core.CalleeName(lc) == "bytes.Buffer.Len" && core.CallRecv(lc) == buf {
				okHdr = true
			}
			okPayload := core.CallRecv(payload) == buf && core.Strip(core.Arg(payload, 0)) == core.Strip(core.Arg(hdr, 1))
			okBundle := core.TypeIs(core.Strip(core.Arg(marshal, 0)).Type(), bp7, "Bundle")
			okOrder := core.MustPassBefore(hdr, func(i ssa.Instruction) bool { return i == marshal.(ssa.Instruction) }) &&
				core.MustPassBefore(payload, func(i ssa.Instruction) bool { return i == hdr.(ssa.Instruction) })
			r.Check(okHdr && okPayload && okBundle && okOrder, "mtcp/"+fname(send)+"/frame", "a frame is a byte-string header announcing exactly the length of the serialised bundle, followed by those bytes", p.Pos(hdr.Pos()), "", fmt.Sprintf("header=len(buffer): %v, payload is that buffer on the same writer: %v, buffer holds the bundle: %v, order marshal<header<payload: %v", okHdr, okPayload, okBundle, okOrder))
		}
		probeRule := "the frame is flushed and then followed by a zero-length probe header written to the unbuffered connection in a write of its own (the first write to a connection the peer has closed succeeds, only the next one fails: the probe is what turns a dead peer into an error of this send)"
		if flush == nil || probe == nil || hdr == nil || payload == nil {
			r.Fail("mtcp/"+fname(send)+"/probe", probeRule, p.Pos(send.Pos()), "flush or probe step not found")
		} else {
			okFlush := core.CallRecv(flush) == core.Strip(core.Arg(hdr, 1)) &&
				core.MustPassBefore(flush, func(i ssa.Instruction) bool { return i == payload.(ssa.Instruction) })
			okProbe := pathEndsWith(core.Strip(core.Arg(probe, 1)), "conn")
			okAfter := core.MustPassBefore(probe, func(i ssa.Instruction) bool { return i == flush.(ssa.Instruction) })
			r.Check(okFlush && okProbe && okAfter, "mtcp/"+fname(send)+"/probe", probeRule, p.Pos(probe.Pos()), "", fmt.Sprintf("flush of the frame writer after the payload: %v, probe written to conn itself: %v, probe after the flush: %v", okFlush, okProbe, okAfter))
		}
	}
	// defers before first write; the reporting closure tests err
	var defers []*ssa.Defer
	core.EachInstr(send, func(in ssa.Instruction) {
		if d, ok := in.(*ssa.Defer); ok {
			defers = append(defers, d)
		}
	})
	okDef := len(defers) >= 2 && len(steps) > 0
	for _, d := range defers {
		if len(steps) > 0 && !core.MustPassBefore(steps[0].call, func(i ssa.Instruction) bool { return i == ssa.Instruction(d) }) {
			okDef = false
		}
	}
	r.Check(okDef, "mtcp/"+fname(send)+"/defers-first", "the deferred failure reporting is registered before the first fallible step", p.Pos(send.Pos()), "", "a step can run before the defers are registered")
	okReport := false
	for _, cl := range send.AnonFuncs {
		core.EachInstr(cl, func(in ssa.Instruction) {
			snd, ok := in.(*ssa.Send)
			if !ok || !pathEndsWith(snd.Chan, "reportChan") {
				return
			}
			mk, ok := core.Strip(snd.X).(*ssa.Call)
			if !ok || !core.NameIs(core.CalleeName(mk), "pkg/cla.NewConvergencePeerDisappeared") {
				return
			}
			for _, cd := range core.DominatingConds(snd.Block()) {
				x, isNil, ok := core.NilCmp(cd)
				if ok && !isNil {
					if ld, ok := x.(*ssa.UnOp); ok {
						if fv, ok := ld.X.(*ssa.FreeVar); ok && core.FreeVarBoundTo(send, cl, fv, errA) {
							okReport = true
						}
					}
				}
			}
		})
	}
	r.Check(okReport, "mtcp/"+fname(send)+"/reports-peer-gone", "a failed send reports the peer as gone: the deferred closure sends PeerDisappeared iff the named result is non-nil", p.Pos(send.Pos()), "", "no PeerDisappeared under err != nil in a deferred closure")

	// server
	hs := p.Func(mtcpPkg, "MTCPServer", "handleSender")
	hdrs := core.CallsTo(hs, cbor+".ReadByteStringLen")
	uns := core.CallsTo(hs, cbor+".Unmarshal")
	if len(hdrs) != 1 || len(uns) != 1 {
		r.Fail("mtcp/"+fname(hs)+"/frame", "the server reads one header and one bundle per frame", p.Pos(hs.Pos()), fmt.Sprintf("%d header reads, %d bundle reads", len(hdrs), len(uns)))
		return
	}
	hdr, un := hdrs[0].(*ssa.Call), uns[0].(*ssa.Call)
	sameReader := core.Strip(core.Arg(hdr, 0)) == core.Strip(core.Arg(un, 1))
	// or: the bundle is parsed from a reader limited to the announced length of the same buffered reader, and what the
	// parser left of the frame is drained before the next header is read (the stream stays aligned whatever the parser
	// consumed, and a bundle the parser refuses does not take the following frames with it)
	bounded := false
	if lr, ok := core.Strip(core.Arg(un, 1)).(*ssa.Call); ok && core.CalleeName(lr) == "io.LimitReader" {
		fromHdr := core.DependsOn(core.Arg(lr, 1), func(v ssa.Value) bool {
			ex, ok := v.(*ssa.Extract)
			return ok && ex.Tuple == ssa.Value(hdr) && ex.Index == 0
		})
		drained, _ := core.MustPassAfter(un, func(i ssa.Instruction) bool {
			c, ok := i.(*ssa.Call)
			if !ok {
				return false
			}
			n := core.CalleeName(c)
			return (n == "io.Copy" || n == "io.CopyN") && core.Strip(core.Arg(c, 1)) == ssa.Value(lr)
		}, func(i ssa.Instruction) bool { return core.IsReturn(i) || i == ssa.Instruction(hdr) })
		if core.Strip(core.Arg(lr, 0)) == core.Strip(core.Arg(hdr, 0)) && fromHdr && drained {
			sameReader, bounded = true, true
		}
	}
	r.Check(bounded, "mtcp/"+fname(hs)+"/frame-bounded", "the server parses a bundle from exactly the bytes the frame header announced and drains what the parser left, so that a bundle its validating parser refuses neither misaligns the stream nor forces the connection to be dropped with the following frames unread", p.Pos(un.Pos()), "", "the parser reads the connection's reader directly: after a refused bundle the position in the stream is unknown, the connection has to be closed and the bundles sent behind it are lost although their Send returned nil")
	if bounded {
		// a refused bundle is skipped: from the parser's failure the loop goes on to the next header
		okSkip := false
		for _, blk := range hs.Blocks {
			ifi, isIf := blk.Instrs[len(blk.Instrs)-1].(*ssa.If)
			if !isIf {
				continue
			}
			x, isNil, ok := core.NilCmp(core.Cond{V: ifi.Cond, True: true})
			if !ok || core.Strip(x) != ssa.Value(un) {
				if ld, isLd := x.(*ssa.UnOp); !ok || !isLd || !storedFrom(ld.X, un) {
					continue
				}
			}
			fail := blk.Succs[0]
			if isNil {
				fail = blk.Succs[1]
			}
			okSkip, _ = core.MustPassAfter(fail.Instrs[0], func(i ssa.Instruction) bool { return i == ssa.Instruction(hdr) }, core.IsReturn)
		}
		r.Check(okSkip, "mtcp/"+fname(hs)+"/skips-unacceptable", "a frame whose bytes are not an acceptable bundle (e.g. lifetime ended by this node's clock) is skipped and the connection keeps serving the frames behind it", p.Pos(un.Pos()), "", "the parser's failure leads to a return: the bundles already sent behind the refused one are lost although their Send returned nil")
	}
	okB := core.TypeIs(core.Strip(core.Arg(un, 0)).Type(), bp7, "Bundle")
	// Unmarshal reached only with header ok and n != 0
	conds := core.DominatingConds(un.Block())
	okErr := errNilGuard(conds, hdr)
	okNZ := false
	for _, cd := range conds {
		if b, ok := cd.V.(*ssa.BinOp); ok {
			if ex, ok := b.X.(*ssa.Extract); ok && ex.Tuple == ssa.Value(hdr) && ex.Index == 0 {
				if k, isC := core.ConstInt(b.Y); isC && k == 0 && ((b.Op == token.EQL && !cd.True) || (b.Op == token.NEQ && cd.True)) {
					okNZ = true
				}
			}
		}
	}
	inLoop := core.InLoop(hdr.Block()) && core.InLoop(un.Block())
	r.Check(sameReader && okB && okErr && okNZ && inLoop, "mtcp/"+fname(hs)+"/frame", "per frame the server reads a header, skips a zero length (keep-alive / probe) and otherwise parses one bundle from the same buffered reader, in a loop", p.Pos(un.Pos()), "", fmt.Sprintf("same reader: %v, bundle: %v, header ok: %v, zero skipped: %v, loop: %v", sameReader, okB, okErr, okNZ, inLoop))
	// report only on successful parse
	nRep := 0
	core.EachInstr(hs, func(in ssa.Instruction) {
		snd, ok := in.(*ssa.Send)
		if !ok || !pathEndsWith(snd.Chan, "reportChan") {
			return
		}
		nRep++
		r.Check(errNilGuard(core.DominatingConds(snd.Block()), un), "mtcp/"+fname(hs)+"/report-after-parse", "a received bundle is reported only if it parsed", p.Pos(snd.Pos()), "", "report not guarded by Unmarshal()==nil")
	})
	r.Min("reports in handleSender", 1)
	r.Count("reports in handleSender", nRep)
}

// errNilGuardValue: conds establish v == nil.
func errNilGuardValue(conds []core.Cond, v ssa.Value) bool {
	for _, c := range conds {
		x, isNil, ok := core.NilCmp(c)
		if ok && isNil && x == v {
			return true
		}
	}
	return false
}

// checkServiceSends: a goroutine started by the adapter's Start (the reader,
// the writer) serves the link for the adapter's whole life. A blocking send
// from such a goroutine on one of the adapter's own channels is acceptable
// only if a permanently running goroutine of the adapter receives from that
// channel, or the channel is handed to the outside (Channel()); a channel
// that is read only on demand (e.g. only while a Send is in progress) fills
// up and blocks the service goroutine for good.
func checkServiceSends(p *core.Program, r *core.Report, pkgRel, typ string) {
	start := p.Func(pkgRel, typ, "Start")
	pkg := p.Pkg(pkgRel)
	service := map[*ssa.Function]bool{}
	var work []*ssa.Function
	core.EachInstr(start, func(in ssa.Instruction) {
		if g, ok := in.(*ssa.Go); ok {
			if f := g.Common().StaticCallee(); f != nil && !service[f] {
				service[f] = true
				work = append(work, f)
			}
		}
	})
	nRoots := len(work)
	for len(work) > 0 {
		f := work[len(work)-1]
		work = work[:len(work)-1]
		visit := func(g *ssa.Function) {
			if g != nil && g.Pkg == pkg && g.Blocks != nil && !service[g] {
				service[g] = true
				work = append(work, g)
			}
		}
		for _, a := range f.AnonFuncs {
			visit(a)
		}
		core.EachInstr(f, func(in ssa.Instruction) {
			if c, ok := in.(ssa.CallInstruction); ok {
				if _, isGo := in.(*ssa.Go); !isGo {
					visit(c.Common().StaticCallee())
				}
			}
		})
	}
	r.Count("service goroutines started by "+typ+".Start", nRoots)
	r.Min("service goroutines started by "+typ+".Start", 1)
	chanField := func(v ssa.Value) string {
		if u, ok := v.(*ssa.UnOp); ok && u.Op == token.MUL {
			if owner, field, ok := core.FieldOwner(u.X); ok && owner.Obj().Name() == typ {
				return field
			}
		}
		return ""
	}
	// who receives from which channel field, who returns it
	recvInService, recvElsewhere, escapes := map[string]bool{}, map[string]bool{}, map[string]bool{}
	for _, fn := range p.RepoFuncs() {
		if fn.Pkg != pkg {
			continue
		}
		core.EachInstr(fn, func(in ssa.Instruction) {
			mark := func(f string) {
				if f == "" {
					return
				}
				if service[fn] {
					recvInService[f] = true
				} else {
					recvElsewhere[f] = true
				}
			}
			switch x := in.(type) {
			case *ssa.UnOp:
				if x.Op == token.ARROW {
					mark(chanField(x.X))
				}
			case *ssa.Select:
				for _, st := range x.States {
					if st.Dir == types.RecvOnly {
						mark(chanField(st.Chan))
					}
				}
			case *ssa.Return:
				for _, res := range x.Results {
					if f := chanField(res); f != "" {
						escapes[f] = true
					}
				}
			}
		})
	}
	n := 0
	for fn := range service {
		core.EachInstr(fn, func(in ssa.Instruction) {
			snd, ok := in.(*ssa.Send)
			if !ok {
				return
			}
			f := chanField(snd.Chan)
			if f == "" {
				return
			}
			n++
			key := fmt.Sprintf("service-never-blocks/%s/%s<-", fname(fn), f)
			rule := "a goroutine serving the link for the adapter's whole life sends blockingly on an own channel only if a permanently running goroutine receives from it (or it is the status channel handed to the manager); a channel that is read only on demand must be fed without blocking (select with default)"
			switch {
			case recvInService[f]:
				r.OK(key, rule, p.Pos(snd.Pos()), "drained by a service goroutine")
			case escapes[f]:
				r.OK(key, rule, p.Pos(snd.Pos()), "status channel handed out by a getter; drained by the cla.Manager")
			default:
				r.Fail(key, rule, p.Pos(snd.Pos()), fmt.Sprintf("%s.%s is received from only on demand (receivers outside the service goroutines: %v): once its buffer is full this goroutine blocks for ever, nothing is received any more and Close waits for it", typ, f, recvElsewhere[f]))
			}
		})
	}
	r.Count("blocking sends in service goroutines of "+typ, n)
}

// checkBBCExpiry — necessary for "if a fragment is lost the receiver signals
// failure": the loss of a fragment is noticed only when a later fragment of
// the same transmission arrives. When the last fragment is the lost one,
// nothing follows; only a timeout can notice it (and free the partial
// transmission, whose ID would make the next transmission with that ID fail).
// Some removal from Connector.transmissions must be driven by time.
func checkBBCExpiry(p *core.Program, r *core.Report) {
	pkg := p.Pkg(bbcPkg)
	timed := map[*ssa.Function]bool{}
	var deleters []*ssa.Function
	nDel := 0
	for _, fn := range p.RepoFuncs() {
		if fn.Pkg != pkg {
			continue
		}
		core.EachInstr(fn, func(in ssa.Instruction) {
			c, ok := in.(*ssa.Call)
			if !ok {
				return
			}
			switch core.CalleeName(c) {
			case "time.After", "time.NewTicker", "time.NewTimer", "time.Since", "time.Tick", "time.AfterFunc":
				timed[topFunc(fn)] = true
			}
			if b, ok := c.Common().Value.(*ssa.Builtin); ok && b.Name() == "delete" && pathEndsWith(c.Common().Args[0], "transmissions") {
				nDel++
				deleters = append(deleters, topFunc(fn))
			}
		})
	}
	ok := false
	for tf := range timed {
		reach := p.Reachable([]*ssa.Function{tf}, func(f *ssa.Function) bool { return f.Pkg == pkg })
		for _, d := range deleters {
			if reach[d] || d == tf {
				ok = true
			}
		}
	}
	r.Count("removals from Connector.transmissions", nDel)
	r.Min("removals from Connector.transmissions", 1)
	conn := p.Func(bbcPkg, "Connector", "handleIncomingFragment")
	r.Check(ok, "bbc/incomplete-transmission-expiry", "an incomplete incoming transmission is given up after some time (a removal from Connector.transmissions is reachable from code driven by a timer): the loss of the last fragment of a train can only be noticed by a timeout", p.Pos(conn.Pos()), "", "entries of Connector.transmissions are removed only when a further fragment of the same transmission arrives (finished or out of sequence): if the last fragment is lost the receiver never broadcasts a failure fragment, the sender's Send has returned nil, the bundle is silently gone and the partial transmission stays for ever")
}

// checkSendsOnClosableChannels: a data channel that the adapter closes when it is stopped (close(x.reportChan))
// can be closed while goroutines that were started earlier (one per accepted connection, a Send in progress) are
// still about to send on it. A send on a closed channel panics; in a goroutine without recover that ends the whole
// process. Every send on such a channel outside the goroutine that closes it must therefore lie in a function whose
// deferred closure calls recover() (the idiom of this repository for per-connection goroutines).
func checkSendsOnClosableChannels(p *core.Program, r *core.Report, pkgRel string) {
	pkg := p.Pkg(pkgRel)
	closedIn := map[string]map[*ssa.Function]bool{}
	var fns []*ssa.Function
	for _, fn := range p.RepoFuncs() {
		if fn.Pkg != pkg {
			continue
		}
		fns = append(fns, fn)
		core.EachInstr(fn, func(in ssa.Instruction) {
			c, ok := in.(*ssa.Call)
			if !ok {
				return
			}
			if b, ok := c.Common().Value.(*ssa.Builtin); ok && b.Name() == "close" && !isSignalChan(c.Common().Args[0]) {
				if f := ownChanField(c.Common().Args[0]); f != "" {
					if closedIn[f] == nil {
						closedIn[f] = map[*ssa.Function]bool{}
					}
					closedIn[f][topFunc(fn)] = true
				}
			}
		})
	}
	hasRecover := func(fn *ssa.Function) bool {
		found := false
		core.EachInstr(fn, func(in ssa.Instruction) {
			d, ok := in.(*ssa.Defer)
			if !ok {
				return
			}
			if mc, ok := d.Call.Value.(*ssa.MakeClosure); ok {
				core.EachInstrDeep(mc.Fn.(*ssa.Function), func(_ *ssa.Function, i2 ssa.Instruction) {
					if c, ok := i2.(*ssa.Call); ok {
						if b, ok := c.Common().Value.(*ssa.Builtin); ok && b.Name() == "recover" {
							found = true
						}
					}
				})
			}
		})
		return found
	}
	n := 0
	for _, fn := range fns {
		core.EachInstr(fn, func(in ssa.Instruction) {
			var ch ssa.Value
			switch x := in.(type) {
			case *ssa.Send:
				ch = x.Chan
			case *ssa.Select:
				for _, st := range x.States {
					if st.Dir == types.SendOnly && ownChanField(st.Chan) != "" && closedIn[ownChanField(st.Chan)] != nil {
						ch = st.Chan
					}
				}
			}
			if ch == nil {
				return
			}
			f := ownChanField(ch)
			if f == "" || closedIn[f] == nil {
				return
			}
			n++
			top := topFunc(fn)
			// the closing goroutine itself (and small helpers only it calls) cannot race with its own close
			sameGoroutine := closedIn[f][top]
			if !sameGoroutine {
				for closer := range closedIn[f] {
					for _, h := range core.WithHelpers(closer, 12) {
						if h == top {
							sameGoroutine = true
						}
					}
				}
			}
			ok := sameGoroutine || hasRecover(top) || (fn != top && hasRecover(fn))
			r.Check(ok, fmt.Sprintf("closable-channel/%s/%s<-", fname(fn), f), "a send on a channel that the adapter closes when it stops happens either in the closing goroutine or in a function whose deferred closure recovers (a connection that outlives Close() must not bring the process down with 'send on closed channel')", p.Pos(in.Pos()), "", "send on "+f+", which "+pkgRel+" closes elsewhere, in a goroutine without recover()")
		})
	}
	r.Count("sends on closable channels in "+pkgRel, n)
}

// checkFieldBuffersReset: a bytes.Buffer that is a field of the adapter lives
// longer than one Send. If an earlier Send failed part-way (connection cut
// while the buffer was being written out), the unsent rest is still in it. A
// method that fills such a buffer must Reset it first, on every path to the
// first write into it; a buffer local to the call needs nothing.
func checkFieldBuffersReset(p *core.Program, r *core.Report, pkgs ...string) {
	n := 0
	for _, rel := range pkgs {
		pkg := p.Pkg(rel)
		for _, fn := range p.RepoFuncs() {
			if fn.Pkg != pkg {
				continue
			}
			// field addresses of type bytes.Buffer (or *bytes.Buffer loads) used in this function
			bufs := map[string][]ssa.Value{}
			core.EachInstr(fn, func(in ssa.Instruction) {
				fa, ok := in.(*ssa.FieldAddr)
				if !ok {
					return
				}
				t := fa.Type().Underlying().(*types.Pointer).Elem()
				isBuf := core.TypeIs(t, "bytes", "Buffer")
				if !isBuf {
					if pt, ok := t.Underlying().(*types.Pointer); ok && core.TypeIs(pt.Elem(), "bytes", "Buffer") {
						isBuf = true
					}
				}
				if !isBuf {
					return
				}
				_, field, _ := core.FieldOwner(fa)
				bufs[field] = append(bufs[field], fa)
			})
			for field, addrs := range bufs {
				derived := map[ssa.Value]bool{}
				for _, a := range addrs {
					derived[a] = true
				}
				for changed := true; changed; {
					changed = false
					core.EachInstr(fn, func(in ssa.Instruction) {
						switch x := in.(type) {
						case *ssa.UnOp:
							if x.Op == token.MUL && derived[x.X] && !derived[x] {
								if _, isPtr := x.Type().Underlying().(*types.Pointer); isPtr {
									derived[x], changed = true, true
								}
							}
						case *ssa.MakeInterface:
							if derived[x.X] && !derived[x] {
								derived[x], changed = true, true
							}
						}
					})
				}
				isReset := func(i ssa.Instruction) bool {
					c, ok := i.(*ssa.Call)
					return ok && (core.CalleeName(c) == "bytes.Buffer.Reset" || core.CalleeName(c) == "bytes.Buffer.Truncate") && derived[core.CallRecv(c)]
				}
				var bad []string
				writes := 0
				core.EachInstr(fn, func(in ssa.Instruction) {
					c, ok := in.(*ssa.Call)
					if !ok || isReset(in) {
						return
					}
					// a write into the buffer: it is passed as io.Writer / *bytes.Buffer argument, or a Write* method is called on it
					isWrite := false
					name := core.CalleeName(c)
					if strings.HasPrefix(name, "bytes.Buffer.Write") && derived[core.CallRecv(c)] {
						isWrite = true
					}
					for _, a := range core.CallArgs(c) {
						if derived[a] && !strings.HasPrefix(name, "bytes.Buffer.") {
							isWrite = true
						}
					}
					if !isWrite {
						return
					}
					writes++
					if !core.MustPassBefore(in, isReset) {
						bad = append(bad, p.Pos(in.Pos()))
					}
				})
				if writes == 0 {
					continue
				}
				n++
				r.Check(len(bad) == 0, fmt.Sprintf("field-buffer-reset/%s/%s", fname(fn), field), "a bytes.Buffer kept in a field of the adapter is Reset before a method fills it: what a failed earlier call left in it must not be sent ahead of the next bundle", p.Pos(fn.Pos()), "", "the buffer field "+field+" is written at "+strings.Join(bad, ", ")+" without a preceding Reset: after a Send that failed part-way the rest of that bundle is sent in front of the next one, under a header announcing both")
			}
		}
	}
	r.Analysed["field_buffers_filled"] = n
}

func checkBBC(p *core.Program, r *core.Report) {
	checkServiceSends(p, r, bbcPkg, "Connector")
	checkBBCExpiry(p, r)
	checkBBCSendWaitsForTheModem(p, r)
	checkSingleFragmentTransmission(p, r)
	// Send is called by the Core's handler, the retry job and the agents' submissions at once: the transmission ID is
	// taken and advanced, and the fragments of one transmission are queued, under one lock - two transmissions with one
	// ID interleave on the shared medium and every receiver rejects both
	gb := newGuardedEngine(p)
	nTid := gb.checkGuarded(r, []guardedField{{bbcPkg, "Connector", "tid", "pkg/cla/bbc.Connector.sendMutex"}}, false)
	r.Count("accesses to Connector.tid", nTid)
	r.Min("accesses to Connector.tid", 2)
	rf := p.Func(bbcPkg, "IncomingTransmission", "ReadFragment")
	// payload append guarded by the four checks
	nApp := 0
	core.EachInstr(rf, func(in ssa.Instruction) {
		st, ok := in.(*ssa.Store)
		if !ok || !pathEndsWith(st.Addr, "Payload") {
			return
		}
		nApp++
		conds := core.DominatingConds(st.Block())
		_, notFin := callGuard(conds, bbcPkg+".Transmission.IsFinished", false)
		_, noStart := callGuard(conds, bbcPkg+".Fragment.StartBit", false)
		okTid, okSeq := false, false
		for _, c := range conds {
			b, ok := c.V.(*ssa.BinOp)
			if !ok || !((b.Op == token.NEQ && !c.True) || (b.Op == token.EQL && c.True)) {
				continue
			}
			for _, pair := range [][2]ssa.Value{{b.X, b.Y}, {b.Y, b.X}} {
				if cc, ok := pair[0].(*ssa.Call); ok {
					if core.NameIs(core.CalleeName(cc), bbcPkg+".Fragment.TransmissionID") && pathEndsWith(pair[1], "TransmissionID") {
						okTid = true
					}
					if core.NameIs(core.CalleeName(cc), bbcPkg+".Fragment.SequenceNumber") {
						if nc, ok := pair[1].(*ssa.Call); ok && core.NameIs(core.CalleeName(nc), bbcPkg+".nextSequenceNumber") && pathEndsWith(core.Arg(nc, 0), "prevSequenceNo") {
							okSeq = true
						}
					}
				}
			}
		}
		r.Check(notFin && noStart && okTid && okSeq, "bbc/"+fname(rf)+"/append-guarded", "no byte of a rejected fragment is appended: the payload grows only after the finished, transmission-id, expected-sequence-number and no-second-START checks passed", p.Pos(st.Pos()), "", fmt.Sprintf("!finished %v, id %v, next sequence number %v, !start %v", notFin, okTid, okSeq, noStart))
		// appended data is the fragment's payload
		okData := core.DependsOn(st.Val, func(v ssa.Value) bool { return pathEndsWith(v, "Payload") && rootIsParam(v, rf.Params[1]) })
		r.Check(okData, "bbc/"+fname(rf)+"/appends-fragment-payload", "what is appended is the fragment's payload", p.Pos(st.Pos()), "", "stored value does not come from f.Payload")
	})
	r.Min("payload updates in ReadFragment", 1)
	r.Count("payload updates in ReadFragment", nApp)
	// writers of prevSequenceNo / finished (incoming)
	for _, fn := range p.RepoFuncs() {
		core.EachInstr(fn, func(in ssa.Instruction) {
			st, ok := in.(*ssa.Store)
			if !ok || !core.IsField(st.Addr, bbcPkg, "IncomingTransmission", "prevSequenceNo") {
				return
			}
			okW := fname(fn) == bbcPkg+".NewIncomingTransmission" || fn == rf
			if fn == rf {
				c, isC := st.Val.(*ssa.Call)
				okW = isC && core.NameIs(core.CalleeName(c), bbcPkg+".Fragment.SequenceNumber")
			}
			r.Check(okW, "bbc/who-may-write/prevSequenceNo/"+fname(fn), "the expected-sequence state is set from the accepted fragment only", p.Pos(st.Pos()), "", "unexpected writer")
		})
	}
	// same successor function on both sides, modulus fits 5 bits
	wf := p.Func(bbcPkg, "OutgoingTransmission", "WriteFragment")
	nsn := p.Func(bbcPkg, "", "nextSequenceNumber")
	r.Check(len(core.CallsTo(wf, bbcPkg+".nextSequenceNumber")) == 1 && len(core.CallsTo(rf, bbcPkg+".nextSequenceNumber")) == 1, "bbc/sequence/same-successor", "writer and reader advance the sequence number through the same function", p.Pos(nsn.Pos()), "", "one side no longer uses nextSequenceNumber")
	okMod := false
	for _, rv := range core.ReturnValues(nsn, 0) {
		if b, ok := rv.V.(*ssa.BinOp); ok && b.Op == token.REM {
			if k, ok := core.ConstInt(b.Y); ok && k >= 2 && k <= 32 {
				if add, ok := b.X.(*ssa.BinOp); ok && add.Op == token.ADD {
					if one, ok := core.ConstInt(add.Y); ok && one == 1 {
						okMod = true
					}
				}
			}
		}
	}
	r.Check(okMod, "bbc/sequence/modulus-fits-field", "the successor is (seq+1) mod m with m <= 32, so it fits the 5-bit field of the header", p.Pos(nsn.Pos()), "", "successor function changed shape or modulus exceeds the field")

	// header bit layout
	nf := p.Func(bbcPkg, "", "NewFragment")
	masks := map[string]int64{}
	core.EachInstr(nf, func(in ssa.Instruction) {
		b, ok := in.(*ssa.BinOp)
		if !ok {
			return
		}
		switch b.Op {
		case token.OR:
			if k, ok := core.ConstInt(b.Y); ok {
				// which flag parameter guards it
				for _, c := range core.DominatingConds(b.Block()) {
					if par, ok := c.V.(*ssa.Parameter); ok && c.True {
						masks[par.Name()] = k
					}
				}
			}
		case token.SHL:
			if sh, ok := core.ConstInt(b.Y); ok {
				if and, ok := b.X.(*ssa.BinOp); ok && and.Op == token.AND {
					if m, ok := core.ConstInt(and.Y); ok {
						masks["seq"] = (m << uint(sh)) & 0xff
						masks["seq.shift"] = sh
						masks["seq.mask"] = m
					}
				}
			}
		}
	})
	acc := map[string]string{"start": "StartBit", "end": "EndBit", "fail": "FailBit"}
	okLayout := len(masks) >= 6
	detail := fmt.Sprintf("%v", masks)
	var union int64
	for _, n := range []string{"seq", "start", "end", "fail"} {
		if union&masks[n] != 0 {
			okLayout = false
			detail += "; overlapping masks"
		}
		union |= masks[n]
	}
	if union != 0xff {
		okLayout = false
		detail += fmt.Sprintf("; masks cover %#x, not the whole byte", union)
	}
	for par, a := range acc {
		fn := p.Func(bbcPkg, "Fragment", a)
		okA := false
		for _, rv := range core.ReturnValues(fn, 0) {
			if b, ok := rv.V.(*ssa.BinOp); ok && b.Op == token.NEQ {
				if and, ok := b.X.(*ssa.BinOp); ok && and.Op == token.AND {
					if k, ok := core.ConstInt(and.Y); ok && k == masks[par] && pathEndsWith(and.X, "identifier") {
						okA = true
					}
				}
			}
		}
		if !okA {
			okLayout = false
			detail += "; accessor " + a + " disagrees"
		}
	}
	sn := p.Func(bbcPkg, "Fragment", "SequenceNumber")
	okSN := false
	for _, rv := range core.ReturnValues(sn, 0) {
		if and, ok := rv.V.(*ssa.BinOp); ok && and.Op == token.AND {
			if m, ok := core.ConstInt(and.Y); ok && m == masks["seq.mask"] {
				if sh, ok := and.X.(*ssa.BinOp); ok && sh.Op == token.SHR {
					if k, ok := core.ConstInt(sh.Y); ok && k == masks["seq.shift"] && pathEndsWith(sh.X, "identifier") {
						okSN = true
					}
				}
			}
		}
	}
	if !okSN {
		okLayout = false
		detail += "; accessor SequenceNumber disagrees"
	}
	r.Check(okLayout, "bbc/header/bit-layout", "the header byte packs sequence number, start, end and fail bits with disjoint masks covering the byte, and every accessor uses the mask/shift of the constructor", p.Pos(nf.Pos()), detail, detail)
	// ParseFragment / Bytes agree on positions
	pf := p.Func(bbcPkg, "", "ParseFragment")
	okParse := false
	pos := map[string]int64{}
	core.EachInstr(pf, func(in ssa.Instruction) {
		st, ok := in.(*ssa.Store)
		if !ok {
			return
		}
		_, f, ok := core.FieldOwner(st.Addr)
		if !ok {
			return
		}
		if ld, ok := st.Val.(*ssa.UnOp); ok {
			if ia, ok := ld.X.(*ssa.IndexAddr); ok {
				if k, ok := core.ConstInt(ia.Index); ok {
					pos[f] = k
				}
			}
		}
		if sl, ok := st.Val.(*ssa.Slice); ok && sl.Low != nil {
			if k, ok := core.ConstInt(sl.Low); ok {
				pos[f] = k
			}
		}
	})
	okParse = pos["transmissionId"] == 0 && pos["identifier"] == 1 && pos["Payload"] == 2 && len(pos) == 3
	r.Check(okParse, "bbc/"+fname(pf)+"/positions", "a fragment on the air is [transmission id, header byte, payload...]", p.Pos(pf.Pos()), fmt.Sprint(pos), fmt.Sprint(pos))
	// length guard before indexing
	okLen := false
	for _, blk := range pf.Blocks {
		for _, in := range blk.Instrs {
			if ia, ok := in.(*ssa.IndexAddr); ok {
				for _, c := range core.DominatingConds(ia.Block()) {
					// len >= 2 (or more), in any spelling
					if _, small, strict, isOrd := core.CondGreater(c); isOrd {
						if k, ok := core.ConstInt(small); ok && ((!strict && k >= 2) || (strict && k >= 1)) {
							okLen = true
						}
					}
				}
			}
		}
	}
	r.Check(okLen, "bbc/"+fname(pf)+"/length-checked", "a too short frame is rejected before it is indexed", p.Pos(pf.Pos()), "", "index without len(data) >= 2 guard")

	// connector: report only finished + parsed; failure fragment on every error exit
	hif := p.Func(bbcPkg, "Connector", "handleIncomingFragment")
	nRep := 0
	core.EachInstr(hif, func(in ssa.Instruction) {
		snd, ok := in.(*ssa.Send)
		if !ok || !pathEndsWith(snd.Chan, "reportChan") {
			return
		}
		nRep++
		conds := core.DominatingConds(snd.Block())
		_, fin := callGuard(conds, bbcPkg+".Transmission.IsFinished", true)
		okB := false
		for _, bc := range core.CallsTo(hif, bbcPkg+".IncomingTransmission.Bundle") {
			if errNilGuard(conds, bc.(ssa.Value)) {
				okB = true
			}
			// named result: err = extract; test `err == nil` on a load
			for _, cd := range conds {
				x, isNil, ok := core.NilCmp(cd)
				if ok && isNil {
					if ld, ok := x.(*ssa.UnOp); ok {
						if a, ok := ld.X.(*ssa.Alloc); ok && a == namedErrAlloc(hif) {
							okB = true
						}
					}
				}
			}
		}
		r.Check(fin && okB, "bbc/"+fname(hif)+"/report", "a bundle is reported as received only for a finished transmission that decompressed and parsed", p.Pos(snd.Pos()), "", fmt.Sprintf("IsFinished %v, Bundle()==nil %v", fin, okB))
	})
	r.Min("received-bundle reports in the BBC connector", 1)
	r.Count("received-bundle reports in the BBC connector", nRep)
	okFail := false
	for _, cl := range hif.AnonFuncs {
		core.EachInstr(cl, func(in ssa.Instruction) {
			snd, ok := in.(*ssa.Send)
			if !ok || !pathEndsWith(snd.Chan, "fragmentOut") {
				return
			}
			if c, ok := snd.X.(*ssa.Call); ok && core.NameIs(core.CalleeName(c), bbcPkg+".Fragment.ReportFailure") {
				// reached exactly when err != nil
				for _, b := range cl.Blocks {
					if ifi, ok := b.Instrs[len(b.Instrs)-1].(*ssa.If); ok {
						cd := core.Cond{V: ifi.Cond, True: true}
						x, isNil, ok := core.NilCmp(cd)
						if ok && isNil {
							if ld, ok := x.(*ssa.UnOp); ok {
								if fv, ok := ld.X.(*ssa.FreeVar); ok && core.FreeVarBoundTo(hif, cl, fv, namedErrAlloc(hif)) {
									// true edge (err == nil) returns, false edge reaches the send
									if !core.BlocksReachableFrom(b.Succs[0])[snd.Block()] && core.BlocksReachableFrom(b.Succs[1])[snd.Block()] {
										okFail = true
									}
								}
							}
						}
					}
				}
			}
		})
	}
	var hasDefer bool
	core.EachInstr(hif, func(in ssa.Instruction) {
		if _, ok := in.(*ssa.Defer); ok {
			hasDefer = true
		}
	})
	r.Check(okFail && hasDefer, "bbc/"+fname(hif)+"/failure-fragment", "every error exit of the fragment handler broadcasts a failure fragment (deferred closure on the named result)", p.Pos(hif.Pos()), "", "no deferred ReportFailure under err != nil")
	// known transmission error => dropped from the table
	hk := p.Func(bbcPkg, "Connector", "handleIncomingKnownTransmission")
	okDrop := false
	core.EachInstr(hk, func(in ssa.Instruction) {
		c, ok := in.(*ssa.Call)
		if !ok {
			return
		}
		if b, ok := c.Common().Value.(*ssa.Builtin); ok && b.Name() == "delete" {
			okDrop = true
		}
	})
	r.Check(okDrop, "bbc/"+fname(hk)+"/drop-on-error", "a transmission that saw a bad fragment is discarded (never completed with foreign data)", p.Pos(hk.Pos()), "", "no delete of the transmission on error")

	// writer
	okStartW, okEnd, okCut := false, false, false
	for _, c := range core.CallsTo(wf, bbcPkg+".NewFragment") {
		a := core.CallArgs(c)
		okStartW = pathEndsWith(a[2], "start")
		okEnd = pathEndsWith(a[3], "finished")
		if k, ok := core.ConstInt(boolToInt(a[4])); ok && k == 0 {
			okStartW = okStartW && true
		} else {
			okStartW = false
		}
		// start cleared afterwards
		ok, _ := core.MustPassAfter(c, func(i ssa.Instruction) bool {
			st, ok := i.(*ssa.Store)
			return ok && core.IsField(st.Addr, bbcPkg, "OutgoingTransmission", "start") && core.IsBoolConst(st.Val, false)
		}, core.IsReturn)
		okStartW = okStartW && ok
	}
	// finished = true exactly on len(payload) <= mtu ; else prefix [:mtu]
	core.EachInstr(wf, func(in ssa.Instruction) {
		switch x := in.(type) {
		case *ssa.Store:
			if pathEndsWith(x.Addr, "finished") && core.IsBoolConst(x.Val, true) {
				for _, c := range core.DominatingConds(x.Block()) {
					// len(payload) <= mtu, in any of its spellings
					if b, ok := c.V.(*ssa.BinOp); ok {
						fits := false
						switch {
						case pathEndsWith(b.Y, "mtu"):
							fits = (b.Op == token.LEQ && c.True) || (b.Op == token.GTR && !c.True)
						case pathEndsWith(b.X, "mtu"):
							fits = (b.Op == token.GEQ && c.True) || (b.Op == token.LSS && !c.True)
						}
						if fits {
							okCut = true
						}
					}
				}
			}
		}
	})
	okPrefix := false
	core.EachInstr(wf, func(in ssa.Instruction) {
		if sl, ok := in.(*ssa.Slice); ok && sl.Low == nil && sl.High != nil && pathEndsWith(sl.High, "mtu") && pathEndsWith(sl.X, "Payload") {
			okPrefix = true
		}
	})
	r.Check(okStartW, "bbc/"+fname(wf)+"/start", "START is set from the start flag, which is cleared after the first fragment; the fail bit is never set on data", p.Pos(wf.Pos()), "", "start flag handling changed")
	r.Check(okEnd && okCut && okPrefix, "bbc/"+fname(wf)+"/end-and-size", "END is set exactly when the remaining payload fits into one fragment; otherwise a prefix of exactly mtu-2 bytes is cut", p.Pos(wf.Pos()), "", fmt.Sprintf("finished from flag %v, set under len<=mtu %v, prefix [:mtu] %v", okEnd, okCut, okPrefix))
	npt := p.Func(bbcPkg, "", "newPlainOutgoingTransmission")
	okMtu := false
	core.EachInstr(npt, func(in ssa.Instruction) {
		if st, ok := in.(*ssa.Store); ok && core.IsField(st.Addr, bbcPkg, "OutgoingTransmission", "mtu") {
			if b, ok := st.Val.(*ssa.BinOp); ok && b.Op == token.SUB {
				if k, ok := core.ConstInt(b.Y); ok && k == constVal(p, bbcPkg, "fragmentIdentifierSize") {
					okMtu = true
				}
			}
		}
	})
	r.Check(okMtu, "bbc/"+fname(npt)+"/payload-mtu", "the per-fragment payload size is the modem's MTU minus the 2 header bytes", p.Pos(npt.Pos()), "", "mtu is not reduced by fragmentIdentifierSize")
}

// storedFrom: addr is a local cell into which v is stored (err = call(...)).
func storedFrom(addr ssa.Value, v ssa.Value) bool {
	a, ok := addr.(*ssa.Alloc)
	if !ok {
		return false
	}
	for _, ref := range *a.Referrers() {
		if st, ok := ref.(*ssa.Store); ok && st.Val == v {
			return true
		}
	}
	return false
}

// checkBBCSendWaitsForTheModem - necessary for "deliver exactly what was sent or report failure" on the sender's side:
// Connector.Send queues the fragments for the writer goroutine and listens for failure fragments only between two
// queueing steps. It returns nil when the last fragment is queued - possibly before the first one was broadcast - and a
// receiver's failure fragment that arrives afterwards is heard by nobody: the bundle counts as transmitted. What must
// exist: a nil return of Send is preceded by a blocking wait for the writer (a completion signal), after which the
// failure channel can still be consulted.
func checkBBCSendWaitsForTheModem(p *core.Program, r *core.Report) {
	send := p.Func(bbcPkg, "Connector", "Send")
	isCompletionWait := func(i ssa.Instruction) bool {
		switch x := i.(type) {
		case *ssa.UnOp:
			return x.Op == token.ARROW && !pathEndsWith(x.X, "failTransmission")
		case *ssa.Select:
			if !x.Blocking {
				return false
			}
			for _, st := range x.States {
				if st.Dir == types.RecvOnly && !pathEndsWith(st.Chan, "failTransmission") {
					return true
				}
			}
		}
		return false
	}
	waits := true
	n := 0
	for _, rv := range core.ReturnValues(send, send.Signature.Results().Len()-1) {
		if !core.IsNilConst(rv.V) {
			continue
		}
		n++
		if !core.MustPassBefore(rv.At, isCompletionWait) {
			waits = false
		}
	}
	r.Min("success returns of Connector.Send", 1)
	r.Count("success returns of Connector.Send", n)
	r.Check(waits, "bbc/"+fname(send)+"/waits-for-the-modem", "Connector.Send returns success only after the writer goroutine signalled that the transmission went out (a blocking receive other than the failure channel precedes every nil return)", p.Pos(send.Pos()), "", "Send returns nil as soon as the last fragment is queued: a failure fragment a receiver broadcasts after that is never heard, the bundle is recorded as transmitted and never sent again")
}

// checkSingleFragmentTransmission: a bundle that fits into one link fragment arrives as a fragment carrying both the
// start and the end mark - the normal case at LoRa MTUs. ReadFragment never runs for it; the transmission created from
// its first fragment must therefore take its finished state from that fragment's end mark (and the connector must
// look at the state after creating it, which bbc/…/report checks).
func checkSingleFragmentTransmission(p *core.Program, r *core.Report) {
	nit := p.Func(bbcPkg, "", "NewIncomingTransmission")
	ok := false
	core.EachInstr(nit, func(in ssa.Instruction) {
		st, isSt := in.(*ssa.Store)
		if !isSt {
			return
		}
		if !pathEndsWith(st.Addr, "finished") {
			if fa, isFA := st.Addr.(*ssa.FieldAddr); !isFA || derefStructOf(fa.X.Type()) == nil || derefStructOf(fa.X.Type()).Field(fa.Field).Name() != "finished" {
				return
			}
		}
		if core.DependsOn(st.Val, func(v ssa.Value) bool {
			c, isC := v.(*ssa.Call)
			return isC && core.NameIs(core.CalleeName(c), bbcPkg+".Fragment.EndBit") && core.DependsOn(core.CallRecv(c), func(x ssa.Value) bool { return len(nit.Params) > 0 && x == ssa.Value(nit.Params[0]) })
		}) {
			ok = true
		}
	})
	r.Check(ok, "bbc/"+fname(nit)+"/finished-from-first-fragment", "a transmission created from its first fragment is finished iff that fragment carries the end mark (single-fragment transmissions are never fed to ReadFragment)", p.Pos(nit.Pos()), "", "finished is not initialised from the first fragment's EndBit(): a bundle that fits into one fragment is neither delivered nor reported as failed, and its entry stays in the connector for ever")
}
