package rules

import (
	"fmt"
	"go/constant"
	"go/token"
	"go/types"
	"sort"
	"strings"

	"dtnverif/core"

	"golang.org/x/tools/go/ssa"
)

func init() { Registry["C07"] = C07 }

const agentPkg = "pkg/agent"

// rangeCallbacks lists (call site, callback) of every (*sync.Map).Range in fn.
func rangeCallbacks(fn *ssa.Function) (sites []ssa.CallInstruction, cbs []*ssa.Function) {
	for _, c := range core.CallsTo(fn, "sync.Map.Range") {
		args := core.CallArgs(c)
		var cb *ssa.Function
		switch a := args[0].(type) {
		case *ssa.MakeClosure:
			cb = a.Fn.(*ssa.Function)
		case *ssa.Function:
			cb = a
		}
		sites = append(sites, c)
		cbs = append(cbs, cb)
	}
	return
}

// checkRangeCallback applies the complete-iteration rule: a return of the
// constant false that is not guarded by any condition inside the callback
// stops sync.Map.Range after the first (arbitrary) entry.
func checkRangeCallback(p *core.Program, r *core.Report, site ssa.CallInstruction, cb *ssa.Function) {
	key := "complete-iteration/" + fname(site.Parent()) + "/sync.Map.Range"
	rule := "a sync.Map.Range callback must not return false unconditionally (Range stops at the first false), so that every registered entry is visited"
	pos := p.Pos(site.Pos())
	if cb == nil {
		r.Unknown(key, rule, pos, "callback is not a function literal")
		return
	}
	bad := 0
	total := 0
	for _, ret := range core.Returns(cb) {
		total++
		if len(ret.Results) != 1 {
			continue
		}
		vals := []ssa.Value{ret.Results[0]}
		if phi, ok := ret.Results[0].(*ssa.Phi); ok {
			vals = phi.Edges
		}
		for i, v := range vals {
			c, ok := v.(*ssa.Const)
			if !ok || c.Value == nil || c.Value.Kind() != constant.Bool || constant.BoolVal(c.Value) {
				continue
			}
			blk := ret.Block()
			if len(vals) > 1 {
				blk = ret.Block().Preds[i]
			}
			if len(core.DominatingConds(blk)) == 0 {
				bad++
			}
		}
	}
	r.Check(bad == 0, key, rule, pos, fmt.Sprintf("%d return(s), none is an unconditional false", total),
		fmt.Sprintf("the callback returns false on a path without any condition: only one entry of the map is ever visited"))
}

// C07 — local delivery reaches exactly the registered recipients, once.
func C07(p *core.Program, r *core.Report) {
	r.Explanation = "Structural necessary conditions of C07: (IT) every sync.Map.Range callback and every fan-out loop over recipients in pkg/agent visits all entries (no unconditional `return false`, no break/return in the loop body); (GC) a message is handed to a child/client only on the edge of the recipient test; (AT) every load-then-store/delete of the REST mailbox lies in one exclusive lock region and every other write of the mailbox holds the same lock; (GC) Core.dispatching delivers xor forwards on the two edges of HasEndpoint(destination), localDelivery reports/purges only after Deliver()==nil. Not decided: exactly-once over all interleavings of register/fetch/deliver as a whole, content equality."
	r.Assumptions = append(r.Assumptions,
		"sync.Map.Range stops when the callback returns false and visits entries in unspecified order",
		"sync.Map Load/Store/Delete are individually atomic but a Load followed by Store/Delete is not")

	// ---- IT: Range callbacks in pkg/agent
	n := 0
	for _, fn := range p.RepoFuncs() {
		if fn.Pkg == nil || !core.NameIs(fn.Pkg.Pkg.Path(), agentPkg) {
			if fn.Parent() == nil || topFunc(fn).Pkg == nil || !core.NameIs(topFunc(fn).Pkg.Pkg.Path(), agentPkg) {
				continue
			}
		}
		sites, cbs := rangeCallbacks(fn)
		for i := range sites {
			n++
			checkRangeCallback(p, r, sites[i], cbs[i])
		}
	}
	r.Min("sync.Map.Range callbacks in pkg/agent", 2)
	r.Count("sync.Map.Range callbacks in pkg/agent", n)

	// ---- fan-out loops: MuxAgent.handle, RestAgent.receiveBundleMessage
	muxHandle := p.Func(agentPkg, "MuxAgent", "handle")
	sends := 0
	core.EachInstr(muxHandle, func(in ssa.Instruction) {
		snd, ok := in.(*ssa.Send)
		if !ok {
			return
		}
		sends++
		loops := core.Loops(muxHandle)
		l := core.InnermostLoop(loops, snd.Block())
		key := "fan-out/" + fname(muxHandle) + "/children-loop"
		if l == nil {
			r.Fail(key, "the hand-over to children happens in a loop over all children", p.Pos(snd.Pos()), "send is not inside a loop")
			return
		}
		ex := l.EarlyExits()
		r.Check(len(ex) == 0, key, "the loop over the registered children has no break/return, so every matching child gets the message", p.Pos(snd.Pos()), "no early exit", fmt.Sprintf("%d early exit(s) from the loop body", len(ex)))
		// the loop ranges over the children field
		okRange := false
		for b := range l.Blocks {
			for _, in2 := range b.Instrs {
				if ia, ok := in2.(*ssa.IndexAddr); ok && pathEndsWith(ia.X, "children") {
					okRange = true
				}
			}
		}
		r.Check(okRange, "fan-out/"+fname(muxHandle)+"/ranges-children", "the fan-out loop ranges over MuxAgent.children", p.Pos(snd.Pos()), "", "the loop does not index MuxAgent.children")
		// guard: rec == nil || AppAgentContainsEndpoint(child, rec)
		okGuard := core.GuardedByAny(snd.Block(), func(c core.Cond) bool {
			if call, ok := core.CondIsCall(c, agentPkg+".AppAgentContainsEndpoint"); ok && c.True {
				// second argument must be the message's Recipients()
				a := core.CallArgs(call)
				return isRecipientsOf(a[1], snd.X)
			}
			if x, isNil, ok := core.NilCmp(c); ok && isNil {
				return isRecipientsOf(x, snd.X)
			}
			return false
		})
		r.Check(okGuard, "fan-out/"+fname(muxHandle)+"/recipient-guard", "a child receives a message only if the message has no recipients (broadcast) or the child answers to one of msg.Recipients()", p.Pos(snd.Pos()), "", "the send is reachable without passing the recipient test")
		// mutual exclusion with Register/unregister
		ls := core.ComputeLockSets(muxHandle)
		_, held := ls.Held(snd, "pkg/agent.MuxAgent.Mutex", true)
		r.Check(held, "lockset/"+fname(muxHandle)+"/children", "MuxAgent.children is read under the agent's mutex", p.Pos(snd.Pos()), "", "send loop runs without the mutex; held: "+ls.HeldNames(snd))
	})
	r.Min("MuxAgent.handle sends", 1)
	r.Count("MuxAgent.handle sends", sends)

	// writers of MuxAgent.children hold the mutex
	for _, fn := range p.RepoFuncs() {
		ls := (*core.LockSets)(nil)
		core.EachInstr(fn, func(in ssa.Instruction) {
			st, ok := in.(*ssa.Store)
			if !ok || !core.IsField(st.Addr, agentPkg, "MuxAgent", "children") {
				return
			}
			if ls == nil {
				ls = core.ComputeLockSets(fn)
			}
			_, held := ls.Held(st, "pkg/agent.MuxAgent.Mutex", true)
			r.Check(held, "lockset/"+fname(fn)+"/children-write", "MuxAgent.children is written under the agent's mutex", p.Pos(st.Pos()), "", "unlocked write; held: "+ls.HeldNames(st))
		})
	}

	// RestAgent.receiveBundleMessage
	rbm := p.Func(agentPkg, "RestAgent", "receiveBundleMessage")
	checkRestReceive(p, r, rbm)

	// ---- AT: mailbox read-modify-write
	checkMailboxAtomicity(p, r)

	// ---- GC: dispatching / localDelivery
	disp := p.Func(routingPkg, "Core", "dispatching")
	ld := core.CallsTo(disp, routingPkg+".Core.localDelivery")
	fw := core.CallsTo(disp, routingPkg+".Core.forward")
	r.Min("dispatching: localDelivery/forward sites", 2)
	r.Count("dispatching: localDelivery/forward sites", len(ld)+len(fw))
	for _, c := range ld {
		conds := core.DominatingConds(c.Block())
		call, ok := callGuard(conds, routingPkg+".Core.HasEndpoint", true)
		ok = ok && pathEndsWith(core.Arg(call, 0), "PrimaryBlock", "Destination")
		r.Check(ok, "deliver-xor-forward/"+fname(disp)+"/localDelivery", "local delivery only if HasEndpoint(bundle.Destination)", p.Pos(c.Pos()), "", "guard missing; "+condStrings(conds))
	}
	for _, c := range fw {
		conds := core.DominatingConds(c.Block())
		call, ok := callGuard(conds, routingPkg+".Core.HasEndpoint", false)
		ok = ok && pathEndsWith(core.Arg(call, 0), "PrimaryBlock", "Destination")
		r.Check(ok, "deliver-xor-forward/"+fname(disp)+"/forward", "a bundle for a local endpoint is not transmitted to peers: forward only if !HasEndpoint(bundle.Destination)", p.Pos(c.Pos()), "", "guard missing; "+condStrings(conds))
	}
	lfn := p.Func(routingPkg, "Core", "localDelivery")
	direct := len(core.CallsToDeep(lfn, routingPkg+".Core.forward")) + len(sendInvokes(lfn))
	r.Check(direct == 0, "deliver-xor-forward/"+fname(lfn)+"/no-send", "localDelivery neither forwards nor sends the bundle itself", p.Pos(lfn.Pos()), "", "localDelivery calls forward/Send")

	checkDeliverGuard(p, r)

	// delivered-report / purge only after successful Deliver (shared with C15)
	for _, c := range core.CallsTo(lfn, routingPkg+".BundleDescriptor.PurgeConstraints") {
		conds := core.DominatingConds(c.Block())
		ok := false
		for _, dc := range core.CallsTo(lfn, routingPkg+".AgentManager.Deliver") {
			if errNilGuard(conds, dc.(ssa.Value)) {
				ok = true
			}
		}
		r.Check(ok, "hand-over/"+fname(lfn)+"/purge-after-deliver", "the retention constraints are released by localDelivery only if Deliver()==nil", p.Pos(c.Pos()), "", "PurgeConstraints reachable when Deliver failed; "+condStrings(conds))
	}
	for _, c := range core.CallsTo(lfn, ssrName) {
		conds := core.DominatingConds(c.Block())
		ok := false
		for _, dc := range core.CallsTo(lfn, routingPkg+".AgentManager.Deliver") {
			if errNilGuard(conds, dc.(ssa.Value)) {
				ok = true
			}
		}
		r.Check(ok, "hand-over/"+fname(lfn)+"/report-after-deliver", "the delivery is reported only if Deliver()==nil", p.Pos(c.Pos()), "", "status report reachable when Deliver failed; "+condStrings(conds))
	}

	checkAgentsAlwaysDrain(p, r)
	checkMuxChildrenGuarded(p, r)
	checkListingMatchesDelivery(p, r)
	checkLoopVarCapture(p, r)
	// epidemic routing admits a bundle for a local endpoint to dispatching (and so to local delivery) by the
	// destination it recorded in the store item when the bundle was announced: that record must be written back
	checkPropertiesPersisted(p, r)
	// "handed to every registered agent, once per accepted copy" for a bundle that arrives in fragments: the second
	// fragment must be filed at all (the same construct as under C05)
	checkFragmentIdentity(p, r)
	checkHandOverConfirmed(p, r)
	checkRestClientLifeCycle(p, r)
	checkAgentSocketWritesBounded(p, r)
	// "once per accepted copy": local delivery, like forwarding, runs only under the bundle's dispatch reservation
	checkDispatchExclusive(p, r)
}

// checkHandOverConfirmed: AgentManager.Deliver releases the bundle (removes LocalEndpoint, returns nil, which makes
// localDelivery report "delivered" and delete the bundle) on the strength of HasEndpoint() asked BEFORE the message is
// put into the MuxAgent's channel. Who takes the message is decided later, in MuxAgent.handle, child by child. A
// client that unregisters in between leaves nobody to take it. Necessary for "a delivery is reported only if such a
// hand-over took place": the success result depends on something the hand-over itself produced (a count of takers,
// an error), not only on a test made before it.
func checkHandOverConfirmed(p *core.Program, r *core.Report) {
	dl := p.Func(routingPkg, "AgentManager", "Deliver")
	var sends []*ssa.Send
	core.EachInstr(dl, func(in ssa.Instruction) {
		if s, ok := in.(*ssa.Send); ok {
			sends = append(sends, s)
		}
	})
	confirmed := len(sends) == 0
	for _, ret := range core.Returns(dl) {
		if len(ret.Results) == 0 || !core.IsNilConst(ret.Results[len(ret.Results)-1]) {
			continue
		}
		// a nil result reached straight after a fire-and-forget channel send
		for _, s := range sends {
			if s.Block() == ret.Block() || core.BlocksReachableFrom(s.Block())[ret.Block()] {
				confirmed = false
			}
		}
	}
	r.Count("message hand-overs in AgentManager.Deliver", len(sends))
	r.Check(confirmed, "hand-over/"+fname(dl)+"/confirmed-by-recipient", "Deliver reports success only when the hand-over itself says that somebody took the message", p.Pos(dl.Pos()), "", "success is returned after an asynchronous channel send; the only test of 'is anybody registered' precedes it (HasEndpoint), so a client leaving in between makes the node report a delivery and delete the bundle although nobody got it")
}

// checkAgentsAlwaysDrain: the MuxAgent hands a message to a child while it
// holds its lock (so that the child cannot be unregistered, i.e. its channel
// closed, during the send). That is deadlock-free only if every agent keeps
// reading its receiver channel until the channel is closed or a shutdown
// message arrives: (i) the receiver loop never blocks on the agent's own
// sender channel (the consumer of that channel may be waiting for the mux
// lock), (ii) an exit from the loop for another reason (write error) is
// followed by a deferred drain of the channel.
func checkAgentsAlwaysDrain(p *core.Program, r *core.Report) {
	pkg := p.Pkg(agentPkg)
	n := 0
	for _, fn := range p.RepoFuncs() {
		if fn.Pkg != pkg || fn.Signature.Recv() == nil {
			continue
		}
		recvT := derefNamed(fn.Signature.Recv().Type())
		isOwnField := func(v ssa.Value, name string) bool {
			u, ok := v.(*ssa.UnOp)
			if !ok || u.Op != token.MUL {
				return false
			}
			owner, field, ok := core.FieldOwner(u.X)
			return ok && field == name && types.Identical(owner, recvT)
		}
		var recv *ssa.UnOp
		core.EachInstr(fn, func(in ssa.Instruction) {
			if u, ok := in.(*ssa.UnOp); ok && u.Op == token.ARROW && u.CommaOk && isOwnField(u.X, "receiver") {
				recv = u
			}
		})
		if recv == nil {
			continue
		}
		l := core.InnermostLoop(core.Loops(fn), recv.Block())
		if l == nil {
			continue
		}
		n++
		// (i) no blocking send on the own sender channel from inside the loop (also one call deep)
		var bad []string
		scan := func(f *ssa.Function, inLoop func(*ssa.BasicBlock) bool) {
			core.EachInstr(f, func(in ssa.Instruction) {
				if snd, ok := in.(*ssa.Send); ok && inLoop(in.Block()) {
					if u, isLd := snd.Chan.(*ssa.UnOp); isLd {
						if owner, field, ok := core.FieldOwner(u.X); ok && field == "sender" && types.Identical(owner, recvT) {
							bad = append(bad, p.Pos(snd.Pos()))
						}
					}
				}
			})
		}
		scan(fn, func(b *ssa.BasicBlock) bool { return l.Blocks[b] })
		core.EachInstr(fn, func(in ssa.Instruction) {
			c, ok := in.(*ssa.Call)
			if !ok || !l.Blocks[in.Block()] {
				return
			}
			if cal := c.Common().StaticCallee(); cal != nil && cal.Pkg == pkg && cal.Blocks != nil {
				scan(cal, func(*ssa.BasicBlock) bool { return true })
			}
		})
		r.Check(len(bad) == 0, "agent-drains/"+fname(fn)+"/no-upward-send-in-receiver-loop", "an agent's receiver loop does not send blockingly on the agent's own sender channel (it answers from a goroutine of its own): the consumer of that channel may be blocked behind the MuxAgent's lock, which is held until this agent takes the next message", p.Pos(recv.Pos()), "", "blocking send on the own sender channel inside the receiver loop at "+strings.Join(bad, ", "))
		// (ii) exits other than channel-closed / shutdown need a deferred drain
		hasDrain := false
		core.EachInstr(fn, func(in ssa.Instruction) {
			d, ok := in.(*ssa.Defer)
			if !ok {
				return
			}
			if mc, ok := d.Call.Value.(*ssa.MakeClosure); ok {
				cl := mc.Fn.(*ssa.Function)
				core.EachInstr(cl, func(i2 ssa.Instruction) {
					if u, ok := i2.(*ssa.UnOp); ok && u.Op == token.ARROW {
						if ld, ok := u.X.(*ssa.UnOp); ok {
							if fa, ok := ld.X.(*ssa.FieldAddr); ok {
								if st := derefStructOf(fa.X.Type()); st != nil && st.Field(fa.Field).Name() == "receiver" {
									hasDrain = true
								}
							}
						}
					}
				})
			}
		})
		var badExits []string
		for _, b := range l.EarlyExits() {
			for _, sc := range b.Succs {
				if l.Blocks[sc] {
					continue
				}
				shutdown := false
				for _, cd := range core.DominatingConds(sc) {
					if ex, ok := cd.V.(*ssa.Extract); ok && cd.True && ex.Index == 1 {
						if ta, ok := ex.Tuple.(*ssa.TypeAssert); ok {
							if nt, ok := ta.AssertedType.(*types.Named); ok && nt.Obj().Name() == "ShutdownMessage" {
								shutdown = true
							}
						}
					}
				}
				if !shutdown && !hasDrain {
					badExits = append(badExits, p.Pos(b.Instrs[len(b.Instrs)-1].Pos()))
				}
			}
		}
		r.Check(len(badExits) == 0, "agent-drains/"+fname(fn)+"/reads-until-closed", "an agent stops reading its receiver channel only when the channel is closed or on a shutdown message; an exit for another reason (e.g. a write error) is followed by a deferred drain of the channel", p.Pos(recv.Pos()), "", "the receiver loop is left at "+strings.Join(badExits, ", ")+" without a shutdown message and without a deferred drain: the MuxAgent then blocks on this agent while holding its lock and can never unregister it")
	}
	r.Count("agent receiver loops", n)
	r.Min("agent receiver loops", 4)
}

func derefStructOf(t types.Type) *types.Struct {
	if pt, ok := t.Underlying().(*types.Pointer); ok {
		t = pt.Elem()
	}
	st, _ := t.Underlying().(*types.Struct)
	return st
}

// isRecipientsOf: v is the result of msg.Recipients() for the same msg value
// that is sent (snd).
func isRecipientsOf(v ssa.Value, msg ssa.Value) bool {
	c, ok := core.Strip(v).(*ssa.Call)
	if !ok || !c.Common().IsInvoke() || c.Common().Method.Name() != "Recipients" {
		return false
	}
	return c.Common().Value == msg
}

func checkRestReceive(p *core.Program, r *core.Report, rbm *ssa.Function) {
	// the mailbox store happens in a loop without early exit
	stores := core.CallsTo(rbm, "sync.Map.Store")
	nMailbox := 0
	for _, st := range stores {
		if !pathEndsWith(core.CallRecv(st), "mailbox") {
			continue
		}
		nMailbox++
		l := core.InnermostLoop(core.Loops(rbm), st.Block())
		key := "fan-out/" + fname(rbm) + "/uuid-loop"
		if l == nil {
			r.Fail(key, "every matching client gets the bundle: the mailbox store is in a loop over the collected clients", p.Pos(st.Pos()), "not in a loop")
			continue
		}
		r.Check(len(l.EarlyExits()) == 0, key, "the loop over the matching clients has no break/return", p.Pos(st.Pos()), "", "early exit from the loop body")
		// the stored slice ends with the message's bundle
		okVal := core.DependsOn(core.Arg(st, 1), func(v ssa.Value) bool {
			return pathEndsWith(v, "Bundle") && rootIsParam(v, rbm.Params[1])
		})
		r.Check(okVal, "fan-out/"+fname(rbm)+"/stores-bundle", "what is put in the mailbox contains the delivered bundle", p.Pos(st.Pos()), "", "stored value does not depend on msg.Bundle")
	}
	r.Min("mailbox stores in receiveBundleMessage", 1)
	r.Count("mailbox stores in receiveBundleMessage", nMailbox)

	// the collector appends a client only under bagHasEndpoint(msg.Recipients(), v)
	_, cbs := rangeCallbacks(rbm)
	for _, cb := range cbs {
		if cb == nil {
			continue
		}
		nApp := 0
		core.EachInstr(cb, func(in ssa.Instruction) {
			c, ok := in.(*ssa.Call)
			if !ok {
				return
			}
			if b, ok := c.Common().Value.(*ssa.Builtin); !ok || b.Name() != "append" {
				return
			}
			nApp++
			conds := core.DominatingConds(c.Block())
			_, g := callGuard(conds, agentPkg+".bagHasEndpoint", true)
			r.Check(g, "fan-out/"+fname(rbm)+"/client-selection", "a REST client is selected only if its endpoint is among the message's recipients (to no other client)", p.Pos(c.Pos()), "", "append not guarded by bagHasEndpoint; "+condStrings(conds))
		})
		r.Check(nApp > 0, "fan-out/"+fname(rbm)+"/collects", "the Range callback collects matching clients", p.Pos(cb.Pos()), "", "no append in callback")
	}
}

func rootIsParam(v ssa.Value, par *ssa.Parameter) bool {
	base, _, _ := core.FieldRef(core.Strip(v))
	if base == ssa.Value(par) {
		return true
	}
	if a, ok := base.(*ssa.Alloc); ok {
		return allocHoldsParam(a, par)
	}
	return false
}

// checkMailboxAtomicity: any function that both loads and then
// stores/deletes RestAgent.mailbox performs a read-modify-write, which must be
// one exclusive region; and then every other store/delete must hold the same
// mutex.
func checkMailboxAtomicity(p *core.Program, r *core.Report) {
	type acc struct {
		in   ssa.CallInstruction
		kind string
	}
	rule := "a Load of RestAgent.mailbox followed by Store/Delete is a read-modify-write; it must lie in one exclusive lock region, otherwise a concurrent delivery or fetch is lost or duplicated"
	nRMW := 0
	var mutexUsed string
	var others []struct {
		fn *ssa.Function
		a  acc
		ls *core.LockSets
	}
	for _, fn := range p.RepoFuncs() {
		var accs []acc
		for _, k := range []string{"Load", "Store", "Delete", "LoadAndDelete", "LoadOrStore"} {
			for _, c := range core.CallsTo(fn, "sync.Map."+k) {
				if pathEndsWith(core.CallRecv(c), "mailbox") && isRestAgentField(core.CallRecv(c)) {
					accs = append(accs, acc{c, k})
				}
			}
		}
		if len(accs) == 0 {
			continue
		}
		ls := core.ComputeLockSets(fn)
		for _, a := range accs {
			if a.kind != "Load" {
				others = append(others, struct {
					fn *ssa.Function
					a  acc
					ls *core.LockSets
				}{fn, a, ls})
				continue
			}
			for _, b := range accs {
				if b.kind != "Store" && b.kind != "Delete" {
					continue
				}
				if !reaches(a.in, b.in) {
					continue
				}
				nRMW++
				key := fmt.Sprintf("atomic-rmw/%s/mailbox.Load→%s", fname(fn), b.kind)
				same := ls.SameWriteRegion(a.in, b.in, "")
				if same {
					for _, e := range ls.At[a.in] {
						if e.Write {
							mutexUsed = e.Mutex
						}
					}
				}
				r.Check(same, key, rule, p.Pos(b.in.Pos()), "both inside one exclusive region", fmt.Sprintf("Load at %s and %s are not in one exclusive region (held at load %s, at write %s)", p.Pos(a.in.Pos()), b.kind, ls.HeldNames(a.in), ls.HeldNames(b.in)))
			}
		}
	}
	// ownership: what a function hands out of the mailbox must not stay reachable from the mailbox
	for _, fn := range p.RepoFuncs() {
		var loads []ssa.CallInstruction
		for _, c := range core.CallsTo(fn, "sync.Map.Load") {
			if isRestAgentField(core.CallRecv(c)) {
				loads = append(loads, c)
			}
		}
		if len(loads) == 0 {
			continue
		}
		fromLoad := func(v ssa.Value) bool {
			for _, l := range loads {
				if v == l.(ssa.Value) {
					return true
				}
				if ex, ok := v.(*ssa.Extract); ok && ex.Tuple == l.(ssa.Value) {
					return true
				}
			}
			return false
		}
		escapes := false
		for i := 0; i < fn.Signature.Results().Len(); i++ {
			for _, rv := range core.ReturnValues(fn, i) {
				if _, isSlice := rv.V.Type().Underlying().(*types.Slice); isSlice && core.DependsOn(rv.V, fromLoad) {
					escapes = true
				}
			}
		}
		core.EachInstr(fn, func(in ssa.Instruction) {
			if st, ok := in.(*ssa.Store); ok {
				if _, isSlice := st.Val.Type().Underlying().(*types.Slice); isSlice && pathEndsWith(st.Addr, "Bundles") && core.DependsOn(st.Val, fromLoad) {
					escapes = true
				}
			}
		})
		if !escapes {
			continue
		}
		bad := ""
		for _, c := range core.CallsTo(fn, "sync.Map.Store") {
			if isRestAgentField(core.CallRecv(c)) && core.DependsOn(core.Arg(c, 1), fromLoad) {
				bad = "the slice handed to the caller is (a reslice of) what is stored back into the mailbox at " + p.Pos(c.Pos()) + ": a later delivery appends into the backing array the caller still reads"
			}
		}
		r.Check(bad == "", "no-alias/"+fname(fn)+"/mailbox", "bundles handed out of a mailbox are no longer reachable from it (the entry is deleted or replaced by a fresh slice), so a delivery racing with the response cannot overwrite or duplicate them", p.Pos(fn.Pos()), "", bad)
	}
	r.Min("mailbox read-modify-write sequences", 2)
	r.Count("mailbox read-modify-write sequences", nRMW)
	if mutexUsed != "" {
		for _, o := range others {
			_, held := o.ls.Held(o.a.in, mutexUsed, true)
			r.Check(held, fmt.Sprintf("lockset/%s/mailbox.%s", fname(o.fn), o.a.kind), "every write of the mailbox holds the mutex that protects its read-modify-write sequences", p.Pos(o.a.in.Pos()), "", "write without "+mutexUsed+"; held "+o.ls.HeldNames(o.a.in))
		}
	}
}

func isRestAgentField(v ssa.Value) bool {
	return core.IsField(v, agentPkg, "RestAgent", "mailbox")
}

// reaches: b is reachable from a within one function (a before b).
func reaches(a, b ssa.Instruction) bool {
	if a.Block() == b.Block() {
		ia, ib := -1, -1
		for i, in := range a.Block().Instrs {
			if in == a {
				ia = i
			}
			if in == b {
				ib = i
			}
		}
		if ia < ib {
			return true
		}
	}
	seen := map[*ssa.BasicBlock]bool{}
	stack := append([]*ssa.BasicBlock{}, a.Block().Succs...)
	for len(stack) > 0 {
		x := stack[len(stack)-1]
		stack = stack[:len(stack)-1]
		if seen[x] {
			continue
		}
		seen[x] = true
		if x == b.Block() {
			return true
		}
		stack = append(stack, x.Succs...)
	}
	return false
}

var _ = token.ADD

// checkMuxChildrenGuarded: MuxAgent.children is edited in place (unregister
// removes an element with append(s[:i], s[i+1:]...)), so every read of the
// list — also of a copy of its slice header — must happen under the mux lock:
// a reader walking an old header while an element is removed sees one child
// twice and another not at all (HasEndpoint is transiently false for a
// registered endpoint: a bundle is not delivered, a status report is sent to
// ourselves).
func checkMuxChildrenGuarded(p *core.Program, r *core.Report) {
	g := newGuardedEngine(p)
	n := g.checkGuarded(r, []guardedField{{agentPkg, "MuxAgent", "children", "pkg/agent.MuxAgent.Mutex"}}, true)
	r.Count("accesses to MuxAgent.children", n)
	r.Min("accesses to MuxAgent.children", 5)
}

// checkListingMatchesDelivery: an agent's Endpoints() decides whether the node
// takes a bundle for local delivery at all (Core.HasEndpoint, MuxAgent.handle);
// its receive function decides which clients get it. Both must read the same
// registry: an endpoint set kept beside the client table (a cache without
// reference counts) drops an endpoint for every client registered under it
// when one of them leaves. Decided for the REST agent and the WebSocket
// agent's clients: the registry field ranged over / read in Endpoints() is the
// one the delivery function ranges over / reads.
func checkListingMatchesDelivery(p *core.Program, r *core.Report) {
	regFields := func(fn *ssa.Function) map[string]bool {
		out := map[string]bool{}
		core.EachInstrDeep(fn, func(_ *ssa.Function, in ssa.Instruction) {
			c, ok := in.(ssa.CallInstruction)
			if !ok {
				return
			}
			n := core.CalleeName(c)
			if n != "sync.Map.Range" && n != "sync.Map.Load" {
				return
			}
			if _, field, ok := core.FieldOwner(core.CallRecv(c)); ok {
				out[field] = true
			}
		})
		return out
	}
	ep := p.Func(agentPkg, "RestAgent", "Endpoints")
	rb := p.Func(agentPkg, "RestAgent", "receiveBundleMessage")
	le, ld := regFields(ep), regFields(rb)
	shared := false
	for f := range le {
		if ld[f] {
			shared = true
		}
	}
	onlyShared := true
	for f := range le {
		if !ld[f] {
			onlyShared = false
		}
	}
	r.Check(shared && onlyShared, "listing-matches-delivery/"+fname(ep), "RestAgent.Endpoints() lists endpoints from the very client registry that receiveBundleMessage selects recipients from (no separate endpoint cache: one client leaving must not hide the endpoint of another client registered under it)", p.Pos(ep.Pos()), "", fmt.Sprintf("Endpoints() reads %v, delivery reads %v", keysOf(le), keysOf(ld)))
}

func keysOf(m map[string]bool) []string {
	var out []string
	for k := range m {
		out = append(out, k)
	}
	sort.Strings(out)
	return out
}

// checkDeliverGuard: AgentManager.Deliver hands the bundle to the mux only under AgentManager.HasEndpoint(destination)
// - the test of the agents' registrations, not the broader Core.HasEndpoint (which is true for every endpoint of this
// node) - and returns nil only after the hand-over. Shared by C07 and C15 ("delivered" is reported on that nil).
func checkDeliverGuard(p *core.Program, r *core.Report) {
	// Core.HasEndpoint consults the agent manager; AgentManager.HasEndpoint consults the mux;
	// AgentManager.Deliver hands the bundle to the mux only under HasEndpoint(destination)
	he := p.Func(routingPkg, "Core", "HasEndpoint")
	r.Check(len(core.CallsTo(he, routingPkg+".AgentManager.HasEndpoint")) > 0, "ownership/"+fname(he)+"/agents", "Core.HasEndpoint asks the agent manager", p.Pos(he.Pos()), "", "no call to AgentManager.HasEndpoint")
	dl := p.Func(routingPkg, "AgentManager", "Deliver")
	nSend := 0
	core.EachInstr(dl, func(in ssa.Instruction) {
		snd, ok := in.(*ssa.Send)
		if !ok {
			return
		}
		nSend++
		conds := core.DominatingConds(snd.Block())
		_, ok1 := callGuard(conds, routingPkg+".AgentManager.HasEndpoint", true)
		r.Check(ok1, "hand-over/"+fname(dl)+"/send", "Deliver hands the bundle to the agents only if an agent has the destination endpoint, and returns nil only then", p.Pos(snd.Pos()), "", "send not guarded by HasEndpoint; "+condStrings(conds))
		// every nil return passes the send
		for _, ret := range core.Returns(dl) {
			if c, ok := ret.Results[0].(*ssa.Const); ok && c.Value == nil {
				okPass := core.MustPassBefore(ret, func(i ssa.Instruction) bool { return i == ssa.Instruction(snd) })
				r.Check(okPass, "hand-over/"+fname(dl)+"/nil-return-after-send", "Deliver returns nil only after the hand-over to the multiplexer", p.Pos(ret.Pos()), "", "a nil return is reachable without the send")
			}
		}
	})
	r.Min("AgentManager.Deliver sends", 1)
	r.Count("AgentManager.Deliver sends", nSend)
}

// checkRestClientLifeCycle (audit 4): "to no other client ... also while clients register, unregister or fetch
// concurrently", "a REST client's fetches together return every bundle put into its mailbox exactly once".
//
//	(a) a bundle is put into a mailbox only for a client that is still registered, tested under the mailbox mutex; the
//	    unregistration removes the client under the same mutex (otherwise a delivery in progress re-creates the mailbox
//	    of a client whose /unregister was already answered);
//	(b) bundles taken out of a mailbox for a /fetch whose response could not be written are put back.
func checkRestClientLifeCycle(p *core.Program, r *core.Report) {
	const mtx = "pkg/agent.RestAgent.mailboxMutex"
	isF := func(v ssa.Value, f string) bool { return core.IsField(v, agentPkg, "RestAgent", f) }
	rb := p.Func(agentPkg, "RestAgent", "receiveBundleMessage")
	ls := core.ComputeLockSets(rb)
	n := 0
	for _, st := range core.CallsTo(rb, "sync.Map.Store") {
		if !isF(core.CallRecv(st), "mailbox") {
			continue
		}
		n++
		ok := false
		for _, cd := range core.DominatingConds(st.Block()) {
			ex, isEx := cd.V.(*ssa.Extract)
			if !isEx || ex.Index != 1 || !cd.True {
				continue
			}
			ld, isCall := ex.Tuple.(*ssa.Call)
			if !isCall || core.CalleeName(ld) != "sync.Map.Load" || !isF(core.CallRecv(ld), "clients") {
				continue
			}
			if !core.SameExpr(core.Arg(ld, 0), core.Arg(st, 0)) {
				continue
			}
			if _, held := ls.Held(ld, mtx, true); held {
				if ls.SameWriteRegion(ld, st, mtx) {
					ok = true
				}
			}
		}
		r.Check(ok, "rest/"+fname(rb)+"/registered-tested-with-the-mailbox", "a bundle enters a client's mailbox only if, under the same acquisition of the mailbox mutex, the client is still registered", p.Pos(st.Pos()), "", "the mailbox is written for a UUID collected earlier without re-testing it under the lock: a client whose /unregister was answered in between gets a new mailbox and the bundle in it")
	}
	r.Min("mailbox stores in receiveBundleMessage", 1)
	r.Count("mailbox stores in receiveBundleMessage", n)
	hu := p.Func(agentPkg, "RestAgent", "handleUnregister")
	lsU := core.ComputeLockSets(hu)
	for _, d := range core.CallsTo(hu, "sync.Map.Delete") {
		if !isF(core.CallRecv(d), "clients") {
			continue
		}
		_, held := lsU.Held(d, mtx, true)
		r.Check(held, "rest/"+fname(hu)+"/client-removed-with-the-mailbox", "the client is removed from the registration table under the mailbox mutex (together with its mailbox)", p.Pos(d.Pos()), "", "clients.Delete outside the mailbox mutex: a delivery that already holds the UUID stores a bundle after the unregistration was answered")
	}
	// (b)
	hf := p.Func(agentPkg, "RestAgent", "handleFetch")
	storesMailbox := func(f *ssa.Function) bool {
		found := false
		for _, g := range core.WithHelpers(f, 30) {
			for _, st := range core.CallsTo(g, "sync.Map.Store") {
				if isF(core.CallRecv(st), "mailbox") {
					found = true
				}
			}
		}
		return found
	}
	nEnc := 0
	core.EachInstr(hf, func(in ssa.Instruction) {
		c, ok := in.(*ssa.Call)
		if !ok || core.CalleeName(c) != "encoding/json.Encoder.Encode" {
			return
		}
		nEnc++
		okBack := false
		for _, blk := range hf.Blocks {
			ifi, isIf := blk.Instrs[len(blk.Instrs)-1].(*ssa.If)
			if !isIf {
				continue
			}
			x, isNil, okC := core.NilCmp(core.Cond{V: ifi.Cond, True: true})
			if !okC || !isResultOf(x, c) {
				continue
			}
			fail := blk.Succs[0]
			if isNil {
				fail = blk.Succs[1]
			}
			okBack, _ = core.MustPassAfter(fail.Instrs[0], func(i ssa.Instruction) bool {
				cc, ok := i.(ssa.CallInstruction)
				if !ok {
					return false
				}
				if core.CalleeName(cc) == "sync.Map.Store" && isF(core.CallRecv(cc), "mailbox") {
					return true
				}
				callee := core.Callee(cc)
				return callee != nil && core.IsRepo(callee) && storesMailbox(callee)
			}, core.IsReturn)
			if cc, ok := fail.Instrs[0].(ssa.CallInstruction); ok && !okBack {
				if callee := core.Callee(cc); callee != nil && core.IsRepo(callee) && storesMailbox(callee) {
					okBack = true
				}
			}
		}
		r.Check(okBack, "rest/"+fname(hf)+"/taken-bundles-returned-on-failure", "when the /fetch response cannot be written, the bundles taken out of the mailbox are put back (the client's next fetch returns them)", p.Pos(c.Pos()), "", "the write error is only logged: the bundles were removed from the mailbox, counted as delivered, and the client never gets them")
	})
	r.Min("responses written by handleFetch", 1)
	r.Count("responses written by handleFetch", nEnc)
}

// checkAgentSocketWritesBounded (audit 4): the WebSocket agent writes to a client's socket while the MuxAgent above it
// holds its lock for the fan-out (and every caller of MuxAgent.Endpoints, i.e. every dispatching, waits for that lock).
// A peer that stops reading must not block the write for ever: every NextWriter / WriteMessage of the server side of
// the agent (functions reachable from the daemon) is preceded, in the same function, by SetWriteDeadline on the same
// connection.
func checkAgentSocketWritesBounded(p *core.Program, r *core.Report) {
	reach := p.DaemonReachable()
	n := 0
	for _, fn := range p.RepoFuncs() {
		if fn.Pkg != p.Pkg(agentPkg) || fn.Blocks == nil || !reach[topFunc(fn)] {
			continue
		}
		core.EachInstr(fn, func(in ssa.Instruction) {
			c, ok := in.(*ssa.Call)
			if !ok {
				return
			}
			switch core.CalleeName(c) {
			case "github.com/gorilla/websocket.Conn.NextWriter", "github.com/gorilla/websocket.Conn.WriteMessage", "github.com/gorilla/websocket.Conn.WriteJSON":
			default:
				return
			}
			n++
			bounded := core.MustPassBefore(c, func(i ssa.Instruction) bool {
				d, ok := i.(*ssa.Call)
				return ok && core.CalleeName(d) == "github.com/gorilla/websocket.Conn.SetWriteDeadline" && core.SameExpr(core.CallRecv(d), core.CallRecv(c))
			})
			r.Check(bounded, "agent-socket/"+fname(fn)+"/write-has-a-deadline", "a write to a WebSocket client is bounded by a write deadline set on the same connection before it", p.Pos(c.Pos()), "", "the write can block for ever on a client that stopped reading; the MuxAgent delivering holds its lock meanwhile, no other agent gets a bundle and MuxAgent.Endpoints (asked for every dispatched bundle) never returns")
		})
	}
	r.Min("WebSocket writes of the agents reachable from the daemon", 1)
	r.Count("WebSocket writes of the agents reachable from the daemon", n)
}
