// Package rules holds one file per property with the repository-specific
// rules that decide it.
package rules

import "dtnverif/core"

// Rule analyses the program and records obligations in the report.
type Rule func(p *core.Program, r *core.Report)

// Registry maps property ids to their rules.
var Registry = map[string]Rule{}
