package rules

import (
	"fmt"
	"go/token"
	"go/types"
	"sort"
	"strings"

	"dtnverif/core"

	"golang.org/x/tools/go/ssa"
)

func init() { Registry["C06"] = C06 }

// nsPerUnit computes how many nanoseconds one unit of the integer value v
// represents, following constant scalings back to a time.Duration source.
func nsPerUnit(v ssa.Value, depth int) (float64, bool) {
	if depth > 10 {
		return 0, false
	}
	if isDurationType(v.Type()) {
		// a Duration value counts nanoseconds, unless it is itself scaled
		if b, ok := v.(*ssa.BinOp); ok {
			return scaleBinOp(b, depth)
		}
		return 1, true
	}
	switch x := v.(type) {
	case *ssa.Convert:
		return nsPerUnit(x.X, depth+1)
	case *ssa.ChangeType:
		return nsPerUnit(x.X, depth+1)
	case *ssa.Call:
		switch core.CalleeName(x) {
		case "time.Duration.Nanoseconds":
			return 1, true
		case "time.Duration.Microseconds":
			return 1e3, true
		case "time.Duration.Milliseconds":
			return 1e6, true
		case "time.Duration.Seconds":
			return 1e9, true
		}
	case *ssa.BinOp:
		return scaleBinOp(x, depth)
	case *ssa.Phi:
		// a clamped value: the constant edges (0) have no unit, the others must agree
		scale, found := 0.0, false
		for _, e := range x.Edges {
			if _, isC := core.ConstInt(e); isC {
				continue
			}
			s, ok := nsPerUnit(e, depth+1)
			if !ok || (found && s != scale) {
				return 0, false
			}
			scale, found = s, true
		}
		return scale, found
	}
	return 0, false
}

func scaleBinOp(b *ssa.BinOp, depth int) (float64, bool) {
	k, isC := core.ConstInt(b.Y)
	if !isC || k == 0 {
		return 0, false
	}
	s, ok := nsPerUnit(b.X, depth+1)
	if !ok {
		return 0, false
	}
	switch b.Op {
	case token.QUO:
		return s * float64(k), true
	case token.MUL:
		return s / float64(k), true
	}
	return 0, false
}

func isDurationType(t types.Type) bool {
	n, ok := t.(*types.Named)
	return ok && n.Obj().Pkg() != nil && n.Obj().Pkg().Path() == "time" && n.Obj().Name() == "Duration"
}

// mutatingMethods computes the bpv7 methods (pointer receivers) that store
// through their receiver, directly or by calling another such method on it.
func mutatingMethods(p *core.Program) map[*ssa.Function]bool {
	out := map[*ssa.Function]bool{}
	var cands []*ssa.Function
	for _, fn := range p.RepoFuncs() {
		if fn.Pkg == nil || !core.NameIs(fn.Pkg.Pkg.Path(), bp7) || fn.Signature.Recv() == nil || len(fn.Params) == 0 {
			continue
		}
		if _, isPtr := fn.Signature.Recv().Type().(*types.Pointer); !isPtr {
			continue
		}
		cands = append(cands, fn)
	}
	derivesFromRecv := func(fn *ssa.Function, addr ssa.Value) bool {
		for {
			switch x := addr.(type) {
			case *ssa.FieldAddr:
				addr = x.X
			case *ssa.IndexAddr:
				addr = x.X
			case *ssa.Parameter:
				return x == fn.Params[0]
			case *ssa.UnOp:
				// element of a slice field of the receiver
				if x.Op == token.MUL {
					addr = x.X
					continue
				}
				return false
			default:
				return false
			}
		}
	}
	changed := true
	for changed {
		changed = false
		for _, fn := range cands {
			if out[fn] {
				continue
			}
			mut := false
			core.EachInstr(fn, func(in ssa.Instruction) {
				switch x := in.(type) {
				case *ssa.Store:
					if derivesFromRecv(fn, x.Addr) {
						mut = true
					}
				case ssa.CallInstruction:
					if callee := core.Callee(x); callee != nil && out[callee] {
						if r := core.CallRecv(x); r != nil && derivesFromRecv(fn, r) {
							mut = true
						}
					}
				}
			})
			if mut {
				out[fn] = true
				changed = true
			}
		}
	}
	return out
}

// C06 — forwarded bundles are faithful copies; hop limit and lifetime respected.
func C06(p *core.Program, r *core.Report) {
	r.Explanation = "(FW) every store in the daemon's routing code through a *bpv7.Bundle / PrimaryBlock / CanonicalBlock and every call from routing code to a bpv7 method that mutates its receiver is inventoried and must be in the allow-table of the property (hop count, previous node, bundle age, algorithm-owned block 192, signature on own admin records, removal of unknown blocks); the primary block has a single writer (IdKeeper.update on locally originated bundles). (UN) every time.Duration converted to an integer that reaches a millisecond sink has net scale 10^6 ns/unit; every millisecond quantity converted to a Duration is multiplied by time.Millisecond. (GC/OR) in Core.forward the exceeded/expired edges lead to bundleDeletion and never to a send; the hop count is decremented again on every path after the sends (repeated-lookup paths treated as consistent); both previous-node values are c.NodeId. (narrow counter) the uint8 hop count is never incremented past its maximum and the overflow outcome reaches the drop decision. Not decided: byte identity of what a CLA receives."
	r.Assumptions = append(r.Assumptions,
		"Bundle.ExtensionBlock(type) is pure: two calls with the same constant on the same bundle agree on whether the block exists",
		"ConvergenceSender.Send receives a copy of the bundle (value parameter)")

	daemon := p.DaemonReachable()
	inRouting := func(fn *ssa.Function) bool {
		t := topFunc(fn)
		return t.Pkg != nil && core.NameIs(t.Pkg.Pkg.Path(), routingPkg) && daemon[fn]
	}

	// ---- (1) FW: direct stores into bundle structures from routing code
	nStores := 0
	for _, fn := range p.RepoFuncs() {
		if !inRouting(fn) {
			continue
		}
		core.EachInstr(fn, func(in ssa.Instruction) {
			st, ok := in.(*ssa.Store)
			if !ok {
				return
			}
			owner, field := storeTarget(st.Addr)
			if owner == "" {
				return
			}
			nStores++
			key := fmt.Sprintf("mutation/%s/store:%s.%s", fname(fn), owner, field)
			switch {
			case owner == "PrimaryBlock" || (owner == "Bundle" && field == "PrimaryBlock"):
				r.Check(fname(fn) == "pkg/routing.IdKeeper.update", key, "the primary block of a bundle is written by routing code only in IdKeeper.update (sequence number of a locally originated bundle)", p.Pos(st.Pos()), "", "routing code writes the primary block of a bundle in transit")
			case owner == "Bundle" && field == "CanonicalBlocks":
				conds := core.DominatingConds(st.Block())
				_, unk := callGuard(conds, bp7+".ExtensionBlockManager.IsKnown", false)
				rc, isCall := st.Val.(*ssa.Call)
				okRem := unk && isCall && isRemovalIdiom(rc) && flagGuard(conds, "BlockControlFlags", constVal(p, bp7, "RemoveBlock"), true)
				r.Check(okRem, key, "the block list is edited by routing code only to remove (append(s[:i], s[i+1:]...)) a block of unknown type that carries the RemoveBlock flag", p.Pos(st.Pos()), "", "unexpected edit of CanonicalBlocks")
			case owner == "CanonicalBlock" && field == "Value":
				okV := fname(fn) == "pkg/routing.Core.forward" && (isTypedPtr(st.Val, "HopCountBlock") || isTypedPtr(st.Val, "PreviousNodeBlock"))
				r.Check(okV, key, "a block's value is replaced only in forward, for the hop-count and previous-node blocks", p.Pos(st.Pos()), "", "unexpected replacement of a block value")
			default:
				r.Fail(key, "routing code does not write other fields of bundle structures", p.Pos(st.Pos()), "unclassified store into "+owner+"."+field)
			}
		})
	}
	r.Min("direct stores into bundle structures from routing", 4)
	r.Count("direct stores into bundle structures from routing", nStores)

	// mutating bpv7 methods called from routing code
	mut := mutatingMethods(p)
	r.Analysed["bpv7_mutating_methods"] = len(mut)
	allowCalls := map[string][]string{
		"pkg/bpv7.HopCountBlock.Increment":    {"pkg/routing.Core.forward"},
		"pkg/bpv7.HopCountBlock.Decrement":    {"pkg/routing.Core.forward"},
		"pkg/bpv7.BundleAgeBlock.Increment":   {"pkg/routing.BundleDescriptor.UpdateBundleAge"},
		"pkg/bpv7.Bundle.AddExtensionBlock":   {"pkg/routing.Core.forward", "pkg/routing.BinarySpray.SenderForBundle", "pkg/routing.Core.sendBundleAttachSignature"},
		"pkg/bpv7.BinarySprayBlock.SetCopies": {"pkg/routing.BinarySpray.SenderForBundle"},
		"pkg/bpv7.CanonicalBlock.SetCRCType":  {"pkg/routing.Core.sendBundleAttachSignature"},
	}
	nCalls := 0
	for _, fn := range p.RepoFuncs() {
		if !inRouting(fn) {
			continue
		}
		core.EachInstr(fn, func(in ssa.Instruction) {
			c, ok := in.(ssa.CallInstruction)
			if !ok {
				return
			}
			callee := core.Callee(c)
			if callee == nil || !mut[callee] {
				return
			}
			// calls on freshly built values (builder, new blocks) are not mutations of a bundle in transit
			if recv := core.CallRecv(c); recv != nil {
				if _, isAlloc := recv.(*ssa.Alloc); isAlloc {
					return
				}
				if rc, isCall := recv.(*ssa.Call); isCall && strings.Contains(core.CalleeName(rc), "Builder") {
					return
				}
			}
			name := shortName(core.CalleeName(c))
			if strings.HasPrefix(name, "pkg/bpv7.BundleBuilder.") || strings.HasSuffix(name, ".UnmarshalCbor") || strings.HasSuffix(name, ".UnmarshalJSON") {
				return
			}
			nCalls++
			okA := false
			for _, a := range allowCalls[name] {
				if a == fname(topFunc(fn)) || a == fname(fn) {
					okA = true
				}
			}
			r.Check(okA, fmt.Sprintf("mutation/%s/call:%s", fname(fn), name), "routing code changes a bundle only through the mutators the property allows (hop count, bundle age, previous node / algorithm block / signature block added)", p.Pos(c.Pos()), "", "call to a receiver-mutating bpv7 method outside the allow-table")
		})
	}
	r.Min("mutating bpv7 calls from routing", 7)
	r.Count("mutating bpv7 calls from routing", nCalls)
	// the spray block added by binary spray is type 192, the block appended in forward is the previous-node block
	fwd := p.Func(routingPkg, "Core", "forward")
	for _, c := range core.CallsTo(fwd, bp7+".Bundle.AddExtensionBlock") {
		ok := core.DependsOn(core.Arg(c, 0), func(v ssa.Value) bool {
			cc, ok := v.(*ssa.Call)
			return ok && core.NameIs(core.CalleeName(cc), bp7+".NewPreviousNodeBlock")
		})
		r.Check(ok, "mutation/"+fname(fwd)+"/adds-previous-node-only", "the only block forward adds is a previous-node block", p.Pos(c.Pos()), "", "forward adds another block")
	}

	// ---- (2) UN
	nUN := 0
	msSinks := map[string]int{bp7 + ".BundleAgeBlock.Increment": 0, bp7 + ".NewBundleAgeBlock": 0}
	for _, fn := range p.RepoFuncs() {
		core.EachInstr(fn, func(in ssa.Instruction) {
			c, ok := in.(ssa.CallInstruction)
			if !ok {
				return
			}
			idx, isSink := -1, false
			for n, i := range msSinks {
				if core.NameIs(core.CalleeName(c), n) {
					idx, isSink = i, true
				}
			}
			if !isSink {
				return
			}
			arg := core.CallArgs(c)[idx]
			if _, isC := core.ConstInt(arg); isC {
				return
			}
			s, ok := nsPerUnit(arg, 0)
			if !ok {
				return // not derived from a Duration (plain integer milliseconds)
			}
			nUN++
			r.Check(s == 1e6, fmt.Sprintf("unit/%s/%s-argument", fname(fn), shortName(core.CalleeName(c))), "a duration added to / stored in a bundle-age block is expressed in milliseconds (10^6 ns per unit)", p.Pos(c.Pos()), "scale 1e6", fmt.Sprintf("the value counts units of %g ns, not milliseconds (the age grows %gx too fast)", s, 1e6/s))
		})
	}
	// integer results of Duration scaling in the builder (lifetime in ms)
	for _, fn := range p.RepoFuncs() {
		if fn.Pkg == nil || !(core.NameIs(fn.Pkg.Pkg.Path(), bp7) || core.NameIs(fn.Pkg.Pkg.Path(), routingPkg) || core.NameIs(fn.Pkg.Pkg.Path(), storagePkg)) {
			continue
		}
		core.EachInstr(fn, func(in ssa.Instruction) {
			switch x := in.(type) {
			case *ssa.BinOp:
				// Duration(msValue) * k  : k must be time.Millisecond
				if x.Op == token.MUL && isDurationType(x.Type()) {
					if cv, ok := x.X.(*ssa.Convert); ok && (isMsSource(cv.X) || isMsParam(p, fn, cv.X)) {
						k, isC := core.ConstInt(x.Y)
						nUN++
						r.Check(isC && k == 1e6, fmt.Sprintf("unit/%s/ms-to-duration", fname(fn)), "a millisecond quantity (lifetime, bundle age) becomes a time.Duration by multiplying with time.Millisecond", p.Pos(x.Pos()), "", fmt.Sprintf("multiplied by %d ns", k))
					}
				}
				// uint64(d.Nanoseconds() / k) in bldrParseLifetime
				if x.Op == token.QUO && fn.Name() == "bldrParseLifetime" {
					if s, ok := nsPerUnit(x, 0); ok {
						nUN++
						r.Check(s == 1e6, fmt.Sprintf("unit/%s/duration-to-ms", fname(fn)), "the builder converts a duration to the lifetime in milliseconds", p.Pos(x.Pos()), "", fmt.Sprintf("scale %g ns per unit", s))
					}
				}
			}
		})
	}
	r.Min("unit conversions checked", 5)
	r.Count("unit conversions checked", nUN)

	// ---- (3) forward: checks precede the sends
	var goInstr *ssa.Go
	core.EachInstr(fwd, func(in ssa.Instruction) {
		if g, ok := in.(*ssa.Go); ok {
			goInstr = g
		}
	})
	if goInstr == nil {
		r.Unknown("drop-before-send/"+fname(fwd)+"/send-site", "forward starts the per-peer sends", p.Pos(fwd.Pos()), "no go statement found")
		return
	}
	// the goroutine is the only place that sends
	nSend := 0
	core.EachInstrDeep(fwd, func(f *ssa.Function, in ssa.Instruction) {
		if c, ok := in.(*ssa.Call); ok && c.Common().IsInvoke() && c.Common().Method.Name() == "Send" {
			nSend++
			r.Check(f != fwd, "drop-before-send/"+fname(fwd)+"/send-in-goroutine", "the bundle is sent only from the per-peer goroutines started after all checks", p.Pos(c.Pos()), "", "Send outside the goroutine")
		}
	})
	r.Min("Send invocations under forward", 1)
	r.Count("Send invocations under forward", nSend)
	type dropCheck struct {
		name   string
		match  func(c core.Cond) bool
		reason int64
	}
	incCalls := core.CallsTo(fwd, bp7+".HopCountBlock.Increment")
	checks := []dropCheck{
		{"hop-limit", func(c core.Cond) bool {
			if _, ok := core.CondIsCall(c, bp7+".HopCountBlock.IsExceeded"); ok {
				return true
			}
			_, ok := core.CondIsCall(c, bp7+".HopCountBlock.Increment")
			return ok
		}, constVal(p, bp7, "HopLimitExceeded")},
		{"lifetime", func(c core.Cond) bool { _, ok := core.CondIsCall(c, bp7+".Bundle.IsLifetimeExceeded"); return ok }, constVal(p, bp7, "LifetimeExpired")},
		{"age", func(c core.Cond) bool {
			b, ok := c.V.(*ssa.BinOp)
			if !ok || (b.Op != token.GEQ && b.Op != token.GTR) {
				return false
			}
			ex, ok := b.X.(*ssa.Extract)
			if !ok {
				return false
			}
			call, ok := ex.Tuple.(*ssa.Call)
			return ok && core.NameIs(core.CalleeName(call), routingPkg+".BundleDescriptor.UpdateBundleAge") && pathEndsWith(b.Y, "PrimaryBlock", "Lifetime")
		}, constVal(p, bp7, "LifetimeExpired")},
	}
	for _, dc := range checks {
		found := 0
		for _, blk := range fwd.Blocks {
			ifi, ok := blk.Instrs[len(blk.Instrs)-1].(*ssa.If)
			if !ok {
				continue
			}
			c := core.Cond{V: ifi.Cond, True: true, If: ifi}
			for {
				u, ok := c.V.(*ssa.UnOp)
				if !ok || u.Op != token.NOT {
					break
				}
				c.V, c.True = u.X, !c.True
			}
			if !dc.match(c) {
				continue
			}
			found++
			succ := blk.Succs[0]
			if !c.True {
				succ = blk.Succs[1]
			}
			reach := core.BlocksReachableFrom(succ)
			okNoSend := !reach[goInstr.Block()]
			okDel := false
			for b := range reach {
				for _, in := range b.Instrs {
					if cc, ok := in.(ssa.CallInstruction); ok && core.NameIs(core.CalleeName(cc), routingPkg+".Core.bundleDeletion") {
						if k, _ := core.ConstInt(core.Arg(cc, 1)); k == dc.reason {
							okDel = true
						}
					}
				}
			}
			r.Check(okNoSend && okDel, "drop-before-send/"+fname(fwd)+"/"+dc.name, "when the "+dc.name+" test says exceeded, the bundle is deleted and no send can follow", p.Pos(ifi.Pos()), "", fmt.Sprintf("exceeded edge reaches the sends: %v; reaches bundleDeletion: %v", !okNoSend, okDel))
		}
		r.Check(found > 0, "drop-before-send/"+fname(fwd)+"/"+dc.name+"/present", "forward tests the "+dc.name+" before sending", p.Pos(fwd.Pos()), "", "test not found")
	}
	// every path to the go statement passes the lifetime test and the UpdateBundleAge call
	okLT := core.MustPassBefore(goInstr, func(i ssa.Instruction) bool {
		c, ok := i.(ssa.CallInstruction)
		return ok && core.NameIs(core.CalleeName(c), bp7+".Bundle.IsLifetimeExceeded")
	})
	okAge := core.MustPassBefore(goInstr, func(i ssa.Instruction) bool {
		c, ok := i.(ssa.CallInstruction)
		return ok && core.NameIs(core.CalleeName(c), routingPkg+".BundleDescriptor.UpdateBundleAge")
	})
	okHop := core.MustPassBefore(goInstr, func(i ssa.Instruction) bool {
		c, ok := i.(ssa.CallInstruction)
		if !ok || !core.NameIs(core.CalleeName(c), bp7+".Bundle.ExtensionBlock") {
			return false
		}
		k, _ := core.ConstInt(core.Arg(c, 0))
		return k == constVal(p, bp7, "ExtBlockTypeHopCountBlock")
	})
	r.Check(okLT && okAge && okHop, "drop-before-send/"+fname(fwd)+"/all-tests-on-every-path", "no path reaches the sends without the hop-count lookup, the lifetime test and the age update", p.Pos(goInstr.Pos()), "", fmt.Sprintf("hop lookup %v, lifetime %v, age %v", okHop, okLT, okAge))

	// unsupported blocks flagged for removal are removed on the forwarding path
	// itself: a retry re-loads the bundle as it was stored at reception and does
	// not pass Core.receive again.
	rmFlag := constVal(p, bp7, "RemoveBlock")
	removalIn := func(fn *ssa.Function) []*ssa.Call {
		var out []*ssa.Call
		core.EachInstr(fn, func(in ssa.Instruction) {
			c, ok := in.(*ssa.Call)
			if !ok || !isRemovalIdiom(c) || !pathEndsWith(c.Common().Args[0].(*ssa.Slice).X, "CanonicalBlocks") {
				return
			}
			conds := core.DominatingConds(c.Block())
			if _, unk := callGuard(conds, bp7+".ExtensionBlockManager.IsKnown", false); unk && flagGuard(conds, "BlockControlFlags", rmFlag, true) {
				out = append(out, c)
			}
		})
		return out
	}
	okRm, rmWhere := false, ""
	for _, c := range removalIn(fwd) {
		if l := core.InnermostLoop(core.Loops(fwd), c.Block()); l != nil {
			hdr := l.Header
			if core.MustPassBefore(goInstr, func(i ssa.Instruction) bool { return i.Block() == hdr }) {
				okRm, rmWhere = true, "loop in forward at "+p.Pos(c.Pos())
			}
		}
	}
	if !okRm {
		core.EachInstr(fwd, func(in ssa.Instruction) {
			c, ok := in.(ssa.CallInstruction)
			if !ok {
				return
			}
			cal := core.Callee(c)
			if cal == nil || !core.IsRepo(cal) || len(removalIn(cal)) == 0 {
				return
			}
			if core.MustPassBefore(goInstr, func(i ssa.Instruction) bool { return i == in }) {
				okRm, rmWhere = true, "call to "+fname(cal)
			}
		})
	}
	r.Check(okRm, "drop-before-send/"+fname(fwd)+"/unsupported-blocks-removed-on-every-path", "every path of Core.forward to the sends passes the removal of unsupported blocks flagged 'remove' (a retry loads the stored bundle, which still has them, and does not pass Core.receive)", p.Pos(goInstr.Pos()), rmWhere, "no removal of unknown blocks flagged RemoveBlock on the path to the sends: on the n-th retry the block leaves the node")

	// increment / decrement pairing
	hopType := constVal(p, bp7, "ExtBlockTypeHopCountBlock")
	isHopLookup := func(v ssa.Value) bool {
		c, ok := v.(*ssa.Call)
		if !ok || !core.NameIs(core.CalleeName(c), bp7+".Bundle.ExtensionBlock") {
			return false
		}
		k, _ := core.ConstInt(core.Arg(c, 0))
		return k == hopType
	}
	skipNoBlock := func(from *ssa.BasicBlock, si int) bool {
		ifi, ok := from.Instrs[len(from.Instrs)-1].(*ssa.If)
		if !ok {
			return false
		}
		c := core.Cond{V: ifi.Cond, True: si == 0}
		x, isNil, ok := core.NilCmp(c)
		if !ok || isNil {
			return false
		}
		if ex, ok := x.(*ssa.Extract); ok && isHopLookup(ex.Tuple) {
			return true // "the hop-count block does not exist" is infeasible after it was found
		}
		return false
	}
	r.Min("hop count increments in forward", 1)
	r.Count("hop count increments in forward", len(incCalls))
	for _, inc := range incCalls {
		ok, exit := core.MustPassAfterSkipping(inc, func(i ssa.Instruction) bool {
			c, isC := i.(ssa.CallInstruction)
			if !isC {
				return false
			}
			n := core.CalleeName(c)
			return core.NameIs(n, bp7+".HopCountBlock.Decrement") || core.NameIs(n, routingPkg+".Core.bundleDeletion")
		}, core.IsReturn, skipNoBlock)
		d := ""
		if exit != nil {
			d = "exit at " + p.Pos(exit.Pos())
		}
		r.Check(ok, "hop-count/"+fname(fwd)+"/restored", "after the sends the stored bundle's hop count is decremented again (or the bundle is deleted), so the n-th retry transmits received+1", p.Pos(inc.Pos()), "", "a path leaves forward with the hop count still incremented; "+d)
		// guard: increment only if the block exists
		conds := core.DominatingConds(inc.Block())
		okG := false
		for _, c := range conds {
			x, isNil, ok := core.NilCmp(c)
			if ok && isNil {
				if ex, ok := x.(*ssa.Extract); ok && isHopLookup(ex.Tuple) {
					okG = true
				}
			}
		}
		r.Check(okG, "hop-count/"+fname(fwd)+"/only-if-present", "the hop count is incremented only if the bundle carries a hop-count block", p.Pos(inc.Pos()), "", "guard missing")
	}
	decs := core.CallsTo(fwd, bp7+".HopCountBlock.Decrement")
	okOnce := len(decs) == 1 && !core.InLoop(decs[0].Block()) && len(incCalls) == 1 && !core.InLoop(incCalls[0].Block())
	r.Check(okOnce, "hop-count/"+fname(fwd)+"/once", "exactly one increment and one decrement per forwarding attempt", p.Pos(fwd.Pos()), "", fmt.Sprintf("%d increments, %d decrements (or inside a loop)", len(incCalls), len(decs)))
	if len(decs) == 1 {
		// decrement happens after the goroutines were joined
		okWait := core.MustPassBefore(decs[0], func(i ssa.Instruction) bool {
			c, ok := i.(ssa.CallInstruction)
			return ok && core.NameIs(core.CalleeName(c), "sync.WaitGroup.Wait")
		})
		r.Check(okWait, "hop-count/"+fname(fwd)+"/decrement-after-join", "the hop count is restored only after all sends finished (they transmit the incremented value)", p.Pos(decs[0].Pos()), "", "Decrement reachable before WaitGroup.Wait")
	}

	// previous node = this node
	nPN := 0
	for _, c := range core.CallsTo(fwd, bp7+".NewPreviousNodeBlock") {
		nPN++
		r.Check(pathEndsWith(core.Arg(c, 0), "NodeId"), fmt.Sprintf("previous-node/%s/names-this-node#%d", fname(fwd), nPN), "the previous-node block of a forwarded bundle names this node", p.Pos(c.Pos()), "", "argument is not c.NodeId")
	}
	r.Min("previous-node constructions in forward", 2)
	r.Count("previous-node constructions in forward", nPN)

	// ---- (4) narrow counter
	checkNarrowCounter(p, r, fwd, incCalls)

	checkRemovalLoops(p, r)
	checkStaleBlockPointers(p, r)
	// the blocks this node adds on the way (previous node, routing metadata) get a number no other block has
	checkFreeNumberSearch(p, r)

	// the reception time is write-once: the age a bundle leaves with is the age
	// stored with the (immutable) bundle file plus now-Timestamp; Timestamp is
	// persisted by Sync, the grown age block is not.
	nTS := 0
	for _, fn := range p.RepoFuncs() {
		core.EachInstr(fn, func(in ssa.Instruction) {
			st, ok := in.(*ssa.Store)
			if !ok || !core.IsField(st.Addr, routingPkg, "BundleDescriptor", "Timestamp") {
				return
			}
			nTS++
			base, _, _ := core.FieldRef(st.Addr)
			a, isLocal := base.(*ssa.Alloc)
			fresh := isLocal && a.Parent() == fn
			if fresh {
				// the local must be a descriptor under construction, not a copy of an existing one
				for _, ref := range *a.Referrers() {
					if s2, isSt := ref.(*ssa.Store); isSt && s2.Addr == ssa.Value(a) {
						fresh = false
					}
				}
			}
			r.Check(fresh, fmt.Sprintf("reception-time/who-may-write/%s#%d", fname(fn), nTS), "BundleDescriptor.Timestamp (the reception time the bundle age is computed from) is written only while a descriptor is constructed; afterwards it is constant, because the stored bundle keeps the age it arrived with and every transmission adds now-Timestamp to that", p.Pos(st.Pos()), "", "the reception time of an existing descriptor is changed: it is persisted by Sync while the grown age is not, so the time before this write is lost from the age of every later retry")
		})
	}
	r.Count("stores to BundleDescriptor.Timestamp", nTS)
	r.Min("stores to BundleDescriptor.Timestamp", 2)

	// IsLifetimeExceeded covers both clocks
	ile := p.Func(bp7, "Bundle", "IsLifetimeExceeded")
	okZero := len(core.CallsTo(ile, bp7+".CreationTimestamp.IsZeroTime")) > 0 && len(core.CallsTo(ile, bp7+".BundleAgeBlock.Age")) > 0
	r.Check(okZero, "lifetime/"+fname(ile)+"/both-clocks", "IsLifetimeExceeded decides by age when the creation time is zero and by wall clock otherwise", p.Pos(ile.Pos()), "", "IsZeroTime/Age no longer consulted")
	checkAgeIncrementSaturates(p, r)
	nMs := checkMillisecondConversions(p, r, bp7, storagePkg, routingPkg)
	r.Min("millisecond <-> Duration conversions", 2)
	r.Count("millisecond <-> Duration conversions", nMs)
}

func isMsSource(v ssa.Value) bool {
	if pathEndsWith(v, "PrimaryBlock", "Lifetime") {
		return true
	}
	if c, ok := v.(*ssa.Call); ok && core.NameIs(core.CalleeName(c), bp7+".BundleAgeBlock.Age") {
		return true
	}
	return false
}

// isMsParam: v is a parameter of a conversion helper every call site of which passes a millisecond source.
func isMsParam(p *core.Program, fn *ssa.Function, v ssa.Value) bool {
	par, ok := v.(*ssa.Parameter)
	if !ok || fn.Signature.Recv() != nil {
		return false
	}
	idx := -1
	for i, q := range fn.Params {
		if q == par {
			idx = i
		}
	}
	n := 0
	for _, cs := range allCallSites(p, core.FuncName(fn)) {
		if core.Callee(cs) != fn {
			continue
		}
		n++
		if idx < 0 || !isMsSource(core.Arg(cs, idx)) {
			return false
		}
	}
	return n > 0
}

func isTypedPtr(v ssa.Value, name string) bool {
	v = core.Strip(v)
	return core.TypeIs(v.Type(), bp7, name)
}

// storeTarget classifies a store address that lies inside a bpv7 bundle
// structure: returns the owning named type and the field written.
func storeTarget(addr ssa.Value) (owner, field string) {
	for {
		switch x := addr.(type) {
		case *ssa.FieldAddr:
			n, f, ok := core.FieldOwner(x)
			if ok && n != nil && n.Obj().Pkg() != nil && core.NameIs(n.Obj().Pkg().Path(), bp7) {
				switch n.Obj().Name() {
				case "Bundle", "PrimaryBlock", "CanonicalBlock":
					if underConstruction(x.X) {
						return "", ""
					}
					return n.Obj().Name(), f
				}
			}
			addr = x.X
		case *ssa.IndexAddr:
			addr = x.X
			if core.TypeIs(x.X.Type(), bp7, "CreationTimestamp") {
				return "PrimaryBlock", "CreationTimestamp[i]"
			}
		default:
			return "", ""
		}
	}
}

// checkNarrowCounter: the uint8 hop count must not wrap, and the overflow
// outcome must reach the drop decision.
func checkNarrowCounter(p *core.Program, r *core.Report, fwd *ssa.Function, incCalls []ssa.CallInstruction) {
	inc := p.Func(bp7, "HopCountBlock", "Increment")
	nSt := 0
	core.EachInstr(inc, func(in ssa.Instruction) {
		st, ok := in.(*ssa.Store)
		if !ok || !core.IsField(st.Addr, bp7, "HopCountBlock", "Count") {
			return
		}
		b, ok := st.Val.(*ssa.BinOp)
		if !ok || b.Op != token.ADD {
			return
		}
		nSt++
		bt, _ := b.Type().Underlying().(*types.Basic)
		narrow := bt != nil && (bt.Kind() == types.Uint8 || bt.Kind() == types.Int8)
		if !narrow {
			r.OK("narrow-counter/"+fname(inc)+"/no-wrap", "the hop counter cannot wrap", p.Pos(st.Pos()), "counter is wider than 8 bits")
			return
		}
		// dominated by Count != 255 / Count < 255 / Count < Limit …
		okG := false
		conds := core.DominatingConds(st.Block())
		for _, c := range conds {
			cb, ok := c.V.(*ssa.BinOp)
			if !ok || !core.IsField(cb.X, bp7, "HopCountBlock", "Count") {
				continue
			}
			k, isC := core.ConstInt(cb.Y)
			switch {
			case isC && k == 255 && ((cb.Op == token.EQL && !c.True) || (cb.Op == token.NEQ && c.True) || (cb.Op == token.LSS && c.True) || (cb.Op == token.GEQ && !c.True)):
				okG = true
			case isC && k == 254 && ((cb.Op == token.LEQ && c.True) || (cb.Op == token.GTR && !c.True)):
				okG = true
			case core.IsField(cb.Y, bp7, "HopCountBlock", "Limit") && ((cb.Op == token.LSS && c.True) || (cb.Op == token.GEQ && !c.True)):
				okG = true // Count < Limit <= 255
			}
		}
		r.Check(okG, "narrow-counter/"+fname(inc)+"/no-wrap", "an 8-bit hop count is incremented only when it is below its maximum (255+1 wraps to 0 and defeats the limit test)", p.Pos(st.Pos()), "", "Count++ on uint8 without excluding 255: Limit=255, Count=255 wraps to 0 = not exceeded; "+condStrings(conds))
	})
	r.Min("hop count increments in HopCountBlock.Increment", 1)
	r.Count("hop count increments in HopCountBlock.Increment", nSt)
	// the overflow outcome is reported as exceeded
	okRet := false
	var vals []string
	for _, rv := range core.ReturnValues(inc, 0) {
		vals = append(vals, valStr(rv.V))
		if core.IsBoolConst(rv.V, true) {
			okRet = true
		}
	}
	sort.Strings(vals)
	// and forward uses Increment's verdict
	okUse := false
	for _, ic := range incCalls {
		v, isV := ic.(ssa.Value)
		if isV && v.Referrers() != nil && len(*v.Referrers()) > 0 {
			okUse = true
		}
	}
	r.Check(okRet && okUse, "narrow-counter/"+fname(fwd)+"/overflow-means-exceeded", "when the counter cannot be incremented any more the bundle counts as exceeded: Increment reports true on that path and forward uses Increment's verdict for the drop decision", p.Pos(inc.Pos()), "", fmt.Sprintf("Increment has a constant-true (saturated) result: %v; forward uses Increment's result: %v", okRet, okUse))
}

// checkRemovalLoops: an element removed in place (s = append(s[:i], s[i+1:]...))
// inside a loop over the same slice shifts the following element into slot i;
// the loop must therefore run downwards, or stop after the removal — otherwise
// the element after each removed one is never inspected.
func checkRemovalLoops(p *core.Program, r *core.Report) {
	n := 0
	for _, fn := range p.RepoFuncs() {
		core.EachInstr(fn, func(in ssa.Instruction) {
			c, ok := in.(*ssa.Call)
			if !ok || !isRemovalIdiom(c) {
				return
			}
			idx := c.Common().Args[0].(*ssa.Slice).High
			// the loop whose induction variable indexes the removal
			var l *core.Loop
			var hdr *ssa.BasicBlock
			if phi, ok := idx.(*ssa.Phi); ok {
				hdr = phi.Block()
			} else if b, ok := idx.(*ssa.BinOp); ok {
				if phi, ok := b.X.(*ssa.Phi); ok {
					hdr = phi.Block()
				}
			}
			for _, ll := range core.Loops(fn) {
				if ll.Header == hdr {
					l = ll
				}
			}
			if l == nil {
				return
			}
			n++
			key := "in-place-removal/" + fname(fn)
			rule := "a loop that removes element i in place either runs downwards or leaves the loop right after the removal (going upwards, the element that slides into slot i would be skipped — e.g. the second of two adjacent unknown blocks flagged for removal)"
			// direction of the induction variable
			down, up := false, false
			if phi, ok := idx.(*ssa.Phi); ok {
				for _, e := range phi.Edges {
					if b, ok := e.(*ssa.BinOp); ok && b.X == ssa.Value(phi) {
						k, isC := core.ConstInt(b.Y)
						if isC && ((b.Op == token.ADD && k < 0) || (b.Op == token.SUB && k > 0)) {
							down = true
						}
						if isC && ((b.Op == token.ADD && k > 0) || (b.Op == token.SUB && k < 0)) {
							up = true
						}
					}
				}
			} else if b, ok := idx.(*ssa.BinOp); ok {
				// rangeindex: idx = phi + 1
				if _, isPhi := b.X.(*ssa.Phi); isPhi && b.Op == token.ADD {
					up = true
				}
			}
			// does control return to the loop header after the removal?
			returns := core.BlocksReachableFrom(in.Block())[l.Header] && reachesWithinLoop(in.Block(), l)
			switch {
			case down && !up:
				r.OK(key, rule, p.Pos(in.Pos()), "loop runs downwards")
			case !returns:
				r.OK(key, rule, p.Pos(in.Pos()), "the loop is left after the removal")
			default:
				r.Fail(key, rule, p.Pos(in.Pos()), "upward loop continues after removing element i in place")
			}
		})
	}
	r.Min("in-place removals inside loops", 5)
	r.Count("in-place removals inside loops", n)
}

// isRemovalIdiom: append(s[:i], s[i+1:]...)
func isRemovalIdiom(c *ssa.Call) bool {
	b, ok := c.Common().Value.(*ssa.Builtin)
	if !ok || b.Name() != "append" || len(c.Common().Args) != 2 {
		return false
	}
	a0, ok0 := c.Common().Args[0].(*ssa.Slice)
	a1, ok1 := c.Common().Args[1].(*ssa.Slice)
	if !ok0 || !ok1 || a0.High == nil || a1.Low == nil || a0.Low != nil || a1.High != nil {
		return false
	}
	plus, isB := a1.Low.(*ssa.BinOp)
	if !isB || plus.Op != token.ADD || plus.X != a0.High {
		return false
	}
	k, isC := core.ConstInt(plus.Y)
	return isC && k == 1
}

// reachesWithinLoop: from block b the loop header can be reached again without leaving the loop.
func reachesWithinLoop(b *ssa.BasicBlock, l *core.Loop) bool {
	seen := map[*ssa.BasicBlock]bool{}
	stack := append([]*ssa.BasicBlock{}, b.Succs...)
	for len(stack) > 0 {
		x := stack[len(stack)-1]
		stack = stack[:len(stack)-1]
		if seen[x] || !l.Blocks[x] {
			continue
		}
		seen[x] = true
		if x == l.Header {
			return true
		}
		stack = append(stack, x.Succs...)
	}
	return false
}

// checkMillisecondConversions: lifetimes, ages and residence times are unsigned numbers of milliseconds that come off
// the wire or out of the store; as a time.Duration (int64 nanoseconds) they are multiplied by 10^6. A product beyond the
// Duration's range wraps to an arbitrary, perhaps negative value: a bundle that never expires is taken for expired.
// Every multiplication of a Duration converted from a 64-bit unsigned value by a constant of at least 1000 is dominated
// by an upper-bound test of that value; and every signed millisecond count that is converted to an unsigned age is
// dominated by a non-negative test (a wall clock set back makes time.Since negative).
func checkMillisecondConversions(p *core.Program, r *core.Report, pkgs ...string) int {
	want := map[*ssa.Package]bool{}
	for _, rel := range pkgs {
		want[p.Pkg(rel)] = true
	}
	n := 0
	for _, fn := range p.RepoFuncs() {
		if !want[fn.Pkg] || fn.Blocks == nil {
			continue
		}
		nR, nS := 0, 0
		core.EachInstr(fn, func(in ssa.Instruction) {
			switch x := in.(type) {
			case *ssa.BinOp:
				if x.Op != token.MUL || !isDurationType(x.Type()) {
					return
				}
				for _, pair := range [][2]ssa.Value{{x.X, x.Y}, {x.Y, x.X}} {
					k, isC := core.ConstInt(pair[1])
					cv, isConv := pair[0].(*ssa.Convert)
					if !isC || k < 1000 || !isConv {
						continue
					}
					bt, isB := cv.X.Type().Underlying().(*types.Basic)
					if !isB || (bt.Kind() != types.Uint64 && bt.Kind() != types.Uint) {
						continue
					}
					n++
					nR++
					r.Check(upperBounded(in.Block(), cv.X), fmt.Sprintf("duration-range/%s#%d", fname(fn), nR), "an unsigned 64-bit millisecond count is multiplied into a Duration only behind an upper-bound test (otherwise a huge lifetime wraps around and the bundle counts as expired)", p.Pos(in.Pos()), "", "no upper bound on the converted value dominates the multiplication")
				}
			case *ssa.Convert:
				// uint64(d.Milliseconds()) / uint64(int64 value derived from time.Since)
				bt, isB := x.Type().Underlying().(*types.Basic)
				st, isS := x.X.Type().Underlying().(*types.Basic)
				if !isB || !isS || bt.Kind() != types.Uint64 || st.Kind() != types.Int64 {
					return
				}
				fromClock := core.DependsOn(x.X, func(v ssa.Value) bool {
					c, ok := v.(*ssa.Call)
					return ok && (core.CalleeName(c) == "time.Since" || core.CalleeName(c) == "time.Time.Sub")
				})
				if !fromClock {
					return
				}
				n++
				okNN := false
				// the clamp idiom: d := x; if d < 0 { d = 0 } - a phi of a non-negative constant and the value on the
				// edge on which it was found non-negative
				if phi, isPhi := x.X.(*ssa.Phi); isPhi {
					all := true
					for i, e := range phi.Edges {
						if k, isC := core.ConstInt(e); isC && k >= 0 {
							continue
						}
						pred := phi.Block().Preds[i]
						conds := core.DominatingConds(pred)
						if ifi, isIf := pred.Instrs[len(pred.Instrs)-1].(*ssa.If); isIf {
							conds = append(conds, core.Cond{V: ifi.Cond, True: pred.Succs[0] == phi.Block()})
						}
						edgeOK := false
						for _, cd := range conds {
							if b, ok := cd.V.(*ssa.BinOp); ok && b.X == e {
								if z, isC := core.ConstInt(b.Y); isC && z == 0 {
									if (b.Op == token.LSS && !cd.True) || (b.Op == token.GEQ && cd.True) || (b.Op == token.GTR && cd.True) || (b.Op == token.LEQ && !cd.True) {
										edgeOK = true
									}
								}
							}
						}
						if !edgeOK {
							all = false
						}
					}
					okNN = all
				}
				for _, cd := range core.DominatingConds(in.Block()) {
					b, ok := cd.V.(*ssa.BinOp)
					if !ok {
						continue
					}
					if z, isC := core.ConstInt(b.Y); isC && z == 0 {
						if (b.Op == token.LSS && !cd.True) || (b.Op == token.GEQ && cd.True) || (b.Op == token.GTR && cd.True) || (b.Op == token.LEQ && !cd.True) {
							if core.DependsOn(x.X, func(v ssa.Value) bool { return v == b.X }) || core.DependsOn(b.X, func(v ssa.Value) bool { return v == x.X }) || sameClockSource(b.X, x.X) {
								okNN = true
							}
						}
					}
				}
				nS++
				r.Check(okNN, fmt.Sprintf("duration-sign/%s#%d", fname(fn), nS), "a time difference taken from the wall clock becomes an unsigned age only behind a non-negative test (a clock set back, e.g. a reboot without RTC, makes it negative; as uint64 it is about 1.8e19 ms and the bundle is deleted as expired)", p.Pos(in.Pos()), "", "no test that the difference is not negative dominates the conversion")
			}
		})
	}
	return n
}

// sameClockSource: both values derive from the same time.Since / Sub call.
func sameClockSource(a, b ssa.Value) bool {
	var ca *ssa.Call
	core.DependsOn(a, func(v ssa.Value) bool {
		if c, ok := v.(*ssa.Call); ok && (core.CalleeName(c) == "time.Since" || core.CalleeName(c) == "time.Time.Sub") {
			ca = c
			return true
		}
		return false
	})
	if ca == nil {
		return false
	}
	return core.DependsOn(b, func(v ssa.Value) bool { return v == ssa.Value(ca) })
}

// checkAgeIncrementSaturates: the bundle age is an unsigned 64-bit count of milliseconds, accepted from the wire up to
// its maximum ("never expires" lifetimes come with ages near it). Adding the residence time must not wrap around: a
// wrapped age is a young one, the expired bundle would be transmitted. The sum is tested for the wrap (sum < operand)
// and the value stored is a selection between the sum and a constant.
func checkAgeIncrementSaturates(p *core.Program, r *core.Report) {
	inc := p.Func(bp7, "BundleAgeBlock", "Increment")
	n := 0
	core.EachInstr(inc, func(in ssa.Instruction) {
		add, ok := in.(*ssa.BinOp)
		if !ok || add.Op != token.ADD {
			return
		}
		if bt, isB := add.Type().Underlying().(*types.Basic); !isB || bt.Kind() != types.Uint64 {
			return
		}
		n++
		wrapTest := false
		core.EachInstr(inc, func(i2 ssa.Instruction) {
			b, ok := i2.(*ssa.BinOp)
			if !ok {
				return
			}
			if big, small, strict, isOrd := core.Greater(b); isOrd && strict && small == ssa.Value(add) && (big == add.X || big == add.Y) {
				wrapTest = true
			}
		})
		clamped := false
		for _, ref := range *add.Referrers() {
			if phi, isPhi := ref.(*ssa.Phi); isPhi {
				for _, e := range phi.Edges {
					if _, isC := e.(*ssa.Const); isC {
						clamped = true
					}
				}
			}
		}
		r.Check(wrapTest && clamped, "age/"+fname(inc)+"/no-wrap", "adding the residence time to the bundle age cannot wrap around: the sum is tested against an operand (sum < operand means overflow) and replaced by a constant then", p.Pos(add.Pos()), "", fmt.Sprintf("wrap test present: %v, clamped value selected: %v — an age near 2^64 plus 50 ms becomes 69 ms and the expired bundle is forwarded", wrapTest, clamped))
	})
	r.Min("additions in BundleAgeBlock.Increment", 1)
	r.Count("additions in BundleAgeBlock.Increment", n)
}


// checkStaleBlockPointers: Bundle.ExtensionBlock / PayloadBlock hand out a
// pointer INTO Bundle.CanonicalBlocks. Removing or adding a block (or sorting
// the blocks) moves the elements, so a pointer taken before such a change
// addresses another block afterwards. No path may lead from a look-up through
// a change of a block list to a use of the pointer without a new look-up.
func checkStaleBlockPointers(p *core.Program, r *core.Report) {
	// functions that change a block list: a store to a CanonicalBlocks field, and *Bundle methods calling such
	writes := func(fn *ssa.Function) bool {
		w := false
		core.EachInstr(fn, func(in ssa.Instruction) {
			if st, ok := in.(*ssa.Store); ok {
				if fa, ok := st.Addr.(*ssa.FieldAddr); ok && fieldNameOf(fa) == "CanonicalBlocks" {
					w = true
				}
			}
		})
		return w
	}
	mut := map[*ssa.Function]bool{}
	for _, fn := range p.RepoFuncs() {
		if fn.Signature.Recv() != nil && strings.HasSuffix(fn.Signature.Recv().Type().String(), "bpv7.Bundle") && writes(fn) {
			mut[fn] = true
		}
	}
	for changed := true; changed; {
		changed = false
		for _, fn := range p.RepoFuncs() {
			if mut[fn] || fn.Signature.Recv() == nil || !strings.HasSuffix(fn.Signature.Recv().Type().String(), "bpv7.Bundle") {
				continue
			}
			core.EachInstr(fn, func(in ssa.Instruction) {
				if c, ok := in.(ssa.CallInstruction); ok && mut[core.Callee(c)] {
					if !mut[fn] {
						mut[fn] = true
						changed = true
					}
				}
			})
		}
	}
	nLook := 0
	for _, fn := range p.RepoFuncs() {
		if fn.Pkg != nil && strings.HasSuffix(fn.Pkg.Pkg.Path(), "pkg/bpv7") && mut[fn] {
			continue // the mutators themselves work on indices
		}
		var changes []ssa.Instruction
		core.EachInstr(fn, func(in ssa.Instruction) {
			switch x := in.(type) {
			case *ssa.Store:
				if fa, ok := x.Addr.(*ssa.FieldAddr); ok && fieldNameOf(fa) == "CanonicalBlocks" {
					changes = append(changes, in)
				}
			case ssa.CallInstruction:
				if mut[core.Callee(x)] {
					changes = append(changes, in)
				}
			}
		})
		core.EachInstr(fn, func(in ssa.Instruction) {
			c, ok := in.(*ssa.Call)
			if !ok {
				return
			}
			cn := core.CalleeName(c)
			if !core.NameIs(cn, bp7+".Bundle.ExtensionBlock") && !core.NameIs(cn, bp7+".Bundle.PayloadBlock") && !core.NameIs(cn, bp7+".Bundle.ExtensionBlockByBlockNumber") {
				return
			}
			nLook++
			if len(changes) == 0 {
				return
			}
			// uses of the pointer (through extract / phi / field address)
			var uses []ssa.Instruction
			seen := map[ssa.Value]bool{}
			var follow func(v ssa.Value)
			follow = func(v ssa.Value) {
				if seen[v] || v.Referrers() == nil {
					return
				}
				seen[v] = true
				for _, ref := range *v.Referrers() {
					switch x := ref.(type) {
					case *ssa.DebugRef:
					case *ssa.Extract:
						if x.Index == 0 {
							follow(x)
						}
					case *ssa.Phi:
						follow(x)
					case *ssa.FieldAddr:
						uses = append(uses, x)
					default:
						uses = append(uses, ref)
					}
				}
			}
			follow(c)
			key := "stale-block-pointer/" + fname(fn) + "/" + shortName(cn) + "@" + constArgStr(c)
			rule := "a *CanonicalBlock handed out by a look-up points into the bundle's block slice; it is not used on a path on which a block was removed, added or the blocks were sorted after the look-up (the slot then holds another block)"
			bad := ""
			for _, m := range changes {
				if !pathBetween(in, m, nil) {
					continue
				}
				for _, u := range uses {
					if pathBetween(m, u, in) {
						bad = fmt.Sprintf("looked up at %s, the block list is changed at %s, the pointer is used at %s", p.Pos(in.Pos()), p.Pos(m.Pos()), p.Pos(u.Pos()))
					}
				}
			}
			r.Check(bad == "", key, rule, p.Pos(in.Pos()), "", bad+": a stored bundle with an unknown block flagged for removal in front of the block looked up gets the update written into the block that slid into its slot")
		})
	}
	r.Min("block look-ups that hand out a pointer into the block slice", 10)
	r.Count("block look-ups that hand out a pointer into the block slice", nLook)
}

func fieldNameOf(fa *ssa.FieldAddr) string {
	t := fa.X.Type().Underlying()
	if pt, ok := t.(*types.Pointer); ok {
		if st, ok := pt.Elem().Underlying().(*types.Struct); ok && fa.Field < st.NumFields() {
			return st.Field(fa.Field).Name()
		}
	}
	return ""
}

func constArgStr(c *ssa.Call) string {
	for _, a := range c.Common().Args {
		if k, ok := a.(*ssa.Const); ok && k.Value != nil {
			return k.Value.String()
		}
	}
	return "-"
}

func instrIdx(in ssa.Instruction) int {
	for i, x := range in.Block().Instrs {
		if x == in {
			return i
		}
	}
	return -1
}

// pathBetween: some CFG path leads from just behind a to b without executing avoid (nil: no restriction).
func pathBetween(a, b, avoid ssa.Instruction) bool {
	blocked := func(blk *ssa.BasicBlock, from, to int) bool { // avoid lies in blk within (from, to)
		if avoid == nil || avoid.Block() != blk {
			return false
		}
		i := instrIdx(avoid)
		return i > from && i < to
	}
	if a.Block() == b.Block() && instrIdx(a) < instrIdx(b) && !blocked(a.Block(), instrIdx(a), instrIdx(b)) {
		return true
	}
	if blocked(a.Block(), instrIdx(a), len(a.Block().Instrs)) {
		return false
	}
	seen := map[*ssa.BasicBlock]bool{}
	work := append([]*ssa.BasicBlock{}, a.Block().Succs...)
	for len(work) > 0 {
		blk := work[len(work)-1]
		work = work[:len(work)-1]
		if seen[blk] {
			continue
		}
		seen[blk] = true
		if blk == b.Block() && !blocked(blk, -1, instrIdx(b)) {
			return true
		}
		if blocked(blk, -1, len(blk.Instrs)) {
			continue
		}
		work = append(work, blk.Succs...)
	}
	return false
}
