package rules

import (
	"fmt"
	"go/token"
	"go/types"
	"sort"
	"strings"

	"dtnverif/core"

	"golang.org/x/tools/go/ssa"
)

func init() { Registry["C16"] = C16 }

const claPkg = "pkg/cla"

func isTTLAddr(v ssa.Value) bool { return core.IsField(v, claPkg, "convergenceElem", "ttl") }

// C16 — the CLA manager reports an adapter active exactly while it is started.
func C16(p *core.Program, r *core.Report) {
	r.Explanation = "Decides the representation invariant the property rests on — convergenceElem.ttl < 0 iff the most recent Start succeeded and the stop channels exist — by a sign/typestate rule over every writer of ttl (all resolved through go/types), plus the structural wiring of Manager: who deletes/stores registry entries under which activation result, complete iteration on shutdown, stop-once guard. Not decided: traces of the reference state machine as a whole, deadlock freedom on the unbuffered out channel, races between isActive() outside the mutex and a concurrent deactivate."
	r.Assumptions = append(r.Assumptions,
		"sync/atomic Load/Store/AddInt32 have their documented meaning",
		"Manager.queueTtl is only written by the constructor (checked) with a positive constant")

	mtx := "pkg/cla.convergenceElem.mutex"

	// isActive() is `ttl < 0`
	isActive := p.Func(claPkg, "convergenceElem", "isActive")
	okIA := false
	for _, rv := range core.ReturnValues(isActive, 0) {
		if b, ok := rv.V.(*ssa.BinOp); ok {
			// ttl < 0, or 0 > ttl
			if big, small, strict, isOrd := core.Greater(b); isOrd && strict {
				if z, isC := core.ConstInt(big); isC && z == 0 {
					if c, ok := small.(*ssa.Call); ok && core.NameIs(core.CalleeName(c), "sync/atomic.LoadInt32") && isTTLAddr(core.Arg(c, 0)) {
						okIA = true
					}
				}
			}
		}
	}
	r.Check(okIA, "ttl-sign/pkg/cla.convergenceElem.isActive/definition", "isActive() is exactly ttl < 0", p.Pos(isActive.Pos()), "", "isActive is no longer `atomic.LoadInt32(&ttl) < 0`")

	// queueTtl writers: positive constants only
	nQ := 0
	for _, fn := range p.RepoFuncs() {
		core.EachInstr(fn, func(in ssa.Instruction) {
			st, ok := in.(*ssa.Store)
			if !ok || !core.IsField(st.Addr, claPkg, "Manager", "queueTtl") {
				return
			}
			nQ++
			v, isC := core.ConstInt(st.Val)
			r.Check(isC && v > 0, "ttl-sign/"+fname(fn)+"/queueTtl", "Manager.queueTtl (the budget handed to new and deactivated elements) is a positive constant", p.Pos(st.Pos()), fmt.Sprintf("= %d", v), "queueTtl is not a positive constant")
		})
	}
	r.Min("queueTtl writers", 1)
	r.Count("queueTtl writers", nQ)

	// ---- every writer of ttl
	nW := 0
	for _, fn := range p.RepoFuncs() {
		var ls *core.LockSets
		core.EachInstr(fn, func(in ssa.Instruction) {
			key := "ttl-sign/" + fname(fn) + "/"
			switch x := in.(type) {
			case *ssa.Store:
				if !isTTLAddr(x.Addr) {
					return
				}
				nW++
				r.Check(nonNegative(p, x.Val, fn), key+"plain-store", "a plain store into ttl (constructor) stores a non-negative budget", p.Pos(x.Pos()), "", "value may be negative: "+valStr(x.Val))
			case *ssa.Call:
				name := core.CalleeName(x)
				if !core.NameIs(name, "sync/atomic.StoreInt32") && !core.NameIs(name, "sync/atomic.AddInt32") &&
					!core.NameIs(name, "sync/atomic.CompareAndSwapInt32") && !core.NameIs(name, "sync/atomic.SwapInt32") {
					return
				}
				args := core.CallArgs(x)
				if !isTTLAddr(args[0]) {
					return
				}
				nW++
				if ls == nil {
					ls = core.ComputeLockSets(fn)
				}
				_, held := ls.Held(x, mtx, true)
				r.Check(held, key+"write-under-mutex", "ttl is modified only while the element's mutex is held", p.Pos(x.Pos()), "", "held: "+ls.HeldNames(x))
				conds := core.DominatingConds(x.Block())
				switch {
				case core.NameIs(name, "sync/atomic.StoreInt32"):
					v, isC := core.ConstInt(args[1])
					if isC && v < 0 {
						// (a) only after a successful Start, together with channels and handler
						okStart := false
						for _, sc := range startInvokes(fn) {
							if errNilGuard(conds, sc) {
								okStart = true
							}
						}
						r.Check(okStart, key+"negative-store", "ttl becomes negative (active) only on the err==nil edge of Convergence.Start()", p.Pos(x.Pos()), "", "guard missing; "+condStrings(conds))
						for _, f := range []string{"stopSyn", "stopAck"} {
							ok, _ := core.MustPassAfter(x, func(i ssa.Instruction) bool {
								st, isSt := i.(*ssa.Store)
								if !isSt || !core.IsField(st.Addr, claPkg, "convergenceElem", f) {
									return false
								}
								_, isMk := st.Val.(*ssa.MakeChan)
								return isMk
							}, core.IsReturn)
							r.Check(ok, key+"negative-store/creates-"+f, "becoming active creates a fresh "+f+" channel before returning", p.Pos(x.Pos()), "", "a return is reachable without creating "+f)
						}
						ok, _ := core.MustPassAfter(x, func(i ssa.Instruction) bool {
							g, isGo := i.(*ssa.Go)
							return isGo && core.NameIs(core.CalleeName(g), claPkg+".convergenceElem.handler")
						}, core.IsReturn)
						r.Check(ok, key+"negative-store/starts-handler", "becoming active starts the element's handler goroutine", p.Pos(x.Pos()), "", "a return is reachable without `go ce.handler()`")
					} else {
						r.Check(nonNegative(p, args[1], fn), key+"store", "every other store into ttl is non-negative (inactive)", p.Pos(x.Pos()), valStr(args[1]), "value may be negative: "+valStr(args[1]))
					}
				case core.NameIs(name, "sync/atomic.AddInt32"):
					d, isC := core.ConstInt(args[1])
					if !isC {
						r.Unknown(key+"add", "ttl is changed by constant steps", p.Pos(x.Pos()), "non-constant delta")
						return
					}
					if d < 0 {
						// must be dominated by ttl > 0
						ok := false
						for _, c := range conds {
							if ttlPositive(c) {
								ok = true
							}
						}
						r.Check(ok && d == -1, key+"decrement", "the retry budget is decremented only when it is positive, so a failing adapter never becomes `active` (ttl<0) by underflow", p.Pos(x.Pos()), "", "decrement reachable with ttl == 0 (permanent adapter): ttl becomes -1 = active; "+condStrings(conds))
					} else {
						r.Unknown(key+"add", "ttl is only ever decremented by 1 or stored", p.Pos(x.Pos()), "positive delta")
					}
				default:
					r.Unknown(key+"cas", "ttl writers are Store/Add", p.Pos(x.Pos()), "CAS/Swap on ttl is outside the enumerated idioms")
				}
			}
		})
	}
	r.Min("writers of convergenceElem.ttl", 4)
	r.Count("writers of convergenceElem.ttl", nW)

	// ---- activate: successful=true only on Start()==nil; Start not called on active element
	act := p.Func(claPkg, "convergenceElem", "activate")
	nTrue := 0
	for _, rv := range core.ReturnValues(act, 0) {
		if core.IsBoolConst(rv.V, false) {
			continue
		}
		if c, ok := rv.V.(*ssa.Const); ok && c.Value == nil {
			continue // zero value
		}
		nTrue++
		conds := core.DominatingConds(rv.At.Block())
		ok := false
		for _, sc := range startInvokes(act) {
			if errNilGuard(conds, sc) {
				ok = true
			}
		}
		if _, already := callGuard(conds, claPkg+".convergenceElem.isActive", true); already {
			// the element was started before (ttl < 0 is written only after a successful Start): reporting
			// success keeps callers from giving the running adapter up
			ok = true
		}
		r.Check(ok && core.IsBoolConst(rv.V, true), "activation/"+fname(act)+"/successful-result", "activate reports success only on the err==nil edge of Start(), or for an element that is already active", p.Pos(rv.At.Pos()), "", "successful may be true without a successful Start; "+condStrings(conds))
	}
	// an element that is found active is never reported as a failure without retry (the caller would forget it while it runs)
	for _, rv := range core.ReturnValues(act, 0) {
		if _, already := callGuard(core.DominatingConds(rv.At.Block()), claPkg+".convergenceElem.isActive", true); already {
			r.Check(core.IsBoolConst(rv.V, true), "activation/"+fname(act)+"/active-is-success", "activate on an element that is already active (e.g. a retry tick racing with a registration) reports success: (false,false) makes the retry loop delete a running adapter from the registry", p.Pos(rv.At.Pos()), "", "an active element is reported as not successful")
		}
	}
	// the active test that guards Start is made while holding the element's mutex
	lsAct := core.ComputeLockSets(act)
	for _, sc := range startInvokes(act) {
		call, g := callGuard(core.DominatingConds(sc.(*ssa.Call).Block()), claPkg+".convergenceElem.isActive", false)
		held := false
		if g {
			_, held = lsAct.Held(call, mtx, true)
		}
		r.Check(g && held, "activation/"+fname(act)+"/active-test-under-mutex", "the isActive() test that guards Start() is made while holding the element's mutex (two concurrent activations must not both start the adapter)", p.Pos(sc.(*ssa.Call).Pos()), "", "isActive() is tested before the mutex is taken: a retry tick and a registration can both pass it and start one adapter twice")
	}
	// registrations are serialised: look-up, start and store of one address do not interleave
	rcFn := p.Func(claPkg, "Manager", "registerConvergence")
	lsRc := core.ComputeLockSets(rcFn)
	okSer := true
	nSer := 0
	core.EachInstr(rcFn, func(in ssa.Instruction) {
		c, ok := in.(ssa.CallInstruction)
		if !ok {
			return
		}
		n := core.CalleeName(c)
		if n == "sync.Map.Load" || n == "sync.Map.Store" || core.NameIs(n, claPkg+".convergenceElem.activate") {
			nSer++
			if len(lsRc.At[in]) == 0 {
				okSer = false
			}
		}
	})
	r.Check(okSer && nSer >= 3, "single-instance/"+fname(rcFn)+"/serialised", "a registration looks the address up, starts the adapter and stores the element under one manager-wide lock: two registrations of one address (two discovery announcements) cannot both start an instance", p.Pos(rcFn.Pos()), "", "registry look-up / activate / store are not all inside a locked region")
	r.Check(nTrue > 0, "activation/"+fname(act)+"/has-success", "activate has a success result", p.Pos(act.Pos()), "", "no true result")
	for _, sc := range startInvokes(act) {
		conds := core.DominatingConds(sc.(*ssa.Call).Block())
		_, ok := callGuard(conds, claPkg+".convergenceElem.isActive", false)
		r.Check(ok, "activation/"+fname(act)+"/start-only-inactive", "Start() is invoked only on an element that is not active (single instance)", p.Pos(sc.(*ssa.Call).Pos()), "", "guard missing; "+condStrings(conds))
		// budget exhausted and not permanent => no Start
		okBudget := core.GuardedByAny(sc.(*ssa.Call).Block(), func(c core.Cond) bool {
			if call, ok := c.V.(*ssa.Call); ok && call.Common().IsInvoke() && call.Common().Method.Name() == "IsPermanent" && c.True {
				return true
			}
			if b, ok := c.V.(*ssa.BinOp); ok && isTTLLoad(b.X) {
				if z, isC := core.ConstInt(b.Y); isC && z == 0 {
					return (b.Op == token.EQL && !c.True) || (b.Op == token.NEQ && c.True) || (b.Op == token.GTR && c.True) || (b.Op == token.LEQ && !c.True)
				}
			}
			return false
		})
		r.Check(okBudget, "activation/"+fname(act)+"/budget-gate", "a non-permanent adapter with an exhausted budget (ttl == 0) is not started again", p.Pos(sc.(*ssa.Call).Pos()), "", "Start reachable with ttl==0 and !IsPermanent()")
	}
	// retry result is false when budget exhausted: the return on the ttl==0&&!permanent arm is (false,false)
	// no-retry failure stores 0
	for _, c := range core.CallsTo(act, "sync/atomic.StoreInt32") {
		if v, isC := core.ConstInt(core.Arg(c, 1)); isC && v == 0 && isTTLAddr(core.Arg(c, 0)) {
			conds := core.DominatingConds(c.Block())
			ok := false
			for _, cd := range conds {
				if ex, isEx := cd.V.(*ssa.Extract); isEx && ex.Index == 1 && !cd.True {
					for _, sc := range startInvokes(act) {
						if ex.Tuple == sc {
							ok = true
						}
					}
				}
			}
			r.Check(ok, "activation/"+fname(act)+"/no-retry-clears-budget", "the budget is cleared only when Start() said that no retry shall be made", p.Pos(c.Pos()), "", "guard missing; "+condStrings(conds))
		}
	}

	// ... and it IS cleared then: an adapter whose Start() failed and asked for no further retry must be forgotten,
	// also when its element is kept in the registry by a caller that relies on the zero budget (a second
	// registration of an inactive element only logs the failure)
	nNR := 0
	for _, blk := range act.Blocks {
		ifi, ok := blk.Instrs[len(blk.Instrs)-1].(*ssa.If)
		if !ok {
			continue
		}
		ex, ok := ifi.Cond.(*ssa.Extract)
		if !ok || ex.Index != 1 {
			continue
		}
		isStart := false
		for _, sc := range startInvokes(act) {
			if ex.Tuple == sc {
				isStart = true
			}
		}
		if !isStart {
			continue
		}
		nNR++
		isZero := func(i ssa.Instruction) bool {
			c, ok := i.(*ssa.Call)
			if !ok || core.CalleeName(c) != "sync/atomic.StoreInt32" || !isTTLAddr(core.Arg(c, 0)) {
				return false
			}
			k, isC := core.ConstInt(core.Arg(c, 1))
			return isC && k == 0
		}
		okZ, exit := core.MustPassAfterSkipping(ifi, isZero, core.IsReturn, func(from *ssa.BasicBlock, succIdx int) bool { return from == blk && succIdx == 0 })
		d := ""
		if !okZ && exit != nil {
			d = "the return at " + p.Pos(exit.Pos()) + " is reached on the no-retry edge with the budget untouched: the next retry tick (or a further registration) starts the adapter again although it asked not to be retried"
		}
		r.Check(okZ, "activation/"+fname(act)+"/no-retry-means-zero-budget", "when Start() fails and says that no retry shall be made, the retry budget is set to 0 on every path (the element is then forgotten by the retry loop and never started again)", p.Pos(ifi.Pos()), "", d)
	}
	r.Count("retry-wish tests in activate", nNR)
	r.Min("retry-wish tests in activate", 1)

	// ---- deactivate: close only when active, under the mutex, then wait for the ack
	deact := p.Func(claPkg, "convergenceElem", "deactivate")
	nClose := 0
	dls := core.ComputeLockSets(deact)
	core.EachInstr(deact, func(in ssa.Instruction) {
		c, ok := in.(*ssa.Call)
		if !ok {
			return
		}
		if b, ok := c.Common().Value.(*ssa.Builtin); !ok || b.Name() != "close" {
			return
		}
		nClose++
		conds := core.DominatingConds(c.Block())
		_, g := callGuard(conds, claPkg+".convergenceElem.isActive", true)
		r.Check(g && pathEndsWith(c.Common().Args[0], "stopSyn"), "stop-once/"+fname(deact)+"/close-guarded", "stopSyn is closed only if the element is active (channels exist, not closed before): stopping happens exactly once", p.Pos(c.Pos()), "", "close not guarded by isActive(); "+condStrings(conds))
		_, held := dls.Held(c, mtx, true)
		r.Check(held, "stop-once/"+fname(deact)+"/close-under-mutex", "the stop handshake runs under the element's mutex", p.Pos(c.Pos()), "", "held: "+dls.HeldNames(c))
		// the active test that guards the close is made under the same mutex
		ac, g2 := callGuard(conds, claPkg+".convergenceElem.isActive", true)
		heldTest := false
		if g2 {
			_, heldTest = dls.Held(ac, mtx, true)
		}
		r.Check(g2 && heldTest, "stop-once/"+fname(deact)+"/active-test-under-mutex", "the isActive() test that guards close(stopSyn) is made while holding the element's mutex: of two concurrent deactivations (Unregister racing with Close) only one may stop the adapter", p.Pos(c.Pos()), "", "isActive() is tested before the mutex is taken: both callers pass it, the second closes a closed channel and panics")
		okStore, _ := core.MustPassAfter(c, func(i ssa.Instruction) bool {
			cc, isC := i.(*ssa.Call)
			return isC && core.NameIs(core.CalleeName(cc), "sync/atomic.StoreInt32") && isTTLAddr(core.Arg(cc, 0))
		}, core.IsReturn)
		r.Check(okStore, "stop-once/"+fname(deact)+"/marks-inactive", "after the stop handshake the element is marked inactive on every path", p.Pos(c.Pos()), "", "a return is reachable without storing ttl")
	})
	r.Min("close(stopSyn) in deactivate", 1)
	r.Count("close(stopSyn) in deactivate", nClose)
	// who-may-close stopSyn
	for _, fn := range p.RepoFuncs() {
		core.EachInstr(fn, func(in ssa.Instruction) {
			c, ok := in.(*ssa.Call)
			if !ok {
				return
			}
			if b, ok := c.Common().Value.(*ssa.Builtin); ok && b.Name() == "close" && core.IsField(c.Common().Args[0], claPkg, "convergenceElem", "stopSyn") {
				r.Check(fn == deact, "stop-once/"+fname(fn)+"/who-may-close", "only deactivate closes an element's stopSyn", p.Pos(c.Pos()), "", "another function closes stopSyn")
			}
		})
	}

	// ---- Manager wiring
	mh := p.Func(claPkg, "Manager", "handler")
	nR := 0
	for _, fn := range p.RepoFuncs() {
		if topFunc(fn).Pkg == nil || !core.NameIs(topFunc(fn).Pkg.Pkg.Path(), claPkg) {
			continue
		}
		sites, cbs := rangeCallbacks(fn)
		for i := range sites {
			nR++
			checkRangeCallback(p, r, sites[i], cbs[i])
		}
	}
	r.Min("sync.Map.Range callbacks in pkg/cla", 4)
	r.Count("sync.Map.Range callbacks in pkg/cla", nR)

	// forgetting: convs.Delete in the ticker callback only under !successful && !retry
	nDel := 0
	// the Range callbacks of the handler itself and of a helper method the ticker arm was extracted into
	var tickerCbs []*ssa.Function
	for _, f := range core.WithHelpers(mh, 12) {
		tickerCbs = append(tickerCbs, f.AnonFuncs...)
	}
	for _, cb := range tickerCbs {
		for _, d := range core.CallsTo(cb, "sync.Map.Delete") {
			nDel++
			conds := core.DominatingConds(d.Block())
			okS, okR := false, false
			for _, c := range conds {
				if ex, ok := c.V.(*ssa.Extract); ok && !c.True {
					if call, ok := ex.Tuple.(*ssa.Call); ok && core.NameIs(core.CalleeName(call), claPkg+".convergenceElem.activate") {
						if ex.Index == 0 {
							okS = true
						} else {
							okR = true
						}
					}
				}
			}
			r.Check(okS && okR, "retry-budget/"+fname(cb)+"/forget", "an adapter is forgotten only when its activation failed and no retry shall be made", p.Pos(d.Pos()), "", fmt.Sprintf("!successful=%v !retry=%v; %s", okS, okR, condStrings(conds)))
		}
		for _, a := range core.CallsTo(cb, claPkg+".convergenceElem.activate") {
			nDel++
			conds := core.DominatingConds(a.Block())
			_, ok := callGuard(conds, claPkg+".convergenceElem.isActive", false)
			r.Check(ok, "retry-budget/"+fname(cb)+"/retry-only-inactive", "the retry tick activates only inactive elements", p.Pos(a.Pos()), "", "guard missing; "+condStrings(conds))
		}
	}
	r.Min("ticker-arm obligations", 2)
	r.Count("ticker-arm obligations", nDel)

	// shutdown arm: callback calls Unregister
	okUnreg := false
	for _, cb := range mh.AnonFuncs {
		// Unregister, unregisterConvergence or a helper of it that deactivates the element
		for _, nm := range []string{".Manager.Unregister", ".Manager.unregisterConvergence", ".Manager.unregisterConvergenceLocked"} {
			for _, c := range core.CallsTo(cb, claPkg+nm) {
				if callee := core.Callee(c); callee != nil && len(core.CallsToWithHelpers(callee, claPkg+".convergenceElem.deactivate", 40)) > 0 {
					okUnreg = true
				}
			}
		}
	}
	r.Check(okUnreg, "shutdown/"+fname(mh)+"/unregister-all", "closing the manager unregisters (deactivates) every registered element", p.Pos(mh.Pos()), "", "no Range callback calls Unregister")

	// PeerDisappeared => Restart
	nRestart := 0
	pd := constVal(p, claPkg, "PeerDisappeared")
	for _, c := range core.CallsTo(mh, claPkg+".Manager.Restart") {
		nRestart++
		conds := core.DominatingConds(c.Block())
		ok := false
		for _, cd := range conds {
			if b, isB := cd.V.(*ssa.BinOp); isB && b.Op == token.EQL && cd.True {
				if v, isC := core.ConstInt(b.Y); isC && v == pd && pathEndsWith(b.X, "MessageType") {
					ok = true
				}
			}
		}
		r.Check(ok, "restart/"+fname(mh)+"/on-peer-disappeared", "a reported peer loss restarts the reporting adapter", p.Pos(c.Pos()), "", "Restart not on the PeerDisappeared arm; "+condStrings(conds))
	}
	r.Min("Restart call in Manager.handler", 1)
	r.Count("Restart call in Manager.handler", nRestart)
	rs := p.Func(claPkg, "Manager", "Restart")
	un := core.CallsTo(rs, claPkg+".Manager.Unregister")
	rg := core.CallsTo(rs, claPkg+".Manager.Register")
	okOrder := len(un) == 1 && len(rg) == 1 && core.MustPassBefore(rg[0], func(i ssa.Instruction) bool { return i == ssa.Instruction(un[0]) })
	r.Check(okOrder, "restart/"+fname(rs)+"/unregister-then-register", "Restart = Unregister then Register of the same adapter", p.Pos(rs.Pos()), "", "order/shape changed")

	// registerConvergence: single instance, Store only on non-final result
	rc := p.Func(claPkg, "Manager", "registerConvergence")
	for _, a := range core.CallsTo(rc, claPkg+".convergenceElem.activate") {
		// not reachable through the true edge of isActive() on the loaded element
		bad := false
		for _, blk := range rc.Blocks {
			if ifi, ok := blk.Instrs[len(blk.Instrs)-1].(*ssa.If); ok {
				c := core.Cond{V: ifi.Cond, True: true}
				if _, isIA := core.CondIsCall(c, claPkg+".convergenceElem.isActive"); isIA {
					if core.BlocksReachableFrom(blk.Succs[0])[a.Block()] {
						bad = true
					}
				}
			}
		}
		r.Check(!bad, "single-instance/"+fname(rc)+"/no-second-activation", "registering an address whose element is active returns without a second activation", p.Pos(a.Pos()), "", "activate reachable from the isActive()==true edge")
		for _, st := range core.CallsTo(rc, "sync.Map.Store") {
			ok := core.GuardedByAny(st.Block(), func(c core.Cond) bool {
				ex, isEx := c.V.(*ssa.Extract)
				return isEx && c.True && ex.Tuple == a.(ssa.Value)
			})
			r.Check(ok, "single-instance/"+fname(rc)+"/store-after-activation", "an element is (re)entered into the registry only if its activation succeeded or shall be retried", p.Pos(st.Pos()), "", "Store reachable on !successful && !retry")
		}
	}
	// closed-while-starting: Start() of an adapter may take seconds; the stop flag tested at the entry of Register is
	// stale by the time the element is stored. Every Store is followed by a fresh isStopped() test whose true arm
	// stops the adapter again (Close has not seen the element, or is racing with it; deactivation is idempotent).
	for _, st := range core.CallsTo(rc, "sync.Map.Store") {
		isStop := func(in ssa.Instruction) bool {
			c, ok := in.(ssa.CallInstruction)
			return ok && core.NameIs(core.CalleeName(c), claPkg+".Manager.isStopped")
		}
		okRe, _ := core.MustPassAfter(st, isStop, core.IsReturn)
		okStop, why := false, "no isStopped() test after the Store on every path"
		if okRe {
			why = "the isStopped()==true arm after the Store does not stop the adapter"
			for _, blk := range rc.Blocks {
				ifi, isIf := blk.Instrs[len(blk.Instrs)-1].(*ssa.If)
				if !isIf {
					continue
				}
				call, isC := core.CondIsCall(core.Cond{V: ifi.Cond, True: true}, claPkg+".Manager.isStopped")
				if !isC || !core.BlocksReachableFrom(st.Block())[call.Block()] {
					continue
				}
				first := blk.Succs[0].Instrs[0]
				stops := func(in ssa.Instruction) bool {
					c, ok := in.(ssa.CallInstruction)
					if !ok {
						return false
					}
					n := core.CalleeName(c)
					if core.NameIs(n, claPkg+".Manager.unregisterConvergence") || core.NameIs(n, claPkg+".Manager.Unregister") || core.NameIs(n, claPkg+".convergenceElem.deactivate") {
						return true
					}
					callee := core.Callee(c)
					return callee != nil && core.IsRepo(callee) && callee.Pkg == rc.Pkg && len(core.CallsToWithHelpers(callee, claPkg+".convergenceElem.deactivate", 40)) > 0
				}
				if stops(first) {
					okStop = true
				} else if ok2, _ := core.MustPassAfter(first, stops, core.IsReturn); ok2 {
					okStop = true
				}
			}
		}
		r.Check(okRe && okStop, "closing/"+fname(rc)+"/closed-while-starting", "an element stored by a registration that outlived the Manager's Close is stopped by the registration itself: the stop flag is tested again after the Store and its true arm deactivates the adapter", p.Pos(st.Pos()), "", why)
	}
	// key agreement: Load and Store use conv.Address()
	okKey := true
	for _, n := range []string{"sync.Map.Load", "sync.Map.Store"} {
		for _, c := range core.CallsTo(rc, n) {
			k, ok := core.Strip(core.Arg(c, 0)).(*ssa.Call)
			if !ok || !k.Common().IsInvoke() || k.Common().Method.Name() != "Address" {
				okKey = false
			}
		}
	}
	r.Check(okKey, "single-instance/"+fname(rc)+"/key", "the registry key is the adapter's Address() for lookup and store", p.Pos(rc.Pos()), "", "a registry access does not use conv.Address()")

	checkRegistryKeys(p, r)
	checkReportChannelNeverClosed(p, r)
	checkRemovalSerialisedWithRegistration(p, r)
	checkFailedStartReleasesConnection(p, r)
	nRestartable := checkRestartableAdapters(p, r)
	r.Min("channels closed by an adapter on its way down", 3)
	r.Count("channels closed by an adapter on its way down", nRestartable)
	checkLockOrder(p, r, claPkg, mtcpPkg, bbcPkg, "pkg/cla/tcpclv4", utilsPkg, "pkg/cla/tcpclv4/internal/stages", agentPkg, routingPkg, storagePkg, discPkg, bp7)
	nWait := 0
	for _, rel := range []string{claPkg, mtcpPkg, bbcPkg, "pkg/cla/tcpclv4", utilsPkg, "pkg/cla/tcpclv4/internal/stages", agentPkg, routingPkg, discPkg} {
		nWait += checkNoWaitUnderSignallersLock(p, r, rel)
	}
	r.Analysed["waits_under_a_lock"] = nWait
	r.Min("channel waits made while a mutex is held (all adapter packages)", 1)
	r.Count("channel waits made while a mutex is held (all adapter packages)", nWait)

	// unregisterConvergence: deactivate precedes Delete, same instance
	uc := p.Func(claPkg, "Manager", "unregisterConvergence")
	// the body may live in a helper that the locking wrapper calls
	if len(core.CallsTo(uc, "sync.Map.Delete"))+len(core.CallsTo(uc, "sync.Map.LoadAndDelete")) == 0 {
		for _, h := range core.WithHelpers(uc, 40) {
			if h != uc && len(core.CallsTo(h, "sync.Map.Delete"))+len(core.CallsTo(h, "sync.Map.LoadAndDelete")) > 0 {
				uc = h
			}
		}
	}
	nU := 0
	var removals []ssa.CallInstruction
	removals = append(removals, core.CallsTo(uc, "sync.Map.Delete")...)
	removals = append(removals, core.CallsTo(uc, "sync.Map.LoadAndDelete")...)
	for _, d := range removals {
		nU++
		// the entry leaves the registry only if it is the very instance that is being unregistered
		okSame := false
		for _, c := range core.DominatingConds(d.Block()) {
			if b, ok := c.V.(*ssa.BinOp); ok && ((b.Op == token.NEQ && !c.True) || (b.Op == token.EQL && c.True)) {
				if (pathEndsWith(b.X, "conv") && b.Y == ssa.Value(uc.Params[1])) || (pathEndsWith(b.Y, "conv") && b.X == ssa.Value(uc.Params[1])) {
					okSame = true
				}
			}
		}
		r.Check(okSame, "unregister/"+fname(uc)+"/same-instance", "an entry is removed from the registry only after the registered element was found to wrap the very adapter that is unregistered (unregistering a refused second instance must leave the running first one alone)", p.Pos(d.Pos()), "", "the entry is removed before / without the same-instance test: unregistering another instance with the same address makes the started adapter vanish without being stopped")
		deacts := core.CallsTo(uc, claPkg+".convergenceElem.deactivate")
		ok := len(deacts) > 0 && core.MustPassBefore(d, func(i ssa.Instruction) bool {
			for _, x := range deacts {
				if i == ssa.Instruction(x) {
					return true
				}
			}
			return false
		})
		r.Check(ok, "unregister/"+fname(uc)+"/deactivate-before-delete", "an element is stopped before it is removed from the registry", p.Pos(d.Pos()), "", "Delete reachable without deactivate")
	}
	// ... and once the registered element is known to wrap this very adapter, it
	// does leave the registry, whatever state it is in (an element that is not
	// active is still waiting for its next retry tick)
	for _, blk := range uc.Blocks {
		ifi, ok := blk.Instrs[len(blk.Instrs)-1].(*ssa.If)
		if !ok {
			continue
		}
		b, ok := ifi.Cond.(*ssa.BinOp)
		if !ok || (b.Op != token.NEQ && b.Op != token.EQL) {
			continue
		}
		if !((pathEndsWith(b.X, "conv") && b.Y == ssa.Value(uc.Params[1])) || (pathEndsWith(b.Y, "conv") && b.X == ssa.Value(uc.Params[1]))) {
			continue
		}
		nU++
		diffEdge := 0 // successor taken when the instances differ
		if b.Op == token.EQL {
			diffEdge = 1
		}
		isRemoval := func(i ssa.Instruction) bool {
			for _, d := range removals {
				if i == ssa.Instruction(d) {
					return true
				}
			}
			return false
		}
		ok2, ex := core.MustPassAfterSkipping(ifi, isRemoval, core.IsReturn, func(from *ssa.BasicBlock, succIdx int) bool { return from == blk && succIdx == diffEdge })
		d := ""
		if !ok2 && ex != nil {
			d = "path to the return at " + p.Pos(ex.Pos()) + " keeps the entry: an unregistered adapter that was waiting for a retry is started by a later retry tick"
		}
		r.Check(ok2, "unregister/"+fname(uc)+"/always-removes", "once the same-instance test has passed, every path of unregisterConvergence removes the entry from the registry (also for an element that is not active and only waits for its retry)", p.Pos(ifi.Pos()), "", d)
	}
	for _, d := range core.CallsTo(uc, claPkg+".convergenceElem.deactivate") {
		nU++
		r.Check(nonNegative(p, core.Arg(d, 0), uc), "ttl-sign/"+fname(uc)+"/deactivate-arg", "deactivate is given a non-negative budget", p.Pos(d.Pos()), "", "argument may be negative")
	}
	r.Min("unregisterConvergence obligations", 3)
	r.Count("unregisterConvergence obligations", nU)

	// Sender/Receiver: only active elements are listed
	for _, name := range []string{"Sender", "Receiver"} {
		fn := p.Func(claPkg, "Manager", name)
		n := 0
		for _, cb := range fn.AnonFuncs {
			core.EachInstr(cb, func(in ssa.Instruction) {
				c, ok := in.(*ssa.Call)
				if !ok {
					return
				}
				if b, ok := c.Common().Value.(*ssa.Builtin); !ok || b.Name() != "append" {
					return
				}
				n++
				conds := core.DominatingConds(c.Block())
				_, g := callGuard(conds, claPkg+".convergenceElem.isActive", true)
				r.Check(g, "listing/"+fname(fn)+"/only-active", "an adapter is listed among the active "+name+"s only if isActive()", p.Pos(c.Pos()), "", "append not guarded by isActive(); "+condStrings(conds))
			})
		}
		r.Check(n > 0, "listing/"+fname(fn)+"/collects", "the listing collects elements", p.Pos(fn.Pos()), "", "no append found")
	}

	// the provider list is edited by Register/Unregister and walked on shutdown: always under its mutex
	gp := newGuardedEngine(p)
	nProv := gp.checkGuarded(r, []guardedField{{claPkg, "Manager", "providers", "pkg/cla.Manager.providersMutex"}}, true)
	r.Count("accesses to Manager.providers", nProv)
	r.Min("accesses to Manager.providers", 4)

	checkStoppableGoroutines(p, r, claPkg)
	checkLoopVarCapture(p, r)
	for _, sub := range []string{"pkg/cla/mtcp", "pkg/cla/tcpclv4", "pkg/cla/bbc"} {
		checkStoppableGoroutines(p, r, sub)
	}
}

// checkStoppableGoroutines: a goroutine that is stopped through a
// close-signalled channel (`case <-x.stopSyn` in its loop, the stopper then
// waits for an acknowledgement) must be able to see the signal wherever it can
// block: every channel send it performs — directly or in a small helper of the
// package — is a case of a select that also receives from that stop channel.
// Otherwise the stopper waits for ever whenever nobody takes the value (e.g.
// the consumer of the status channel is the one calling Close).
func checkStoppableGoroutines(p *core.Program, r *core.Report, pkgRel string) {
	pkg := p.Pkg(pkgRel)
	// stop channels: struct fields of channel type that some function of the package closes
	closed := map[string]bool{}
	var fns []*ssa.Function
	for _, fn := range p.RepoFuncs() {
		if fn.Pkg != pkg {
			continue
		}
		fns = append(fns, fn)
		core.EachInstr(fn, func(in ssa.Instruction) {
			c, ok := in.(*ssa.Call)
			if !ok {
				return
			}
			if b, ok := c.Common().Value.(*ssa.Builtin); ok && b.Name() == "close" {
				if f := ownChanField(c.Common().Args[0]); f != "" {
					closed[f] = true
				}
			}
		})
	}
	stopRecv := func(sel *ssa.Select) string {
		for _, st := range sel.States {
			if st.Dir == types.RecvOnly {
				if f := ownChanField(st.Chan); f != "" && closed[f] && isSignalChan(st.Chan) {
					return f
				}
			}
		}
		return ""
	}
	n := 0
	for _, fn := range fns {
		stop := ""
		core.EachInstr(fn, func(in ssa.Instruction) {
			if sel, ok := in.(*ssa.Select); ok && sel.Blocking && core.InLoop(sel.Block()) {
				if f := stopRecv(sel); f != "" {
					stop = f
				}
			}
		})
		if stop == "" {
			continue
		}
		n++
		var bad []string
		var scan func(f *ssa.Function, depth int)
		scan = func(f *ssa.Function, depth int) {
			core.EachInstr(f, func(in ssa.Instruction) {
				switch x := in.(type) {
				case *ssa.Send:
					bad = append(bad, "send at "+p.Pos(x.Pos()))
				case *ssa.Select:
					hasSend := false
					for _, st := range x.States {
						if st.Dir == types.SendOnly {
							hasSend = true
						}
					}
					if hasSend && x.Blocking && stopRecv(x) == "" {
						bad = append(bad, "select without the stop channel at "+p.Pos(x.Pos()))
					}
				case *ssa.Call:
					if cal := x.Common().StaticCallee(); depth < 1 && cal != nil && cal.Pkg == pkg && cal.Blocks != nil && len(cal.Blocks) <= 6 && cal.Signature.Recv() != nil && fn.Signature.Recv() != nil && types.Identical(cal.Signature.Recv().Type(), fn.Signature.Recv().Type()) {
						scan(cal, depth+1)
					}
				}
			})
		}
		scan(fn, 0)
		r.Check(len(bad) == 0, "stoppable/"+fname(fn)+"/sends-see-stop", "a goroutine that is stopped through the close-signalled channel "+stop+" sends on channels only inside a select that also receives from that channel: the party that asked it to stop may be the very consumer of the value", p.Pos(fn.Pos()), "", strings.Join(bad, "; ")+": if nobody takes the value the goroutine never sees the stop signal and Close/deactivate waits for its acknowledgement for ever")
	}
	r.Count("stoppable goroutine loops in "+pkgRel, n)
	if pkgRel == claPkg {
		r.Min("stoppable goroutine loops in "+pkgRel, 2)
	}
}

// ownChanField: v is a load of a channel-typed struct field; its name.
func ownChanField(v ssa.Value) string {
	u, ok := v.(*ssa.UnOp)
	if !ok || u.Op != token.MUL {
		return ""
	}
	if _, isChan := u.Type().Underlying().(*types.Chan); !isChan {
		return ""
	}
	_, field, ok := core.FieldOwner(u.X)
	if !ok {
		return ""
	}
	return field
}

func isTTLLoad(v ssa.Value) bool {
	c, ok := v.(*ssa.Call)
	return ok && core.NameIs(core.CalleeName(c), "sync/atomic.LoadInt32") && isTTLAddr(core.Arg(c, 0))
}

// ttlPositive: the condition establishes ttl > 0.
func ttlPositive(c core.Cond) bool {
	b, ok := c.V.(*ssa.BinOp)
	if !ok {
		return false
	}
	if isTTLLoad(b.X) {
		k, isC := core.ConstInt(b.Y)
		if !isC {
			return false
		}
		switch {
		case b.Op == token.GTR && k >= 0 && c.True:
			return true
		case b.Op == token.GEQ && k >= 1 && c.True:
			return true
		case b.Op == token.LEQ && k >= 0 && !c.True:
			return true
		case b.Op == token.LSS && k >= 1 && !c.True:
			return true
		}
	}
	if isTTLLoad(b.Y) {
		k, isC := core.ConstInt(b.X)
		if !isC {
			return false
		}
		switch {
		case b.Op == token.LSS && k >= 0 && c.True:
			return true
		case b.Op == token.LEQ && k >= 1 && c.True:
			return true
		}
	}
	return false
}

// startInvokes lists invocations of Convergence.Start in fn.
func startInvokes(fn *ssa.Function) []ssa.Value {
	var out []ssa.Value
	core.EachInstr(fn, func(in ssa.Instruction) {
		if c, ok := in.(*ssa.Call); ok && c.Common().IsInvoke() && c.Common().Method.Name() == "Start" {
			out = append(out, c)
		}
	})
	return out
}

// nonNegative: v is a non-negative constant, a load of Manager.queueTtl, or a
// parameter all of whose call sites pass such a value.
func nonNegative(p *core.Program, v ssa.Value, fn *ssa.Function) bool {
	return nonNegativeDepth(p, v, fn, 0)
}

func nonNegativeDepth(p *core.Program, v ssa.Value, fn *ssa.Function, depth int) bool {
	if depth > 3 {
		return false
	}
	if k, ok := core.ConstInt(v); ok {
		return k >= 0
	}
	if core.IsField(v, claPkg, "Manager", "queueTtl") {
		return true
	}
	if par, ok := v.(*ssa.Parameter); ok {
		callers := 0
		for _, caller := range p.RepoFuncs() {
			bad := false
			core.EachInstr(caller, func(in ssa.Instruction) {
				c, ok := in.(ssa.CallInstruction)
				if !ok || core.Callee(c) != fn {
					return
				}
				callers++
				idx := -1
				for i, fp := range fn.Params {
					if fp == par {
						idx = i
					}
				}
				if idx < 0 || idx >= len(c.Common().Args) || !nonNegativeDepth(p, c.Common().Args[idx], caller, depth+1) {
					bad = true
				}
			})
			if bad {
				return false
			}
		}
		return callers > 0
	}
	return false
}

// isSignalChan: chan struct{} — carries no data, used only to be closed.
func isSignalChan(v ssa.Value) bool {
	ch, ok := v.Type().Underlying().(*types.Chan)
	if !ok {
		return false
	}
	st, ok := ch.Elem().Underlying().(*types.Struct)
	return ok && st.NumFields() == 0
}

// checkRegistryKeys: the registry of adapters is a sync.Map whose key type is interface{}, so the compiler accepts
// any key. Every access keyed by something else than the adapter's Address() string — or the key handed out by a Range
// over the same map — silently misses the entry: a Delete that deletes nothing leaves a dead adapter listed.
func checkRegistryKeys(p *core.Program, r *core.Report) {
	isConvs := func(v ssa.Value) bool { return core.IsField(v, claPkg, "Manager", "convs") }
	n := 0
	for _, fn := range p.RepoFuncs() {
		if fn.Pkg != p.Pkg(claPkg) {
			continue
		}
		core.EachInstr(fn, func(in ssa.Instruction) {
			c, ok := in.(ssa.CallInstruction)
			if !ok {
				return
			}
			name := core.CalleeName(c)
			switch name {
			case "sync.Map.Load", "sync.Map.Store", "sync.Map.Delete", "sync.Map.LoadAndDelete", "sync.Map.LoadOrStore":
			default:
				return
			}
			if !isConvs(core.CallRecv(c)) {
				return
			}
			n++
			k := core.Strip(core.Arg(c, 0))
			okKey, why := false, "the key is neither conv.Address() nor the key of a Range over the registry"
			if kc, isCall := k.(*ssa.Call); isCall && kc.Common().IsInvoke() && kc.Common().Method.Name() == "Address" {
				okKey = true
			} else if par, isPar := k.(*ssa.Parameter); isPar && fn.Parent() != nil && len(fn.Params) > 0 && par == fn.Params[0] {
				// the closure is the callback of convs.Range in its parent
				for _, rc := range core.CallsTo(fn.Parent(), "sync.Map.Range") {
					if !isConvs(core.CallRecv(rc)) {
						continue
					}
					if mc, isMC := core.Strip(core.Arg(rc, 0)).(*ssa.MakeClosure); isMC && mc.Fn == ssa.Value(fn) {
						okKey = true
					} else if f, isF := core.Strip(core.Arg(rc, 0)).(*ssa.Function); isF && f == fn {
						okKey = true
					}
				}
			}
			r.Check(okKey, "registry-key/"+fname(fn)+"/"+strings.TrimPrefix(name, "sync.Map."), "every access to the adapter registry is keyed by the adapter's Address() (or by the key a Range over the registry handed out)", p.Pos(c.Pos()), "", why)
		})
	}
	r.Min("adapter registry accesses", 3)
	r.Count("adapter registry accesses", n)
}

// checkNoWaitUnderSignallersLock: a function that blocks on a channel of one of the package's structs (a bare receive,
// not a select) while it holds a mutex deadlocks if the goroutine that signals this channel (closes it / sends on it)
// may have to take the same mutex first. For every such wait, the mutexes held (must-lockset; a deferred Unlock keeps
// the lock to the exit) are intersected with the mutexes acquired anywhere in the signalling function and what it
// calls (static callees within the repository, bounded depth).
func checkNoWaitUnderSignallersLock(p *core.Program, r *core.Report, pkgRel string) int {
	pkg := p.Pkg(pkgRel)
	type chanField struct {
		owner *types.Named
		field string
	}
	signallers := map[chanField][]*ssa.Function{}
	var fns []*ssa.Function
	for _, fn := range p.RepoFuncs() {
		if fn.Pkg != pkg || fn.Blocks == nil {
			continue
		}
		fns = append(fns, fn)
		core.EachInstr(fn, func(in ssa.Instruction) {
			var ch ssa.Value
			switch x := in.(type) {
			case *ssa.Send:
				ch = x.Chan
			case *ssa.Call:
				if b, ok := x.Common().Value.(*ssa.Builtin); ok && b.Name() == "close" {
					ch = x.Common().Args[0]
				}
			}
			if ch == nil {
				return
			}
			if ld, ok := core.Strip(ch).(*ssa.UnOp); ok {
				if o, f, ok := core.FieldOwner(ld.X); ok {
					signallers[chanField{o, f}] = append(signallers[chanField{o, f}], fn)
				}
			}
		})
	}
	acquired := func(root *ssa.Function) map[string]bool {
		out := map[string]bool{}
		seen := map[*ssa.Function]bool{}
		var walk func(f *ssa.Function, depth int)
		walk = func(f *ssa.Function, depth int) {
			if f == nil || seen[f] || depth > 6 || f.Blocks == nil || !core.IsRepo(f) {
				return
			}
			seen[f] = true
			core.EachInstr(f, func(in ssa.Instruction) {
				c, ok := in.(ssa.CallInstruction)
				if !ok {
					return
				}
				if _, isGo := in.(*ssa.Go); isGo {
					return
				}
				switch core.CalleeName(c) {
				case "sync.Mutex.Lock", "sync.RWMutex.Lock", "sync.RWMutex.RLock":
					if k := core.MutexKey(core.CallRecv(c)); k != "" {
						out[k] = true
					}
					return
				}
				if callee := c.Common().StaticCallee(); callee != nil {
					walk(callee, depth+1)
				}
				for _, a := range c.Common().Args {
					if mc, ok := a.(*ssa.MakeClosure); ok {
						walk(mc.Fn.(*ssa.Function), depth+1)
					}
				}
			})
		}
		walk(root, 0)
		return out
	}
	n := 0
	for _, fn := range fns {
		var ls *core.LockSets
		core.EachInstr(fn, func(in ssa.Instruction) {
			rc, ok := in.(*ssa.UnOp)
			if !ok || rc.Op != token.ARROW {
				return
			}
			ld, ok := core.Strip(rc.X).(*ssa.UnOp)
			if !ok {
				return
			}
			o, f, ok := core.FieldOwner(ld.X)
			if !ok {
				return
			}
			if ls == nil {
				ls = core.ComputeLockSets(fn)
			}
			held := ls.At[in]
			if len(held) == 0 {
				return
			}
			n++
			var clash []string
			for _, g := range signallers[chanField{o, f}] {
				acq := acquired(topFunc(g))
				for _, e := range held {
					if acq[e.Mutex] {
						clash = append(clash, e.Mutex+" (taken in "+fname(topFunc(g))+")")
					}
				}
			}
			r.Check(len(clash) == 0, "wait-under-lock/"+fname(fn)+"/"+o.Obj().Name()+"."+f, "a function does not wait for a channel while holding a mutex that the goroutine signalling this channel may need before it signals", p.Pos(in.Pos()), "held: "+ls.HeldNames(in), "waiting for "+o.Obj().Name()+"."+f+" while holding "+strings.Join(clash, ", ")+": the signalling goroutine blocks on that mutex and never signals")
		})
	}
	return n
}

// checkReportChannelNeverClosed: the elements' handlers forward their adapters' status into the Manager's inChnl (handed
// to each element as convChnl). An element can still be running when the Manager shuts down - a registration whose
// Start() returned late stops it only afterwards -, so nobody may ever close that channel: a send on it would panic.
func checkReportChannelNeverClosed(p *core.Program, r *core.Report) {
	nClose, nSend := 0, 0
	var where string
	for _, fn := range p.RepoFuncs() {
		if fn.Pkg != p.Pkg(claPkg) || fn.Blocks == nil {
			continue
		}
		core.EachInstr(fn, func(in ssa.Instruction) {
			switch x := in.(type) {
			case *ssa.Call:
				if b, ok := x.Common().Value.(*ssa.Builtin); ok && b.Name() == "close" {
					if ld, ok := core.Strip(x.Common().Args[0]).(*ssa.UnOp); ok && (core.IsField(ld.X, claPkg, "Manager", "inChnl") || core.IsField(ld.X, claPkg, "convergenceElem", "convChnl")) {
						nClose++
						where = p.Pos(in.Pos())
					}
				}
			case *ssa.Send:
				if ld, ok := core.Strip(x.Chan).(*ssa.UnOp); ok && core.IsField(ld.X, claPkg, "convergenceElem", "convChnl") {
					nSend++
				}
			case *ssa.Select:
				for _, st := range x.States {
					if st.Dir == types.SendOnly {
						if ld, ok := core.Strip(st.Chan).(*ssa.UnOp); ok && core.IsField(ld.X, claPkg, "convergenceElem", "convChnl") {
							nSend++
						}
					}
				}
			}
		})
	}
	r.Min("element sends into the Manager's report channel", 1)
	r.Count("element sends into the Manager's report channel", nSend)
	mh := p.Func(claPkg, "Manager", "handler")
	r.Check(nClose == 0, "closing/"+fname(mh)+"/report-channel-never-closed", "the channel the adapters' handlers report into is never closed (an element started by a late registration may still send on it after the shutdown)", p.Pos(mh.Pos()), "", "closed at "+where+": an element's handler that forwards a status afterwards panics with 'send on closed channel'")
}

// checkLockOrder: two mutexes taken in opposite orders by two goroutines deadlock. Per function the must-lockset gives
// the mutexes held at each Lock call and at each static call; a callee contributes the mutexes it (transitively) may
// acquire. The edges held -> acquired over all functions of the given packages must be acyclic. Mutexes are named by
// owner type and field, so two instances of one type are one node; self-edges (another instance of the same type's
// lock) are not reported.
func checkLockOrder(p *core.Program, r *core.Report, pkgs ...string) int {
	want := map[*ssa.Package]bool{}
	for _, rel := range pkgs {
		want[p.Pkg(rel)] = true
	}
	isAcquire := func(c ssa.CallInstruction) (string, bool) {
		switch core.CalleeName(c) {
		case "sync.Mutex.Lock", "sync.RWMutex.Lock", "sync.RWMutex.RLock":
			k := core.MutexKey(core.CallRecv(c))
			return k, k != "" && !strings.HasPrefix(k, "local.")
		}
		return "", false
	}
	// callees of a call instruction: the static one, or what the VTA call graph resolves an interface call to
	cg := p.CallGraph()
	calleesOf := func(f *ssa.Function, c ssa.CallInstruction) []*ssa.Function {
		if sc := c.Common().StaticCallee(); sc != nil {
			return []*ssa.Function{sc}
		}
		var out []*ssa.Function
		if n := cg.Nodes[f]; n != nil {
			for _, e := range n.Out {
				if e.Site == c && e.Callee != nil && e.Callee.Func != nil && core.IsRepo(e.Callee.Func) {
					out = append(out, e.Callee.Func)
				}
			}
		}
		if len(out) > 8 {
			return nil // unresolved (too many candidates): not followed
		}
		return out
	}
	memo := map[*ssa.Function]map[string]bool{}
	var acq func(f *ssa.Function, depth int) map[string]bool
	acq = func(f *ssa.Function, depth int) map[string]bool {
		if m, ok := memo[f]; ok {
			return m
		}
		m := map[string]bool{}
		memo[f] = m
		if f == nil || f.Blocks == nil || !core.IsRepo(f) || depth > 8 {
			return m
		}
		core.EachInstr(f, func(in ssa.Instruction) {
			c, ok := in.(ssa.CallInstruction)
			if !ok {
				return
			}
			if _, isGo := in.(*ssa.Go); isGo {
				return
			}
			if k, ok := isAcquire(c); ok {
				m[k] = true
				return
			}
			for _, callee := range calleesOf(f, c) {
				for k := range acq(callee, depth+1) {
					m[k] = true
				}
			}
		})
		return m
	}
	type edge struct{ from, to string }
	edges := map[edge]string{}
	for _, fn := range p.RepoFuncs() {
		if !want[fn.Pkg] || fn.Blocks == nil {
			continue
		}
		var ls *core.LockSets
		core.EachInstr(fn, func(in ssa.Instruction) {
			c, ok := in.(ssa.CallInstruction)
			if !ok {
				return
			}
			if _, isGo := in.(*ssa.Go); isGo {
				return
			}
			if _, isDefer := in.(*ssa.Defer); isDefer {
				return
			}
			var got map[string]bool
			if k, ok := isAcquire(c); ok {
				got = map[string]bool{k: true}
			} else {
				got = map[string]bool{}
				for _, callee := range calleesOf(fn, c) {
					if core.IsRepo(callee) {
						for k := range acq(callee, 0) {
							got[k] = true
						}
					}
				}
			}
			if len(got) == 0 {
				return
			}
			if ls == nil {
				ls = core.ComputeLockSets(fn)
			}
			for _, h := range ls.At[in] {
				if strings.HasPrefix(h.Mutex, "local.") {
					continue
				}
				for k := range got {
					if k != h.Mutex {
						if _, seen := edges[edge{h.Mutex, k}]; !seen {
							edges[edge{h.Mutex, k}] = p.Pos(in.Pos()) + " in " + fname(fn)
						}
					}
				}
			}
		})
	}
	// cycles
	adj := map[string][]string{}
	for e := range edges {
		adj[e.from] = append(adj[e.from], e.to)
	}
	var cyc []string
	for e, at := range edges {
		// is e.from reachable from e.to?
		seen := map[string]bool{}
		work := []string{e.to}
		for len(work) > 0 {
			x := work[len(work)-1]
			work = work[:len(work)-1]
			if seen[x] {
				continue
			}
			seen[x] = true
			work = append(work, adj[x]...)
		}
		if seen[e.from] {
			cyc = append(cyc, e.from+" -> "+e.to+" ("+at+")")
		}
	}
	sort.Strings(cyc)
	r.Analysed["lock_order_edges"] = len(edges)
	r.Check(len(cyc) == 0, "lock-order/acyclic", "the order in which the mutexes of the daemon are taken while another one is held is acyclic (held -> acquired, through static calls)", "", fmt.Sprintf("%d ordered pairs", len(edges)), "cycle through: "+strings.Join(cyc, "; "))
	return len(edges)
}

// checkRestartableAdapters: the Manager restarts an adapter by Close() followed by Start() on the same object (Restart,
// and the retry of an element that was stopped). A channel field that the adapter closes on its way down must therefore
// be created anew by Start: the old, closed stop channel would stop the restarted adapter at once, and closing the
// already closed channels panics ("close of closed channel") in a goroutine of the daemon.
func checkRestartableAdapters(p *core.Program, r *core.Report) int {
	n := 0
	for _, named := range p.Implementations(claPkg, "Convergence") {
		start := p.MethodOf(named, "Start")
		if start == nil || start.Blocks == nil {
			continue
		}
		st := derefStructOf(named)
		if st == nil {
			continue
		}
		closed := map[string]string{}
		for _, fn := range p.RepoFuncs() {
			if fn.Blocks == nil || fn.Pkg == nil || fn.Pkg.Pkg != named.Obj().Pkg() {
				continue
			}
			core.EachInstr(fn, func(in ssa.Instruction) {
				c, ok := in.(*ssa.Call)
				if !ok {
					return
				}
				if b, isB := c.Common().Value.(*ssa.Builtin); !isB || b.Name() != "close" {
					return
				}
				ld, ok := core.Strip(c.Common().Args[0]).(*ssa.UnOp)
				if !ok {
					return
				}
				if owner, f, ok := core.FieldOwner(ld.X); ok && owner == named {
					closed[f] = p.Pos(in.Pos())
				}
			})
		}
		for f, where := range closed {
			n++
			made := false
			for _, g := range core.WithHelpers(start, 40) {
				core.EachInstr(g, func(in ssa.Instruction) {
					s, ok := in.(*ssa.Store)
					if !ok {
						return
					}
					if owner, ff, ok := core.FieldOwner(s.Addr); ok && owner == named && ff == f {
						if _, isMk := s.Val.(*ssa.MakeChan); isMk {
							made = true
						}
					}
				})
			}
			r.Check(made, "restart/"+fname(start)+"/recreates-"+f, "a channel the adapter closes when it is stopped is created anew by Start (the Manager restarts the same object)", p.Pos(start.Pos()), "closed at "+where, "channel "+f+" (closed at "+where+") is only created by the constructor: after one stop, a second Start runs on closed channels - the new goroutine stops at once and closes them again: panic 'close of closed channel'")
		}
	}
	return n
}

// checkRemovalSerialisedWithRegistration (audit 4): "deactivate the element, then delete it by key" and "activate the
// element, then delete it by key if it shall not be retried" are two steps on the registry. A registration of the same
// address between the two finds the inactive element, starts it and stores it - and is then deleted although it runs
// (started, not listed, started again by the next registration, not stopped by Close). Every removal of an element from
// the registry lies in a region of the registerMutex (held locally, at the call that runs the callback, or by every
// caller); the shutdown arm is exempt, after it registrations clean up themselves (closed-while-starting).
func checkRemovalSerialisedWithRegistration(p *core.Program, r *core.Report) {
	const mtx = "pkg/cla.Manager.registerMutex"
	mh := p.Func(claPkg, "Manager", "handler")
	locks := map[*ssa.Function]*core.LockSets{}
	ls := func(f *ssa.Function) *core.LockSets {
		if locks[f] == nil {
			locks[f] = core.ComputeLockSets(f)
		}
		return locks[f]
	}
	// the instruction of the enclosing function at which closure cl is handed to a call (its callback site)
	callbackSite := func(cl *ssa.Function) ssa.CallInstruction {
		par := cl.Parent()
		if par == nil {
			return nil
		}
		var site ssa.CallInstruction
		core.EachInstr(par, func(in ssa.Instruction) {
			c, ok := in.(ssa.CallInstruction)
			if !ok {
				return
			}
			for _, a := range c.Common().Args {
				if mc, ok := a.(*ssa.MakeClosure); ok && mc.Fn == ssa.Value(cl) {
					site = c
				}
				if f, ok := a.(*ssa.Function); ok && f == cl {
					site = c
				}
			}
		})
		return site
	}
	inStopArm := func(in ssa.Instruction) bool {
		if in.Parent() != mh {
			return false
		}
		for _, cd := range core.DominatingConds(in.Block()) {
			b, ok := cd.V.(*ssa.BinOp)
			if !ok || b.Op != token.EQL || !cd.True {
				continue
			}
			ex, isEx := b.X.(*ssa.Extract)
			if !isEx || ex.Index != 0 {
				continue
			}
			sel, isSel := ex.Tuple.(*ssa.Select)
			k, isC := core.ConstInt(b.Y)
			if isSel && isC && int(k) < len(sel.States) && pathEndsWith(sel.States[k].Chan, "stopSyn") {
				return true
			}
		}
		return false
	}
	var heldAt func(in ssa.Instruction, depth int) bool
	heldAt = func(in ssa.Instruction, depth int) bool {
		fn := in.Parent()
		if _, ok := ls(fn).Held(in, mtx, true); ok {
			return true
		}
		if inStopArm(in) {
			return true
		}
		if depth > 4 {
			return false
		}
		if fn.Parent() != nil {
			if site := callbackSite(fn); site != nil {
				return heldAt(site, depth+1)
			}
			return false
		}
		sites := allCallSites(p, core.FuncName(fn))
		n := 0
		for _, cs := range sites {
			if core.Callee(cs) != fn {
				continue
			}
			n++
			if _, isGo := cs.(*ssa.Go); isGo {
				return false
			}
			if !heldAt(cs, depth+1) {
				return false
			}
		}
		return n > 0
	}
	n := 0
	for _, fn := range p.RepoFuncs() {
		if fn.Pkg != p.Pkg(claPkg) || fn.Blocks == nil {
			continue
		}
		for _, name := range []string{"sync.Map.Delete", "sync.Map.LoadAndDelete"} {
			for _, d := range core.CallsTo(fn, name) {
				if !core.IsField(core.CallRecv(d), claPkg, "Manager", "convs") {
					continue
				}
				n++
				r.Check(heldAt(d, 0), "unregister/"+fname(fn)+"/removal-serialised-with-registration", "an element is removed from the registry under the registerMutex, in one region with the deactivation/activation that precedes it (no registration of the same address can re-activate it in between); only the shutdown arm is exempt", p.Pos(d.Pos()), "", "the removal is not serialised with registerConvergence: a Register between 'deactivate' and 'Delete' re-activates the element, which is then deleted while running - started but not listed, started once more by the next registration, not stopped by Close")
			}
		}
	}
	r.Min("removals from the adapter registry", 2)
	r.Count("removals from the adapter registry", n)
}

// checkFailedStartReleasesConnection (audit 4): "a failing adapter is retried at the retry interval - a permanent one
// for ever". The TCPCLv4 Client dials only while its messageSwitch is nil. A Start that fails AFTER the dial (session
// not established in time) and asks for a retry must give the connection up - reset messageSwitch to nil - or every
// later Start runs another handshake on the dead connection and the adapter can never become active again.
func checkFailedStartReleasesConnection(p *core.Program, r *core.Report) {
	start := p.Func("pkg/cla/tcpclv4", "Client", "Start")
	dial := func(i ssa.Instruction) bool {
		c, ok := i.(*ssa.Call)
		if !ok {
			return false
		}
		// the dial is the call of the customStartFunc field
		ld, isLd := c.Common().Value.(*ssa.UnOp)
		return isLd && core.IsField(ld.X, "pkg/cla/tcpclv4", "Client", "customStartFunc")
	}
	n := 0
	for _, rv := range core.ReturnValues(start, 1) {
		if !core.IsBoolConst(rv.V, true) {
			continue
		}
		// an error return? (the error result at the same site is non-nil): approximated by "not the final success return"
		blk := rv.At.Block()
		afterDialOK := false
		for _, cd := range core.DominatingConds(blk) {
			x, isNil, ok := core.NilCmp(cd)
			if !ok || !isNil {
				continue
			}
			if c, isCall := x.(*ssa.Call); isCall && dial(c) {
				afterDialOK = true
			}
		}
		isTimeout := false
		for _, cd := range core.DominatingConds(blk) {
			if b, ok := cd.V.(*ssa.BinOp); ok && b.Op == token.EQL && cd.True {
				if ex, isEx := b.X.(*ssa.Extract); isEx {
					if sel, isSel := ex.Tuple.(*ssa.Select); isSel {
						k, _ := core.ConstInt(b.Y)
						if int(k) < len(sel.States) {
							if c, isCall := sel.States[k].Chan.(*ssa.Call); isCall && core.CalleeName(c) == "time.After" {
								isTimeout = true
							}
						}
					}
				}
			}
		}
		if !isTimeout {
			_ = afterDialOK
			continue
		}
		n++
		released := core.MustPassBefore(rv.At, func(i ssa.Instruction) bool {
			st, ok := i.(*ssa.Store)
			return ok && core.IsField(st.Addr, "pkg/cla/tcpclv4", "Client", "messageSwitch") && core.IsNilConst(st.Val) && reachesFrom(blk, st)
		})
		if !released {
			// with the results kept in memory cells (a defer in Start) the "return" is the store into the result cell,
			// which may precede the release inside the same straight-line block
			if _, isRet := rv.At.(*ssa.Return); !isRet {
				released, _ = core.MustPassAfter(rv.At, func(i ssa.Instruction) bool {
					st, ok := i.(*ssa.Store)
					return ok && core.IsField(st.Addr, "pkg/cla/tcpclv4", "Client", "messageSwitch") && core.IsNilConst(st.Val)
				}, core.IsReturn)
			}
		}
		r.Check(released, "restart/"+fname(start)+"/failed-attempt-released", "a Start that gives up after the dial (establishment timed out, retry requested) resets messageSwitch to nil, so that the retry dials again", p.Pos(rv.At.Pos()), "", "the timed-out attempt leaves messageSwitch set: every retry skips the dial and runs a handshake on the dead connection - the adapter, a permanent one included, never becomes active again")
	}
	r.Min("timed-out returns of tcpclv4.Client.Start", 1)
	r.Count("timed-out returns of tcpclv4.Client.Start", n)
}

// reachesFrom: the store is in the block itself or in a block that the timeout branch dominates (cheap approximation:
// same block or a block dominated by blk's immediate dominator chain) - here simply: store's block is blk or dominates it
// within the select arm.
func reachesFrom(blk *ssa.BasicBlock, st *ssa.Store) bool {
	for b := blk; b != nil; b = b.Idom() {
		if b == st.Block() {
			return true
		}
	}
	return false
}
