package rules

import (
	"fmt"
	"go/token"
	"go/types"
	"strings"

	"dtnverif/core"

	"golang.org/x/tools/go/ssa"
)

func init() {
	Registry["C09"] = C09
	Registry["C10"] = C10
}

func isBundleSlice(t types.Type) bool {
	s, ok := t.Underlying().(*types.Slice)
	return ok && core.TypeIs(s.Elem(), bp7, "Bundle")
}

// enumerateFragment runs the path enumeration of Bundle.Fragment with the
// payload length bound (0 or positive) and the MustNotFragmented test bound.
type fragOutcome struct {
	err      string
	appends  int
	literal1 bool // the result is a one-element literal (the bundle itself)
	ret      *ssa.Return
}

func enumerateFragment(p *core.Program, frag *ssa.Function, payloadLen int64, mustNot int64) ([]fragOutcome, bool) {
	// the payload length is the first len() of a []byte obtained from PayloadBlock.Data()
	var lenVal ssa.Value
	core.EachInstr(frag, func(in ssa.Instruction) {
		if lenVal != nil {
			return
		}
		c, ok := in.(*ssa.Call)
		if !ok {
			return
		}
		if b, ok := c.Common().Value.(*ssa.Builtin); ok && b.Name() == "len" {
			if dc, ok := c.Common().Args[0].(*ssa.Call); ok && core.NameIs(core.CalleeName(dc), bp7+".PayloadBlock.Data") {
				lenVal = c
			}
		}
	})
	if lenVal == nil {
		return nil, false
	}
	mnf := constVal(p, bp7, "MustNotFragmented")
	pe := &core.PathEnum{Fn: frag, Bind: map[ssa.Value]int64{lenVal: payloadLen}, MaxUnknownVisits: 2, MaxPaths: 3000}
	pe.EvalCall = func(c *ssa.Call, st *core.PathState) (int64, bool) {
		if core.NameIs(core.CalleeName(c), bp7+".BundleControlFlags.Has") {
			if k, ok := core.ConstInt(core.Arg(c, 0)); ok && k == mnf && pathEndsWith(core.CallRecv(c), "PrimaryBlock", "BundleControlFlags") {
				return mustNot, true
			}
		}
		if b, ok := c.Common().Value.(*ssa.Builtin); ok && b.Name() == "len" && isBundleSlice(c.Common().Args[0].Type()) {
			n, _ := st.Data["appends"].(int)
			return int64(n), true
		}
		return 0, false
	}
	pe.OnInstr = func(in ssa.Instruction, st *core.PathState) {
		c, ok := in.(*ssa.Call)
		if !ok {
			return
		}
		if b, ok := c.Common().Value.(*ssa.Builtin); ok && b.Name() == "append" && isBundleSlice(c.Type()) {
			n, _ := st.Data["appends"].(int)
			st.Data["appends"] = n + 1
		}
	}
	pe.Run()
	if pe.Trunc {
		return nil, false
	}
	var out []fragOutcome
	for _, pr := range pe.Paths {
		if pr.Panics {
			continue
		}
		n, _ := pr.State.Data["appends"].(int)
		o := fragOutcome{err: pr.ErrOutcome(1), appends: n, ret: pr.Return}
		res := pr.State.Resolve(pr.Return.Results[0])
		if sl, ok := res.(*ssa.Slice); ok {
			if a, ok := sl.X.(*ssa.Alloc); ok {
				if k, ok := allocArrayLen(a); ok && k == 1 {
					o.literal1 = true
				}
			}
		}
		out = append(out, o)
	}
	return out, true
}

// C09 — fragmentation respects the size limit and is exactly invertible.
func C09(p *core.Program, r *core.Report) {
	r.Explanation = "The size bound of each fragment and byte-identical reassembly are arithmetic over run-time sizes and are NOT decided. Decided: (LB) path enumeration of Bundle.Fragment with the payload length bound to 0 and to a positive value: no path returns a nil error together with an empty list; (GC) with the must-not-fragment flag set every path returns an error; (VT) each fragment is validated before it is added (C02); (DP) fragmentPrimaryBlock copies version, CRC type, destination, source, report-to, creation timestamp and lifetime from the input, sets IsFragment, and takes offset/total from its parameters; the payload slices are [i : min(i+k,len)] with the loop advancing i by the same k (no gap, no overlap by construction); every extension block is offered to the first fragment and the replicate-flagged ones to every fragment (control-dependence set of the AddExtensionBlock call is exactly {payload test, i>0, ReplicateBlock}); fragments of a fragment: see C10."
	r.Assumptions = append(r.Assumptions, "the overhead estimate of fragmentExtensionBlocksLen is not analysed")
	frag := p.Func(bp7, "Bundle", "Fragment")

	for _, pl := range []int64{0, 7} {
		outs, ok := enumerateFragment(p, frag, pl, 0)
		key := fmt.Sprintf("never-empty/%s/payload-length=%d", fname(frag), pl)
		rule := "fragmentation either fails or returns at least one bundle (a bundle that already fits, also one with an empty payload, is returned as itself)"
		if !ok {
			r.Unknown(key, rule, p.Pos(frag.Pos()), "function shape outside the enumerated idioms")
			continue
		}
		nSucc, bad := 0, ""
		for _, o := range outs {
			if o.err == "nonnil" {
				continue
			}
			nSucc++
			if o.appends == 0 && !o.literal1 {
				bad = fmt.Sprintf("a path returns err=nil with no fragment appended (return at %s): an empty list for a payload of length %d", p.Pos(o.ret.Pos()), pl)
			}
		}
		r.Check(bad == "" && nSucc > 0, key, rule, p.Pos(frag.Pos()), fmt.Sprintf("%d path(s), %d may succeed, all return at least one bundle", len(outs), nSucc), bad)
	}
	// must-not-fragment refused
	if outs, ok := enumerateFragment(p, frag, 7, 1); ok {
		nSucc := 0
		for _, o := range outs {
			if o.err != "nonnil" {
				nSucc++
			}
		}
		r.Check(nSucc == 0 && len(outs) > 0, "refuses-must-not-fragment/"+fname(frag), "a bundle flagged must-not-fragment is refused", p.Pos(frag.Pos()), fmt.Sprintf("%d path(s), all errors", len(outs)), fmt.Sprintf("%d path(s) can succeed although MustNotFragmented is set", nSucc))
	} else {
		r.Unknown("refuses-must-not-fragment/"+fname(frag), "a bundle flagged must-not-fragment is refused", p.Pos(frag.Pos()), "enumeration failed")
	}

	// a bundle that already fits is returned as itself: before any fragment is
	// built, the serialised size of the whole bundle is compared with the limit
	okFits, fitsWhy := false, "no early return of the bundle itself under len(serialised bundle) <= mtu"
	for _, rv := range core.ReturnValues(frag, 0) {
		// the returned list is a one-element slice holding the receiver
		if !isSingletonOf(rv.V, frag.Params[0]) {
			continue
		}
		for _, cd := range core.DominatingConds(rv.At.Block()) {
			b, ok := cd.V.(*ssa.BinOp)
			if !ok {
				continue
			}
			var size, limit ssa.Value
			switch {
			case b.Op == token.LEQ && cd.True, b.Op == token.GTR && !cd.True:
				size, limit = b.X, b.Y
			case b.Op == token.GEQ && cd.True, b.Op == token.LSS && !cd.True:
				size, limit = b.Y, b.X
			default:
				continue
			}
			if limit != ssa.Value(frag.Params[1]) {
				continue
			}
			lc, ok := size.(*ssa.Call)
			if !ok || core.CalleeName(lc) != "bytes.Buffer.Len" {
				continue
			}
			buf := core.CallRecv(lc)
			wrote := false
			for _, wc := range core.CallsTo(frag, bp7+".Bundle.WriteBundle") {
				if core.Arg(wc, 0) != nil && core.Strip(core.Arg(wc, 0)) == buf && core.MustPassBefore(lc, func(i ssa.Instruction) bool { return i == ssa.Instruction(wc) }) {
					wrote = true
				}
			}
			if !wrote {
				fitsWhy = "the size compared with the limit is not the length of the serialised bundle"
				continue
			}
			// the test precedes all fragment construction
			first := true
			for _, fc := range core.CallsTo(frag, bp7+".fragmentPrimaryBlock") {
				if !core.MustPassBefore(fc, func(i ssa.Instruction) bool { return i == ssa.Instruction(lc) }) {
					first = false
				}
			}
			if first {
				okFits = true
			} else {
				fitsWhy = "fragments can be built before the size test"
			}
		}
	}
	r.Check(okFits, "fits-as-itself/"+fname(frag), "a bundle whose serialisation is not longer than the limit is returned as itself: Fragment compares the length of the serialised bundle with the limit before it builds any fragment (the per-fragment overhead estimate is pessimistic for the bundle as a whole)", p.Pos(frag.Pos()), "", fitsWhy)

	// DP: fragmentPrimaryBlock
	fpb := p.Func(bp7, "", "fragmentPrimaryBlock")
	copies := map[string]bool{}
	var flagsOK, offOK, totOK bool
	core.EachInstr(fpb, func(in ssa.Instruction) {
		st, ok := in.(*ssa.Store)
		if !ok {
			return
		}
		owner, f, ok := core.FieldOwner(st.Addr)
		if !ok || owner == nil || owner.Obj().Name() != "PrimaryBlock" {
			return
		}
		switch f {
		case "BundleControlFlags":
			if b, ok := st.Val.(*ssa.BinOp); ok && b.Op == token.OR {
				k, isC := core.ConstInt(b.Y)
				if isC && k == constVal(p, bp7, "IsFragment") && pathEndsWith(b.X, "BundleControlFlags") && rootIsParam(b.X, fpb.Params[0]) {
					flagsOK = true
				}
			}
		case "FragmentOffset":
			offOK = core.Strip(st.Val) == ssa.Value(fpb.Params[1])
		case "TotalDataLength":
			totOK = core.Strip(st.Val) == ssa.Value(fpb.Params[2])
		default:
			if pathEndsWith(st.Val, f) && rootIsParam(st.Val, fpb.Params[0]) {
				copies[f] = true
			}
		}
	})
	for _, f := range []string{"Version", "CRCType", "Destination", "SourceNode", "ReportTo", "CreationTimestamp", "Lifetime"} {
		r.Check(copies[f], "fragment-identity/"+fname(fpb)+"/"+f, "a fragment keeps the bundle's version, CRC type, destination, source, report-to, creation timestamp and lifetime", p.Pos(fpb.Pos()), "", "field "+f+" is not copied from the input primary block")
	}
	r.Check(flagsOK, "fragment-identity/"+fname(fpb)+"/flags", "a fragment's flags are the bundle's flags plus IsFragment", p.Pos(fpb.Pos()), "", "BundleControlFlags is not pb.BundleControlFlags | IsFragment")
	r.Check(offOK && totOK, "fragment-identity/"+fname(fpb)+"/coordinates", "offset and total length are the values the caller computed", p.Pos(fpb.Pos()), "", "FragmentOffset/TotalDataLength are not the parameters")

	// payload slicing: Data()[i:offset], offset from i+k, loop advances i by k
	var sl *ssa.Slice
	core.EachInstr(frag, func(in ssa.Instruction) {
		if s, ok := in.(*ssa.Slice); ok && s.Low != nil && s.High != nil {
			if dc, ok := s.X.(*ssa.Call); ok && core.NameIs(core.CalleeName(dc), bp7+".PayloadBlock.Data") {
				sl = s
			}
		}
	})
	if sl == nil {
		r.Fail("partition/"+fname(frag)+"/slice", "each fragment carries the payload slice [i:min(i+k,len)]", p.Pos(frag.Pos()), "payload slice expression not found")
	} else {
		phi, isPhi := sl.Low.(*ssa.Phi)
		okPart := false
		detail := ""
		if isPhi {
			// k: the value added to i on the back edge
			var k ssa.Value
			for _, e := range phi.Edges {
				if b, ok := e.(*ssa.BinOp); ok && b.Op == token.ADD && b.X == ssa.Value(phi) {
					k = b.Y
				}
			}
			startsAtZero := false
			for _, e := range phi.Edges {
				if z, ok := core.ConstInt(e); ok && z == 0 {
					startsAtZero = true
				}
			}
			// high depends on i + k and on the payload length
			dependsIK := k != nil && core.DependsOn(sl.High, func(v ssa.Value) bool {
				b, ok := v.(*ssa.BinOp)
				return ok && b.Op == token.ADD && b.X == ssa.Value(phi) && b.Y == k
			})
			dependsLen := core.DependsOn(sl.High, func(v ssa.Value) bool {
				c, ok := v.(*ssa.Call)
				if !ok {
					return false
				}
				b, ok := c.Common().Value.(*ssa.Builtin)
				return ok && b.Name() == "len"
			})
			dependsMin := core.DependsOn(sl.High, func(v ssa.Value) bool {
				c, ok := v.(*ssa.Call)
				return ok && core.CalleeName(c) == "math.Min"
			})
			okPart = startsAtZero && dependsIK && dependsLen && dependsMin
			detail = fmt.Sprintf("i starts at 0: %v; upper bound uses i+k with the loop's own step k: %v; bounded by the payload length through min: %v", startsAtZero, dependsIK, dependsLen && dependsMin)
		}
		r.Check(okPart, "partition/"+fname(frag)+"/contiguous", "the payload slices are [i : min(i+k, len)] and the loop advances i by the same k, so offsets partition the payload without gap or overlap", p.Pos(sl.Pos()), detail, "slice bounds / loop step changed: "+detail)
		// the offset handed to fragmentPrimaryBlock is based on the same i
		for _, c := range core.CallsTo(frag, bp7+".fragmentPrimaryBlock") {
			okI := core.DependsOn(core.Arg(c, 1), func(v ssa.Value) bool { return v == ssa.Value(phi) })
			r.Check(okI, "partition/"+fname(frag)+"/offset-is-slice-start", "the fragment offset recorded in the primary block is the start of the slice it carries", p.Pos(c.Pos()), "", "offset argument does not depend on the loop position i")
		}
	}
	checkOneSortedSlice(p, r, p.Func(bp7, "", "ReassembleFragments"), p.Func(bp7, "", "prepareReassembly"))

	// extension blocks distribution
	// a copy site is a call to AddExtensionBlock or an append to the fragment's block list
	var copySites []ssa.Instruction
	for _, c := range core.CallsTo(frag, bp7+".Bundle.AddExtensionBlock") {
		copySites = append(copySites, c)
	}
	core.EachInstr(frag, func(in ssa.Instruction) {
		if st, ok := in.(*ssa.Store); ok && core.IsField(st.Addr, bp7, "Bundle", "CanonicalBlocks") {
			copySites = append(copySites, st)
		}
	})
	var addInLoop []ssa.Instruction
	for _, c := range copySites {
		l := core.InnermostLoop(core.Loops(frag), c.Block())
		if l == nil {
			continue
		}
		// the call inside the inner loop over b.CanonicalBlocks (nested in the fragment loop)
		depth := 0
		for _, ll := range core.Loops(frag) {
			if ll.Blocks[c.Block()] {
				depth++
			}
		}
		if depth >= 2 {
			addInLoop = append(addInLoop, c)
		}
	}
	// copies keep their block numbers: AddExtensionBlock assigns the lowest free
	// number, which renumbers a bundle whose numbers are not contiguous (e.g.
	// after an unknown block was removed); the reassembled bundle would differ.
	checkCopiesUntouched(p, r, frag)
	checkCopiesUntouched(p, r, p.Func(bp7, "", "ReassembleFragments"))
	for _, fn := range []*ssa.Function{frag, p.Func(bp7, "", "ReassembleFragments")} {
		n := len(core.CallsTo(fn, bp7+".Bundle.AddExtensionBlock"))
		okNum := n == 0
		// the payload block built here takes over the number of the original payload block
		okPayloadNo := false
		core.EachInstr(fn, func(in ssa.Instruction) {
			switch x := in.(type) {
			case *ssa.Store:
				if core.IsField(x.Addr, bp7, "CanonicalBlock", "BlockNumber") && pathEndsWith(x.Val, "BlockNumber") {
					okPayloadNo = true
				}
			case *ssa.Call:
				if core.NameIs(core.CalleeName(x), bp7+".NewCanonicalBlock") && pathEndsWith(core.Arg(x, 0), "BlockNumber") {
					okPayloadNo = true
				}
			}
		})
		r.Check(okNum && okPayloadNo, "numbering-preserved/"+fname(fn), "blocks copied into a fragment / into the reassembled bundle keep their block numbers (no AddExtensionBlock, which renumbers; the payload block takes the number of the original payload block): otherwise a bundle with non-contiguous numbers does not reassemble byte-identically", p.Pos(fn.Pos()), "", fmt.Sprintf("%d AddExtensionBlock call(s); payload number taken from the original: %v", n, okPayloadNo))
	}
	// every fragment owns the list of its blocks: the payload block is appended to that list afterwards, and a list
	// shared between fragments (collected once outside the loop) with spare capacity makes later fragments overwrite
	// the payload block of earlier ones
	nOwn := 0
	for _, c := range copySites {
		st, ok := c.(*ssa.Store)
		if !ok {
			continue
		}
		var outer *core.Loop
		for _, ll := range core.Loops(frag) {
			if ll.Blocks[st.Block()] && (outer == nil || len(ll.Blocks) > len(outer.Blocks)) {
				outer = ll
			}
		}
		if outer == nil {
			continue
		}
		nOwn++
		fresh := freshInLoop(st.Val, outer, map[ssa.Value]bool{})
		r.Check(fresh, fmt.Sprintf("fragments-own-blocks/%s#%d", fname(frag), nOwn), "the block list given to a fragment is built for that fragment (appended to nil / to the fragment's own list, or a fresh copy); a list computed outside the fragment loop is never stored into a fragment, because the payload block is appended to it next", p.Pos(st.Pos()), "", "the stored list is (a slice of) one computed outside the loop: fragments share its backing array and an append with spare capacity overwrites a sibling's payload block")
	}
	r.Min("extension block copies in Fragment", 1)
	r.Count("extension block copies in Fragment", len(addInLoop)+nOwn)
	for _, c := range addInLoop {
		var kinds []string
		okSet := true
		inner := core.InnermostLoop(core.Loops(frag), c.Block())
		for _, cd := range core.ControlDeps(c.Block()) {
			if cd.If == nil || !inner.Blocks[cd.If.Block()] {
				continue // conditions outside the loop over the blocks (earlier exits)
			}
			switch {
			case isLoopCond(cd, frag):
			case mentions(cd, mentionsInvokeOrCall("TypeCode")):
				kinds = append(kinds, "payload-test")
			case mentions(cd, mentionsHas("BlockControlFlags", constVal(p, bp7, "ReplicateBlock"))):
				kinds = append(kinds, "replicate")
			case isPositionTest(cd):
				kinds = append(kinds, "first-fragment")
			case mentions(cd, func(v ssa.Value) bool { return isErrorType(v.Type()) }):
				// error checks of earlier steps
			default:
				okSet = false
				kinds = append(kinds, "other:"+valStr(cd.V))
			}
		}
		has := func(k string) bool {
			for _, x := range kinds {
				if x == k {
					return true
				}
			}
			return false
		}
		ok := okSet && has("payload-test") && has("replicate") && has("first-fragment")
		r.Check(ok, "extension-blocks/"+fname(frag)+"/distribution", "a block is copied into a fragment unless it is the payload block, or the fragment is not the first and the block lacks the replicate flag — no other condition", p.Pos(c.Pos()), strings.Join(kinds, ","), "conditions controlling the copy: "+strings.Join(kinds, ","))
	}
}

func mentions(c core.Cond, pred func(ssa.Value) bool) bool {
	for _, v := range closureOf(c.V) {
		if pred(v) {
			return true
		}
	}
	return false
}

func mentionsInvokeOrCall(name string) func(ssa.Value) bool {
	return func(v ssa.Value) bool {
		c, ok := v.(*ssa.Call)
		if !ok {
			return false
		}
		if c.Common().IsInvoke() {
			return c.Common().Method.Name() == name
		}
		o := core.CalleeObj(c)
		return o != nil && o.Name() == name
	}
}

func isPositionTest(c core.Cond) bool {
	b, ok := c.V.(*ssa.BinOp)
	if !ok {
		return false
	}
	_, isPhi := b.X.(*ssa.Phi)
	k, isC := core.ConstInt(b.Y)
	return isPhi && isC && k == 0 && (b.Op == token.GTR || b.Op == token.EQL || b.Op == token.NEQ)
}

func isLoopCond(c core.Cond, fn *ssa.Function) bool {
	if c.If == nil {
		return false
	}
	for _, l := range core.Loops(fn) {
		if l.Header == c.If.Block() {
			return true
		}
	}
	return false
}

// C10 — reassembly accepts any covering set of fragments and nothing else.
func C10(p *core.Program, r *core.Report) {
	r.Explanation = "That the reassembled payload equals the original is NOT decided. Decided: (LB) the slice fragPayload[lastIndex-fragStart:] in mergeFragmentPayload is entailed in range by dominating linear guards (fragStart <= lastIndex and fragStart+len > lastIndex or >=); (LB) the coverage frontier used for gap detection / merging is monotone: every loop-carried update is guarded by new > old; (DP) the offset and total length that Fragment hands to fragmentPrimaryBlock depend on the input's own FragmentOffset / TotalDataLength, so fragments of a fragment keep original coordinates; (store) BundleItem.IsComplete/Load delegate to IsBundleReassemblable/ReassembleFragments and Store.Push appends a part only if no part with the same (offset,total) exists."
	merge := p.Func(bp7, "", "mergeFragmentPayload")
	prep := p.Func(bp7, "", "prepareReassembly")
	frag := p.Func(bp7, "Bundle", "Fragment")

	// ---- (1) slice bounds in merge
	nSl := 0
	core.EachInstr(merge, func(in ssa.Instruction) {
		sl, ok := in.(*ssa.Slice)
		if !ok || sl.Low == nil {
			return
		}
		sub, ok := sl.Low.(*ssa.BinOp)
		if !ok || sub.Op != token.SUB {
			return
		}
		nSl++
		a, b := sub.X, sub.Y // a - b must be in [0, len(x)]
		conds := core.DominatingConds(sl.Block())
		lowOK, highOK := false, false
		for _, c := range conds {
			cb, ok := c.V.(*ssa.BinOp)
			if !ok {
				continue
			}
			// b <= a
			if geq(cb, c.True, a, b) {
				lowOK = true
			}
			// b + len(x) >= a   (end of this fragment reaches the frontier)
			for _, pair := range [][2]ssa.Value{{cb.X, cb.Y}, {cb.Y, cb.X}} {
				if isEndOf(pair[0], b, sl.X) && pair[1] == a {
					// which relation?
					if geqOrdered(cb, c.True, pair[0] == cb.X) {
						highOK = true
					}
				}
			}
		}
		r.Check(lowOK && highOK, "slice-in-range/"+fname(merge)+"/fragPayload[lastIndex-fragStart:]", "the merge slices a fragment's data at lastIndex-fragStart only when 0 <= lastIndex-fragStart <= len(data): both bounds are entailed by dominating guards", p.Pos(sl.Pos()), "", fmt.Sprintf("lower bound (fragStart <= lastIndex) guarded: %v; upper bound (fragStart+len >= lastIndex) guarded: %v — fragments from two fragmentations (offsets 0/231 and 0/82/163/244) make the index negative: slice bounds out of range; %s", lowOK, highOK, condStrings(conds)))
	})
	r.Min("difference-indexed slices in mergeFragmentPayload", 1)
	r.Count("difference-indexed slices in mergeFragmentPayload", nSl)

	// ---- (1b) placement: the bytes that remain after skipping lastIndex-fragStart land at payload coordinate lastIndex
	core.EachInstr(merge, func(in ssa.Instruction) {
		sl, ok := in.(*ssa.Slice)
		if !ok || sl.Low == nil {
			return
		}
		sub, ok := sl.Low.(*ssa.BinOp)
		if !ok || sub.Op != token.SUB {
			return
		}
		ok, detail := mergePlacement(sl, sub.X, sub.Y)
		r.Check(ok, "placement/"+fname(merge)+"/tail-lands-at-frontier", "the part of a fragment that lies beyond the merged prefix is written at the end of that prefix: appended to the accumulator that starts empty and grows only by such tails (its length is the frontier), or copied to accumulator[frontier:]; any other destination shifts the bytes of a fragment that overlaps its predecessor", p.Pos(sl.Pos()), "", detail+" — fragments [0,200) and [130,390) of two fragmentations: the second one's bytes 200.. are written from 130 on, 330..389 stay zero")
	})

	// ---- (2) monotone frontier
	for _, fn := range []*ssa.Function{prep, merge} {
		var frontier *ssa.Phi
		core.EachInstr(fn, func(in ssa.Instruction) {
			phi, ok := in.(*ssa.Phi)
			if !ok || !core.InLoop(phi.Block()) {
				return
			}
			// the phi that is compared with / subtracted by a fragment offset
			for _, ref := range *phi.Referrers() {
				if b, ok := ref.(*ssa.BinOp); ok {
					other := b.Y
					if b.Y == ssa.Value(phi) {
						other = b.X
					}
					if pathEndsWith(core.Strip(other), "FragmentOffset") {
						frontier = phi
					}
				}
			}
		})
		key := "monotone-frontier/" + fname(fn)
		rule := "the running end of the covered prefix never moves backwards: each update inside the loop is guarded by new > old (a fragment contained in earlier ones must not shrink the frontier)"
		if frontier == nil {
			r.Unknown(key, rule, p.Pos(fn.Pos()), "frontier variable not found")
			continue
		}
		ok := true
		detail := ""
		for i, e := range frontier.Edges {
			pred := frontier.Block().Preds[i]
			if !frontier.Block().Dominates(pred) {
				continue // entry edge
			}
			if !monotoneUpdate(frontier, e, pred, 0) {
				ok = false
				detail = "back-edge value " + valStr(e) + " is assigned unconditionally"
			}
		}
		r.Check(ok, key, rule, p.Pos(frontier.Pos()), "", detail+": a covering set containing a nested fragment is rejected as having a gap (or the merge index goes negative)")
	}

	// ---- (3) fragments of a fragment
	for _, c := range core.CallsTo(frag, bp7+".fragmentPrimaryBlock") {
		args := core.CallArgs(c)
		okOff := core.DependsOn(args[1], func(v ssa.Value) bool { return pathEndsWith(v, "PrimaryBlock", "FragmentOffset") })
		okTot := core.DependsOn(args[2], func(v ssa.Value) bool { return pathEndsWith(v, "PrimaryBlock", "TotalDataLength") })
		// alternative: fragments are refused as input
		refuses := false
		if outs, ok := enumerateFragmentFlag(p, frag); ok {
			refuses = outs
		}
		r.Check((okOff && okTot) || refuses, "fragment-of-fragment/"+fname(frag)+"/original-coordinates", "when the input is itself a fragment, the new fragments' offset and total length are relative to the original payload (they depend on the input's FragmentOffset / TotalDataLength)", p.Pos(c.Pos()), "", fmt.Sprintf("offset depends on input offset: %v, total depends on input total: %v — re-fragmenting the fragment at offset 331 of a 600-byte payload yields offsets 0/132/263 and total 269", okOff, okTot))
	}

	// ---- (4) store side
	ic := p.Func(storagePkg, "BundleItem", "IsComplete")
	ld := p.Func(storagePkg, "BundleItem", "Load")
	r.Check(len(core.CallsTo(ic, bp7+".IsBundleReassemblable")) == 1, "store/"+fname(ic)+"/delegates", "the store's completeness test is the reassembly precondition", p.Pos(ic.Pos()), "", "IsComplete no longer calls IsBundleReassemblable")
	r.Check(len(core.CallsTo(ld, bp7+".ReassembleFragments")) == 1, "store/"+fname(ld)+"/delegates", "loading a fragmented item reassembles its parts", p.Pos(ld.Pos()), "", "Load no longer calls ReassembleFragments")
	ibr := p.Func(bp7, "", "IsBundleReassemblable")
	r.Check(len(core.CallsTo(ibr, bp7+".prepareReassembly")) == 1, "store/"+fname(ibr)+"/same-precondition", "IsBundleReassemblable and ReassembleFragments share prepareReassembly", p.Pos(ibr.Pos()), "", "prepareReassembly not called")
	rf := p.Func(bp7, "", "ReassembleFragments")
	okPrep := false
	for _, c := range core.CallsTo(rf, bp7+".prepareReassembly") {
		for _, m := range core.CallsTo(rf, bp7+".mergeFragmentPayload") {
			if core.MustPassBefore(m, func(i ssa.Instruction) bool { return i == ssa.Instruction(c) }) && errNilGuard(core.DominatingConds(m.Block()), c.(ssa.Value)) {
				okPrep = true
			}
		}
	}
	checkOneSortedSlice(p, r, rf, prep)
	r.Check(okPrep, "store/"+fname(rf)+"/checks-before-merge", "payloads are merged only after prepareReassembly()==nil (sorted, no gap, total covered)", p.Pos(rf.Pos()), "", "mergeFragmentPayload reachable without a successful prepareReassembly")
	storeSideC10(p, r)
	checkCopiesUntouched(p, r, p.Func(bp7, "", "ReassembleFragments"))
}

// checkOneSortedSlice is shared by C09 (reassembly in any order) and C10.
func checkOneSortedSlice(p *core.Program, r *core.Report, rf, prep *ssa.Function) {
	// the slice that was sorted and checked is the one whose first element supplies the blocks
	var checked ssa.Value
	for _, c := range core.CallsTo(rf, bp7+".prepareReassembly") {
		checked = core.Arg(c, 0)
	}
	okSame := checked != nil
	detailSame := ""
	core.EachInstr(rf, func(in ssa.Instruction) {
		switch x := in.(type) {
		case *ssa.IndexAddr:
			if isBundleSlice(x.X.Type()) && x.X != checked {
				okSame = false
				detailSame = "element access at " + p.Pos(x.Pos()) + " reads another slice than the one prepareReassembly sorted"
			}
		case *ssa.Call:
			if core.NameIs(core.CalleeName(x), bp7+".mergeFragmentPayload") && core.Arg(x, 0) != checked {
				okSame = false
				detailSame = "mergeFragmentPayload gets another slice than the one prepareReassembly sorted"
			}
		}
	})
	r.Check(okSame, "store/"+fname(rf)+"/one-sorted-slice", "the primary block, the extension blocks and the payloads are all taken from the very slice prepareReassembly sorted by offset (element 0 is the offset-0 fragment, which carries all extension blocks)", p.Pos(rf.Pos()), "", detailSame+": with fragments given out of order the reassembled bundle silently loses the non-replicated blocks")
	// prepareReassembly sorts its argument by FragmentOffset, in place
	okSort := false
	for _, c := range core.CallsTo(prep, "sort.Slice") {
		arg := core.Strip(core.Arg(c, 0))
		isParam := arg == ssa.Value(prep.Params[0])
		if ld, ok := arg.(*ssa.UnOp); ok {
			if a, ok := ld.X.(*ssa.Alloc); ok && allocHoldsParam(a, prep.Params[0]) {
				isParam = true
			}
		}
		if isParam {
			for _, cl := range prep.AnonFuncs {
				nOff := 0
				core.EachInstr(cl, func(in ssa.Instruction) {
					if fa, ok := in.(*ssa.FieldAddr); ok && pathEndsWith(fa, "FragmentOffset") {
						nOff++
					}
				})
				if nOff >= 2 {
					okSort = true
				}
			}
		}
	}
	r.Check(okSort, "store/"+fname(prep)+"/sorts-by-offset", "prepareReassembly sorts the fragments it was given by fragment offset", p.Pos(prep.Pos()), "", "sort.Slice over the parameter by FragmentOffset not found")
}

func storeSideC10(p *core.Program, r *core.Report) {
	// the store's completeness test sees what the part files hold: file operations are atomic with their record
	checkPartFileLocking(p, r, "")
	checkWriteErrorsNotDropped(p, r)
	// distinct fragments get distinct part files: the file name depends on the payload length, too
	bpp := p.Func(storagePkg, "", "bundlePartPath")
	okName := false
	for _, c := range core.CallsTo(bpp, "crypto/sha256.Sum256") {
		okName = len(bpp.Params) >= 3 && core.DependsOn(core.Arg(c, 0), func(v ssa.Value) bool { return v == ssa.Value(bpp.Params[1]) }) &&
			partNameDependsOnID(bpp, core.Arg(c, 0))
	}
	r.Check(okName, "store/"+fname(bpp)+"/distinct-files", "the part file name is derived from the fragment's bundle ID and its payload length, so that two fragments starting at the same offset do not overwrite each other", p.Pos(bpp.Pos()), "", "file name does not depend on the payload length")

	// ... and the length the name is derived from is the length recorded in the
	// part (the duplicate test in Push compares the recorded one)
	nName := 0
	for _, cs := range allCallSites(p, storagePkg+".bundlePartPath") {
		nName++
		fn := cs.Parent()
		arg := core.Arg(cs, 1)
		var stores []*ssa.Store
		core.EachInstr(fn, func(in ssa.Instruction) {
			if st, ok := in.(*ssa.Store); ok && core.IsField(st.Addr, storagePkg, "BundlePart", "PayloadLength") {
				stores = append(stores, st)
			}
		})
		ok, why := false, "no store to BundlePart.PayloadLength in this function"
		if len(stores) == 1 {
			st := stores[0]
			switch {
			case arg == st.Val:
				ok = true
			default:
				why = "the length handed to bundlePartPath is not the value recorded as the part's PayloadLength"
				if ld, isLd := arg.(*ssa.UnOp); isLd && ld.Op == token.MUL && core.IsField(ld.X, storagePkg, "BundlePart", "PayloadLength") {
					if core.MustPassBefore(ld, func(i ssa.Instruction) bool { return i == ssa.Instruction(st) }) {
						ok = true
					} else {
						why = "the part's PayloadLength is read for the file name before it is set (zero): fragments starting at one offset share a file"
					}
				}
			}
			if ok && !core.DependsOn(st.Val, func(v ssa.Value) bool {
				c, isC := v.(*ssa.Call)
				return isC && core.NameIs(core.CalleeName(c), bp7+".PayloadBlock.Data")
			}) {
				ok, why = false, "the recorded length is not the length of the payload data"
			}
		} else if len(stores) > 1 {
			why = "more than one store to BundlePart.PayloadLength"
		}
		r.Check(ok, "store/"+fname(fn)+"/file-name-from-recorded-length", "the payload length a part's file name is derived from is the very value recorded as the part's PayloadLength (the key of Store.Push's duplicate test) and is the length of the payload data", p.Pos(cs.Pos()), "", why)
	}
	r.Count("bundlePartPath call sites", nName)
	r.Min("bundlePartPath call sites", 1)

	push := p.Func(storagePkg, "Store", "Push")
	nPartApp := 0
	core.EachInstr(push, func(in ssa.Instruction) {
		c, ok := in.(*ssa.Call)
		if !ok {
			return
		}
		b, ok := c.Common().Value.(*ssa.Builtin)
		if !ok || b.Name() != "append" {
			return
		}
		s, ok := c.Type().Underlying().(*types.Slice)
		if !ok || !core.TypeIs(s.Elem(), storagePkg, "BundlePart") {
			return
		}
		nPartApp++
		// guarded by knownFragment == false where knownFragment is true only under equality of both coordinates
		okDedup := false
		threeEqual := func(conds []core.Cond) bool {
			seen := map[string]bool{}
			for _, pc := range conds {
				if bo, ok := pc.V.(*ssa.BinOp); ok && bo.Op == token.EQL && pc.True {
					for _, f := range []string{"FragmentOffset", "TotalDataLength", "PayloadLength"} {
						if pathEndsWith(bo.X, f) && pathEndsWith(bo.Y, f) {
							seen[f] = true
						}
					}
				}
			}
			return seen["FragmentOffset"] && seen["TotalDataLength"] && seen["PayloadLength"]
		}
		for _, cd := range core.DominatingConds(c.Block()) {
			// the duplicate test extracted into a boolean helper: every `true` result lies under the three equalities
			if call, isCall := cd.V.(*ssa.Call); isCall && !cd.True {
				if f := call.Common().StaticCallee(); f != nil && core.IsRepo(f) && f.Blocks != nil {
					all, n := true, 0
					for _, rv := range core.ReturnValues(f, 0) {
						if core.IsBoolConst(rv.V, false) {
							continue
						}
						n++
						if !core.IsBoolConst(rv.V, true) || !threeEqual(core.DominatingConds(rv.At.Block())) {
							all = false
						}
					}
					if all && n > 0 {
						okDedup = true
					}
				}
			}
			phi, ok := cd.V.(*ssa.Phi)
			if !ok || cd.True {
				continue
			}
			good := false
			for i, e := range phi.Edges {
				if !core.IsBoolConst(e, true) {
					continue
				}
				conds := core.DominatingConds(phi.Block().Preds[i])
				seen := map[string]bool{}
				for _, pc := range conds {
					if bo, ok := pc.V.(*ssa.BinOp); ok && bo.Op == token.EQL && pc.True {
						for _, f := range []string{"FragmentOffset", "TotalDataLength", "PayloadLength"} {
							if pathEndsWith(bo.X, f) && pathEndsWith(bo.Y, f) {
								seen[f] = true
							}
						}
					}
				}
				if seen["FragmentOffset"] && seen["TotalDataLength"] && seen["PayloadLength"] {
					good = true
				}
			}
			if good {
				okDedup = true
			}
		}
		r.Check(okDedup, "store/"+fname(push)+"/dedup-parts", "a fragment is added to a record unless a part with the same offset, total length AND payload length is stored: fragments of different fragmentations share offsets but differ in length, and dropping the longer one can leave the record incomplete for ever", p.Pos(c.Pos()), "", "the duplicate test does not compare offset, total length and payload length")
	})
	r.Min("part appends in Store.Push", 1)
	r.Count("part appends in Store.Push", nPartApp)
}

// geq: the condition (with the edge taken) establishes a >= b.
func geq(cb *ssa.BinOp, edge bool, a, b ssa.Value) bool {
	switch {
	case cb.X == a && cb.Y == b:
		return (cb.Op == token.GEQ && edge) || (cb.Op == token.LSS && !edge)
	case cb.X == b && cb.Y == a:
		return (cb.Op == token.LEQ && edge) || (cb.Op == token.GTR && !edge)
	}
	return false
}

// geqOrdered: condition establishes  end >= frontier  (or >) where end is the
// X operand if endIsX.
func geqOrdered(cb *ssa.BinOp, edge bool, endIsX bool) bool {
	if endIsX {
		return ((cb.Op == token.GEQ || cb.Op == token.GTR) && edge) || ((cb.Op == token.LSS || cb.Op == token.LEQ) && !edge)
	}
	return ((cb.Op == token.LEQ || cb.Op == token.LSS) && edge) || ((cb.Op == token.GTR || cb.Op == token.GEQ) && !edge)
}

// isEndOf: v == start + len(data)
func isEndOf(v ssa.Value, start ssa.Value, data ssa.Value) bool {
	b, ok := v.(*ssa.BinOp)
	if !ok || b.Op != token.ADD {
		return false
	}
	for _, pair := range [][2]ssa.Value{{b.X, b.Y}, {b.Y, b.X}} {
		if pair[0] != start {
			continue
		}
		if c, ok := core.Strip(pair[1]).(*ssa.Call); ok {
			if bi, ok := c.Common().Value.(*ssa.Builtin); ok && bi.Name() == "len" && c.Common().Args[0] == data {
				return true
			}
		}
	}
	return false
}

// monotoneUpdate: the value e flowing into the loop-carried phi from pred is
// the phi itself, or is only assigned under new > old.
func monotoneUpdate(phi *ssa.Phi, e ssa.Value, pred *ssa.BasicBlock, depth int) bool {
	if depth > 4 {
		return false
	}
	if e == ssa.Value(phi) {
		return true
	}
	if m, ok := e.(*ssa.Phi); ok && m != phi {
		for i, ee := range m.Edges {
			if !monotoneUpdate(phi, ee, m.Block().Preds[i], depth+1) {
				return false
			}
		}
		return true
	}
	// max(old, new) via math.Max is not used here; require a dominating guard new > old
	for _, c := range core.DominatingConds(pred) {
		cb, ok := c.V.(*ssa.BinOp)
		if !ok {
			continue
		}
		switch {
		case cb.X == e && cb.Y == ssa.Value(phi):
			if (cb.Op == token.GTR && c.True) || (cb.Op == token.LEQ && !c.True) || (cb.Op == token.GEQ && c.True) {
				return true
			}
		case cb.X == ssa.Value(phi) && cb.Y == e:
			if (cb.Op == token.LSS && c.True) || (cb.Op == token.GEQ && !c.True) || (cb.Op == token.LEQ && c.True) {
				return true
			}
		}
	}
	return false
}

// enumerateFragmentFlag: does Fragment refuse inputs that are fragments?
func enumerateFragmentFlag(p *core.Program, frag *ssa.Function) (bool, bool) {
	isFrag := constVal(p, bp7, "IsFragment")
	pe := &core.PathEnum{Fn: frag, Bind: map[ssa.Value]int64{}, MaxUnknownVisits: 1, MaxPaths: 2000}
	pe.EvalCall = func(c *ssa.Call, st *core.PathState) (int64, bool) {
		n := core.CalleeName(c)
		if core.NameIs(n, bp7+".PrimaryBlock.HasFragmentation") {
			return 1, true
		}
		if core.NameIs(n, bp7+".BundleControlFlags.Has") {
			if k, ok := core.ConstInt(core.Arg(c, 0)); ok && k == isFrag {
				return 1, true
			}
		}
		return 0, false
	}
	pe.Run()
	if pe.Trunc || len(pe.Paths) == 0 {
		return false, false
	}
	for _, pr := range pe.Paths {
		if !pr.Panics && pr.ErrOutcome(1) != "nonnil" {
			return false, true
		}
	}
	return true, true
}

// isSingletonOf: v is []T{x} where x is (a load of the spill of) parameter par.
func isSingletonOf(v ssa.Value, par *ssa.Parameter) bool {
	sl, ok := v.(*ssa.Slice)
	if !ok {
		return false
	}
	a, ok := sl.X.(*ssa.Alloc)
	if !ok {
		return false
	}
	if n, ok := allocArrayLen(a); !ok || n != 1 {
		return false
	}
	for _, ref := range *a.Referrers() {
		ia, ok := ref.(*ssa.IndexAddr)
		if !ok {
			continue
		}
		for _, r2 := range *ia.Referrers() {
			st, ok := r2.(*ssa.Store)
			if !ok {
				continue
			}
			if st.Val == ssa.Value(par) {
				return true
			}
			if ld, ok := st.Val.(*ssa.UnOp); ok {
				if pa, ok := ld.X.(*ssa.Alloc); ok {
					for _, r3 := range *pa.Referrers() {
						if s3, ok := r3.(*ssa.Store); ok && s3.Addr == ssa.Value(pa) && s3.Val == ssa.Value(par) {
							return true
						}
					}
				}
			}
		}
	}
	return false
}

// checkCopiesUntouched: "returns the original payload and blocks". The result is put together from copies of the first
// fragment's primary block and extension blocks plus one new payload block; a method that stores through a *Bundle
// receiver (SetCRCType, AddExtensionBlock, sortBlocks ...) applied to the result rewrites the copied blocks as well.
// The only things set on the result are named fields of its primary block (the fragment coordinates being cleared)
// and the appended blocks.
func checkCopiesUntouched(p *core.Program, r *core.Report, fn *ssa.Function) {
	mut := mayMutateMethods(p)
	var bad []string
	n := 0
	core.EachInstr(fn, func(in ssa.Instruction) {
		c, ok := in.(ssa.CallInstruction)
		if !ok {
			return
		}
		callee := core.Callee(c)
		if callee == nil || !mut[callee] {
			return
		}
		n++
		recv := core.CallRecv(c)
		if recv == nil {
			return
		}
		if pt, ok := recv.Type().(*types.Pointer); ok && core.TypeIs(pt.Elem(), bp7, "Bundle") {
			bad = append(bad, p.Pos(in.Pos())+" "+shortName(core.CalleeName(c)))
		}
	})
	r.Analysed["mutator_calls_in_"+fn.Name()] = n
	r.Check(len(bad) == 0, "copies-untouched/"+fname(fn), "the blocks copied from the fragments into the result are not rewritten: no method that stores through a *Bundle receiver is applied to the result (a CRC type, number or order set bundle-wide changes the copied blocks, the result no longer equals the original)", p.Pos(fn.Pos()), "", "bundle-wide mutator(s) applied: "+strings.Join(bad, ", "))
}

// mayMutateMethods: mutatingMethods plus the pointer-receiver methods of bpv7 that hand an address derived from their
// receiver to a call the analysis cannot see through (a function value, an interface method) or to a method already in
// the set - e.g. Bundle.SetCRCType, which visits its blocks through forEachBlock(func(block)).
func mayMutateMethods(p *core.Program) map[*ssa.Function]bool {
	out := mutatingMethods(p)
	derived := func(fn *ssa.Function, v ssa.Value) bool {
		return core.DependsOn(v, func(x ssa.Value) bool { return x == ssa.Value(fn.Params[0]) })
	}
	changed := true
	for changed {
		changed = false
		for _, fn := range p.RepoFuncs() {
			if out[fn] || fn.Pkg == nil || !core.NameIs(fn.Pkg.Pkg.Path(), bp7) || fn.Signature.Recv() == nil || len(fn.Params) == 0 {
				continue
			}
			if _, isPtr := fn.Signature.Recv().Type().(*types.Pointer); !isPtr {
				continue
			}
			mut := false
			core.EachInstr(fn, func(in ssa.Instruction) {
				c, ok := in.(ssa.CallInstruction)
				if !ok {
					return
				}
				cc := c.Common()
				callee := cc.StaticCallee()
				dynamic := callee == nil
				if !dynamic && !out[callee] {
					return
				}
				if cc.IsInvoke() && derived(fn, cc.Value) {
					mut = true
				}
				for _, a := range cc.Args {
					if _, isPtrOrIface := a.Type().Underlying().(*types.Pointer); isPtrOrIface && derived(fn, a) {
						mut = true
					}
					if _, isIface := a.Type().Underlying().(*types.Interface); isIface && derived(fn, a) {
						mut = true
					}
				}
			})
			if mut {
				out[fn] = true
				changed = true
			}
		}
	}
	return out
}

// freshInLoop: the slice value v is created within loop l (per iteration), not an alias of one created outside.
func freshInLoop(v ssa.Value, l *core.Loop, seen map[ssa.Value]bool) bool {
	if seen[v] {
		return true
	}
	seen[v] = true
	switch x := v.(type) {
	case *ssa.Const:
		return x.Value == nil
	case *ssa.MakeSlice:
		return l.Blocks[x.Block()]
	case *ssa.Slice:
		return freshInLoop(x.X, l, seen)
	case *ssa.ChangeType:
		return freshInLoop(x.X, l, seen)
	case *ssa.Phi:
		if !l.Blocks[x.Block()] {
			return false
		}
		for _, e := range x.Edges {
			if !freshInLoop(e, l, seen) {
				return false
			}
		}
		return true
	case *ssa.Call:
		if b, ok := x.Common().Value.(*ssa.Builtin); ok && b.Name() == "append" {
			return freshInLoop(x.Common().Args[0], l, seen)
		}
		return false
	case *ssa.UnOp:
		if x.Op != token.MUL {
			return false
		}
		fa, ok := x.X.(*ssa.FieldAddr)
		if !ok {
			return false
		}
		a, ok := fa.X.(*ssa.Alloc)
		if !ok || !l.Blocks[a.Block()] && !allocInitInLoop(a, l) {
			return false
		}
		// every value stored into this field of this local, and the constructor that initialised the local
		for _, ref := range *a.Referrers() {
			switch y := ref.(type) {
			case *ssa.FieldAddr:
				if y.Field != fa.Field {
					continue
				}
				for _, r2 := range *y.Referrers() {
					if st, ok := r2.(*ssa.Store); ok && st.Addr == ssa.Value(y) && !freshInLoop(st.Val, l, seen) {
						return false
					}
				}
			case *ssa.Store:
				if y.Addr != ssa.Value(a) {
					continue
				}
				c, ok := y.Val.(*ssa.Call)
				if !ok {
					return false
				}
				n := core.CalleeName(c)
				if !(core.NameIs(n, bp7+".MustNewBundle") || core.NameIs(n, bp7+".NewBundle")) || !freshInLoop(core.Arg(c, 1), l, seen) {
					if ex, isEx := y.Val.(*ssa.Extract); !isEx || ex == nil {
						return false
					}
				}
			}
		}
		return true
	}
	return false
}

// allocInitInLoop: the local is (re)initialised inside the loop (its Alloc may have been hoisted to the entry block).
func allocInitInLoop(a *ssa.Alloc, l *core.Loop) bool {
	for _, ref := range *a.Referrers() {
		if st, ok := ref.(*ssa.Store); ok && st.Addr == ssa.Value(a) && l.Blocks[st.Block()] {
			return true
		}
	}
	return false
}

// mergePlacement decides where the tail sl = X[a-b:] of a fragment (a: merged
// frontier, b: the fragment's start) is written. Accepted: append(acc, sl...)
// with acc the loop-carried accumulator that starts empty, changes only by this
// append and moves in lockstep with the frontier (frontier' = b+len(X) exactly
// on the edges on which the append happened), so len(acc) == frontier; or
// copy(acc[a:], sl).
func mergePlacement(sl *ssa.Slice, a, b ssa.Value) (bool, string) {
	refs := sl.Referrers()
	n := 0
	if refs != nil {
		for _, ref := range *refs {
			c, ok := ref.(*ssa.Call)
			if !ok {
				if _, dbg := ref.(*ssa.DebugRef); dbg {
					continue
				}
				return false, "the tail flows into " + ref.String() + ", not into the accumulator"
			}
			bi, ok := c.Common().Value.(*ssa.Builtin)
			if !ok {
				return false, "the tail is passed to " + c.String()
			}
			args := c.Common().Args
			switch bi.Name() {
			case "append":
				if len(args) != 2 || args[1] != ssa.Value(sl) {
					return false, "the tail is the destination of an append"
				}
				acc, ok := args[0].(*ssa.Phi)
				if !ok {
					return false, "appended to " + valStr(args[0]) + ", which is not the loop-carried accumulator"
				}
				fphi, ok := a.(*ssa.Phi)
				if !ok || fphi.Block() != acc.Block() {
					return false, "the frontier " + valStr(a) + " is not carried by the same loop as the accumulator"
				}
				var lock func(ae, fe ssa.Value, depth int) (bool, string)
				lock = func(ae, fe ssa.Value, depth int) (bool, string) {
					if ae == ssa.Value(acc) && fe == ssa.Value(fphi) {
						return true, ""
					}
					if ae == ssa.Value(c) {
						if isEndOf(fe, b, sl.X) {
							return true, ""
						}
						return false, "after the append the frontier becomes " + valStr(fe) + ", not start+len(fragment data)"
					}
					ap, ok1 := ae.(*ssa.Phi)
					fp, ok2 := fe.(*ssa.Phi)
					if ok1 && ok2 && ap.Block() == fp.Block() && depth < 4 {
						for i := range ap.Edges {
							if ok, d := lock(ap.Edges[i], fp.Edges[i], depth+1); !ok {
								return false, d
							}
						}
						return true, ""
					}
					return false, "accumulator " + valStr(ae) + " and frontier " + valStr(fe) + " do not move together"
				}
				for i, e := range acc.Edges {
					pred := acc.Block().Preds[i]
					if !acc.Block().Dominates(pred) { // entry edge
						if !emptySliceValue(e) {
							return false, "the accumulator starts as " + valStr(e) + ", not empty: appended tails land behind its initial length"
						}
						if k, ok := fphi.Edges[i].(*ssa.Const); !ok || k.Value == nil || k.Int64() != 0 {
							return false, "the frontier does not start at 0"
						}
						continue
					}
					if ok, d := lock(e, fphi.Edges[i], 0); !ok {
						return false, d
					}
				}
				n++
			case "copy":
				dst, ok := args[0].(*ssa.Slice)
				if len(args) != 2 || args[1] != ssa.Value(sl) || !ok {
					return false, "copy with the tail as destination or into an unsliced buffer"
				}
				if dst.Low != a {
					return false, "copied to " + valStr(dst.X) + "[" + valStr(dst.Low) + ":], but the skipped prefix lastIndex-fragStart puts the first remaining byte at the frontier " + valStr(a)
				}
				n++
			default:
				return false, "the tail is passed to " + bi.Name()
			}
		}
	}
	if n == 0 {
		return false, "the sliced tail is never written to the payload"
	}
	return true, ""
}

func emptySliceValue(v ssa.Value) bool {
	switch x := v.(type) {
	case *ssa.Const:
		return x.Value == nil
	case *ssa.MakeSlice:
		if k, ok := x.Len.(*ssa.Const); ok && k.Value != nil && k.Int64() == 0 {
			return true
		}
	}
	return false
}
