package rules

import (
	"fmt"
	"go/constant"
	"go/token"
	"go/types"
	"os"
	"sort"
	"strings"

	"dtnverif/core"

	"golang.org/x/tools/go/ssa"
)

func init() { Registry["C17"] = C17 }

const (
	discPkg = "pkg/discovery"
)

func msgPair(p *core.Program, typ string) codecPair {
	return codecPair{name: "tcpclv4." + typ, enc: p.Func(msgsPkg, typ, "Marshal"), dec: p.Func(msgsPkg, typ, "Unmarshal")}
}

// stripBytes removes the raw-bytes tokens (compared separately by the
// length-prefix discipline) from a grammar.
func stripBytes(g []wirePath) []wirePath {
	seen := map[string]bool{}
	var out []wirePath
	for _, w := range g {
		var n wirePath
		for _, t := range w.Toks {
			if t.Kind != "Bytes" {
				n.Toks = append(n.Toks, t)
			}
		}
		if k := n.kinds(); !seen[k] {
			seen[k] = true
			out = append(out, n)
		}
	}
	return out
}

// C17 — all auxiliary wire formats round-trip and stay aligned on a stream.
func C17(p *core.Program, r *core.Report) {
	r.Explanation = "Value equality after a round trip and URI text <-> structure bijection are NOT decided. Decided: (WG) encoder/decoder agreement for the TCPCLv4 contact header and seven messages (fixed-width big-endian fields; raw byte parts are compared through the length-prefix discipline: the decoder allocates/reads exactly the length it just read, the encoder writes the length of what it then writes), discovery announcements and their list, the WebSocket-agent wrapper and its five bodies, BundleID, StatusReport, BundleStatusItem, the administrative-record wrapper — same element kinds, order, optional groups, announced lengths, fields; because every field is fixed-width or length-prefixed this is the static content of 'decoding consumes exactly what the encoder produced'. (CF) the TCPCL dispatch table keys, the constant each Marshal writes first and the constant each Unmarshal compares with are equal per type and pairwise distinct; wamMapping keys equal the typeCode() constants; ReadMessage re-prepends exactly the byte it consumed. (GC) every decoder of a field whose type has IsValid() rejects invalid values; the contact header compares magic+version; announcements validate the CLA type; endpoint constructors end in CheckValid."
	r.Assumptions = append(r.Assumptions, "encoding/binary.Read/Write with the same byte order and the same fixed-size type are mutually inverse")

	derived := map[string]bool{"CRC": true}
	// ---- cboring based pairs
	pairs := []codecPair{
		{name: "discovery.Announcement", enc: p.Func(discPkg, "Announcement", "MarshalCbor"), dec: p.Func(discPkg, "Announcement", "UnmarshalCbor"), flat: true},
		{name: "agent.webAgentMessage wrapper", enc: p.Func(agentPkg, "", "marshalCbor"), dec: p.Func(agentPkg, "", "unmarshalCbor"), flat: true},
		cborPair(p, agentPkg, "wamStatus"), cborPair(p, agentPkg, "wamRegister"), cborPair(p, agentPkg, "wamBundle"),
		cborPair(p, agentPkg, "wamSyscallRequest"), cborPair(p, agentPkg, "wamSyscallResponse"),
		cborPair(p, bp7, "BundleID"), cborPair(p, bp7, "BundleStatusItem"), cborPair(p, bp7, "StatusReport"),
		cborPair(p, bp7, "CreationTimestamp"), cborPair(p, bp7, "EndpointID"), cborPair(p, bp7, "DtnEndpoint"), cborPair(p, bp7, "IpnEndpoint"),
		{name: "AdministrativeRecordManager", enc: p.Func(bp7, "AdministrativeRecordManager", "WriteAdministrativeRecord"), dec: p.Func(bp7, "AdministrativeRecordManager", "ReadAdministrativeRecord"), flat: true},
	}
	for i := range pairs {
		switch pairs[i].name {
		case "wamStatus", "wamRegister", "wamBundle", "wamSyscallRequest", "BundleID", "StatusReport", "DtnEndpoint":
			pairs[i].flat = false
		}
	}
	checkCodecPairs(p, r, pairs, derived)
	r.Min("codec pairs", 15)

	// announcement list: A(n) (Sub(Announcement))* both sides on their local buffer
	ma := p.Func(discPkg, "", "MarshalAnnouncements")
	ua := p.Func(discPkg, "", "UnmarshalAnnouncements")
	okL := len(core.CallsTo(ma, cbor+".WriteArrayLength")) == 1 && len(core.CallsTo(ua, cbor+".ReadArrayLength")) == 1 &&
		len(core.CallsTo(ma, cbor+".Marshal")) == 1 && len(core.CallsTo(ua, cbor+".Unmarshal")) == 1
	if okL {
		w := core.CallsTo(ma, cbor+".WriteArrayLength")[0]
		lc, ok := core.Strip(core.Arg(w, 0)).(*ssa.Call)
		okL = ok && lc.Common().Value.Name() == "len" && lc.Common().Args[0] == ssa.Value(ma.Params[0])
		okL = okL && core.InLoop(core.CallsTo(ma, cbor+".Marshal")[0].Block()) && core.InLoop(core.CallsTo(ua, cbor+".Unmarshal")[0].Block())
	}
	r.Check(okL, "wire-grammar/discovery.Announcements(list)", "the announcement list is an array header with the number of announcements followed by that many announcements, on both sides", p.Pos(ma.Pos()), "", "list framing changed")

	// ---- TCPCL messages
	msgTypes := []string{"ContactHeader", "SessionInitMessage", "SessionTerminationMessage", "DataTransmissionMessage", "DataAcknowledgementMessage", "TransferRefusalMessage", "KeepaliveMessage", "MessageRejectionMessage"}
	nMsg := 0
	for _, typ := range msgTypes {
		cp := msgPair(p, typ)
		key := "wire-grammar/" + cp.name
		rule := "encoder and decoder of a TCPCLv4 message move the same fixed-width big-endian fields in the same order; raw byte parts follow the length-prefix discipline"
		enc, ok1 := grammarOf(p, cp.enc, encSide)
		dec, ok2 := grammarOf(p, cp.dec, decSide)
		if !ok1 || !ok2 || len(enc) == 0 || len(dec) == 0 {
			r.Unknown(key, rule, p.Pos(cp.enc.Pos()), fmt.Sprintf("codec outside the enumerable fragment (encoder paths %d, decoder paths %d)", len(enc), len(dec)))
			continue
		}
		nMsg++
		ok, detail := compareGrammars(stripBytes(enc), stripBytes(dec), derived)
		d := "encoder: " + grammarString(enc) + "  decoder: " + grammarString(dec)
		if ok {
			r.OK(key, rule, p.Pos(cp.enc.Pos()), d)
		} else {
			r.Fail(key, rule, p.Pos(cp.dec.Pos()), detail+" — "+d)
		}
		// byte order
		okBE := true
		for _, fn := range []*ssa.Function{cp.enc, cp.dec} {
			for _, n := range []string{"encoding/binary.Write", "encoding/binary.Read"} {
				for _, c := range core.CallsTo(fn, n) {
					if !strings.Contains(core.Arg(c, 1).String(), "BigEndian") && !isBigEndian(core.Arg(c, 1)) {
						okBE = false
					}
				}
			}
		}
		r.Check(okBE, "byte-order/"+cp.name, "all fixed-width fields are big-endian on both sides", p.Pos(cp.enc.Pos()), "", "a binary.Read/Write does not use binary.BigEndian")
		// length-prefix discipline
		checkLengthPrefix(p, r, cp, enc, dec)
	}
	r.Min("TCPCLv4 message pairs", 8)
	r.Count("TCPCLv4 message pairs", nMsg)

	checkSharedAppend(p, r)
	checkTCPCLCodes(p, r, msgTypes)
	checkWamCodes(p, r)
	checkInvalidRejected(p, r)
	checkTextNumberWidth(p, r)
	checkEndpointDecoderValidates(p, r)
	checkEndpointRegexps(p, r)
	// no codec function reports success for a value it failed to encode / decode completely
	nES := 0
	for _, fn := range p.RepoFuncs() {
		if fn.Pkg == nil || fn.Parent() != nil {
			continue
		}
		switch fn.Pkg {
		case p.Pkg(bp7), p.Pkg(msgsPkg), p.Pkg(agentPkg), p.Pkg("pkg/discovery"):
		default:
			continue
		}
		res := fn.Signature.Results()
		if res.Len() == 0 || !isErrorType(res.At(res.Len()-1).Type()) {
			continue
		}
		nES++
		checkErrorsNotSwallowed(p, r, fn, "", nil)
	}
	r.Count("error-returning functions of the codec packages", nES)
	r.Min("error-returning functions of the codec packages", 80)
	checkBundleIDLen(p, r)
}

func isBigEndian(v ssa.Value) bool {
	v = core.Strip(v)
	if ld, ok := v.(*ssa.UnOp); ok {
		if g, ok := ld.X.(*ssa.Global); ok {
			return g.Name() == "BigEndian"
		}
	}
	if g, ok := v.(*ssa.Global); ok {
		return g.Name() == "BigEndian"
	}
	return false
}

// checkLengthPrefix: every raw-bytes part is preceded by its length on both
// sides: the encoder writes len(X) and then X; the decoder reads n and then
// exactly n bytes (or skips them).
func checkLengthPrefix(p *core.Program, r *core.Report, cp codecPair, enc, dec []wirePath) {
	if cp.name == "tcpclv4.ContactHeader" {
		// fixed 6 bytes on both sides
		okE, okD := false, false
		core.EachInstr(cp.dec, func(in ssa.Instruction) {
			if ms, ok := in.(*ssa.MakeSlice); ok {
				if k, ok := core.ConstInt(ms.Len); ok && k == 6 {
					okD = true
				}
			}
			if al, ok := in.(*ssa.Alloc); ok {
				if n, ok := allocArrayLen(al); ok && n == 6 {
					okD = true
				}
			}
		})
		// encoder: append(contactHeaderHead (5 bytes), 1 byte)
		core.EachInstr(cp.enc, func(in ssa.Instruction) {
			if c, ok := in.(*ssa.Call); ok {
				if b, ok := c.Common().Value.(*ssa.Builtin); ok && b.Name() == "append" {
					if ld, ok := c.Common().Args[0].(*ssa.UnOp); ok {
						if g, ok := ld.X.(*ssa.Global); ok && g.Name() == "contactHeaderHead" {
							okE = true
						}
					}
				}
			}
		})
		headLen := int64(-1)
		if g := p.Pkg(msgsPkg).Var("contactHeaderHead"); g != nil {
			initFn := p.Pkg(msgsPkg).Func("init")
			core.EachInstr(initFn, func(in ssa.Instruction) {
				if st, ok := in.(*ssa.Store); ok && st.Addr == ssa.Value(g) {
					if sl, ok := st.Val.(*ssa.Slice); ok {
						if a, ok := sl.X.(*ssa.Alloc); ok {
							if n, ok := allocArrayLen(a); ok {
								headLen = n
							}
						}
					}
				}
			})
		}
		okHead := headLen == 5 || headLen == -1 // -1: not a plain literal, length not determinable here
		r.Check(okE && okD && okHead, "length-prefix/"+cp.name, "the contact header is 5 bytes magic+version plus one flags byte on both sides", p.Pos(cp.enc.Pos()), "", fmt.Sprintf("encoder appends one byte to the head: %v, decoder reads 6 bytes: %v, head length %d", okE, okD, headLen))
		return
	}
	hasBytes := false
	for _, w := range append(append([]wirePath{}, enc...), dec...) {
		for _, t := range w.Toks {
			if t.Kind == "Bytes" {
				hasBytes = true
			}
		}
	}
	if !hasBytes {
		return
	}
	key := "length-prefix/" + cp.name
	rule := "every variable-length part is length-prefixed consistently: the encoder writes len(X) immediately before X; the decoder reads exactly as many bytes as the length it just read"
	okE := true
	detail := ""
	for _, w := range enc {
		for i, t := range w.Toks {
			if t.Kind != "Bytes" {
				continue
			}
			if i == 0 || !strings.HasPrefix(w.Toks[i-1].Kind, "Bin(uint") {
				okE, detail = false, "encoder: bytes not preceded by an integer length"
				continue
			}
			lenTok := w.Toks[i-1]
			data := t.val
			okLen := lenTok.val != nil && core.DependsOn(lenTok.val, func(v ssa.Value) bool {
				c, ok := v.(*ssa.Call)
				if !ok {
					return false
				}
				b, ok := c.Common().Value.(*ssa.Builtin)
				return ok && b.Name() == "len" && (c.Common().Args[0] == data || core.SameLoad(c.Common().Args[0], data) || sameFieldVal(c.Common().Args[0], data))
			})
			if !okLen {
				okE, detail = false, "encoder: the integer before the bytes is not len() of those bytes"
			}
		}
	}
	okD := true
	for _, w := range dec {
		for i, t := range w.Toks {
			if t.Kind != "Bytes" {
				continue
			}
			if i == 0 || !strings.HasPrefix(w.Toks[i-1].Kind, "Bin(uint") {
				okD, detail = false, "decoder: bytes not preceded by an integer length"
				continue
			}
			lenTok := w.Toks[i-1]
			// buffer read = make([]byte, n) with n loaded from the variable the length was read into
			bufv := t.val
			if ld, ok := bufv.(*ssa.UnOp); ok && ld.Op == token.MUL {
				if _, isFA := ld.X.(*ssa.FieldAddr); isFA {
					core.EachInstr(cp.dec, func(in ssa.Instruction) {
						if st, ok := in.(*ssa.Store); ok && sameFieldVal(st.Addr, ld.X) {
							bufv = st.Val
						}
					})
				}
			}
			okBuf := core.DependsOn(bufv, func(v ssa.Value) bool {
				ms, ok := v.(*ssa.MakeSlice)
				if !ok {
					return false
				}
				return core.DependsOn(ms.Len, func(x ssa.Value) bool {
					ld, ok := x.(*ssa.UnOp)
					return ok && ld.Op == token.MUL && lenTok.val != nil && ld.X == core.Strip(lenTok.val)
				})
			})
			if !okBuf {
				okD, detail = false, "decoder: the buffer read is not sized by the length just read"
			}
		}
	}
	r.Check(okE && okD, key, rule, p.Pos(cp.dec.Pos()), "", detail)
}

func sameFieldVal(a, b ssa.Value) bool {
	_, pa, oka := core.FieldRef(core.Strip(a))
	_, pb, okb := core.FieldRef(core.Strip(b))
	return oka && okb && strings.Join(pa, ".") == strings.Join(pb, ".")
}

// checkTCPCLCodes: dispatch table, first written constant, compared constant.
func checkTCPCLCodes(p *core.Program, r *core.Report, msgTypes []string) {
	initFn := p.Pkg(msgsPkg).Func("init")
	table := map[string]int64{} // type name -> key
	core.EachInstr(initFn, func(in ssa.Instruction) {
		mu, ok := in.(*ssa.MapUpdate)
		if !ok {
			return
		}
		k, ok := core.ConstInt(mu.Key)
		if !ok {
			return
		}
		t := core.Strip(mu.Value).Type()
		if pt, ok := t.(*types.Pointer); ok {
			if n, ok := pt.Elem().(*types.Named); ok {
				if _, dup := table[n.Obj().Name()]; dup {
					table[n.Obj().Name()] = -1
				} else {
					table[n.Obj().Name()] = k
				}
			}
		}
	})
	r.Min("TCPCL dispatch table entries", 8)
	r.Count("TCPCL dispatch table entries", len(table))
	seen := map[int64]string{}
	var names []string
	for n := range table {
		names = append(names, n)
	}
	sort.Strings(names)
	for _, n := range names {
		k := table[n]
		if other, dup := seen[k]; dup {
			r.Fail("codes/tcpclv4/distinct/"+n, "message type codes are pairwise distinct", p.Pos(initFn.Pos()), fmt.Sprintf("code %#x is used by %s and %s", k, other, n))
		}
		seen[k] = n
	}
	for _, typ := range msgTypes {
		key := "codes/tcpclv4/" + typ
		rule := "the dispatch table key, the header constant Marshal writes first and the constant Unmarshal compares with are the same value"
		tk, ok := table[typ]
		if !ok {
			r.Fail(key, rule, p.Pos(initFn.Pos()), "type missing from the messages table")
			continue
		}
		enc, _ := grammarOf(p, p.Func(msgsPkg, typ, "Marshal"), encSide)
		first := int64(-1)
		for _, w := range enc {
			if len(w.Toks) > 0 && w.Toks[0].val != nil {
				if k, ok := core.ConstInt(w.Toks[0].val); ok {
					first = k
				}
			}
		}
		cmp := int64(-1)
		un := p.Func(msgsPkg, typ, "Unmarshal")
		core.EachInstr(un, func(in ssa.Instruction) {
			b, ok := in.(*ssa.BinOp)
			if !ok || b.Op != token.NEQ {
				return
			}
			if k, ok := core.ConstInt(b.Y); ok {
				if ld, ok := b.X.(*ssa.UnOp); ok {
					if a, ok := ld.X.(*ssa.Alloc); ok && a == firstReadTarget(un) {
						cmp = k
					}
				}
			}
		})
		if typ == "ContactHeader" {
			// magic starts with 'd' = 0x64
			r.Check(tk == 0x64, key, "the contact header is dispatched on the first byte of its magic 'dtn!'", p.Pos(initFn.Pos()), "", fmt.Sprintf("table key %#x", tk))
			continue
		}
		r.Check(tk == first && tk == cmp, key, rule, p.Pos(un.Pos()), fmt.Sprintf("%#x", tk), fmt.Sprintf("table %#x, written first %#x, compared %#x", tk, first, cmp))
	}
	// ReadMessage: every decoder it starts gets a reader that begins with the byte consumed for the dispatch
	rm := p.Func(msgsPkg, "", "ReadMessage")
	var unm []*ssa.Call
	core.EachInstr(rm, func(in ssa.Instruction) {
		if cc, ok := in.(*ssa.Call); ok && cc.Common().IsInvoke() && cc.Common().Method.Name() == "Unmarshal" {
			unm = append(unm, cc)
		}
	})
	methodCalls := func(name string) []*ssa.Call {
		var out []*ssa.Call
		core.EachInstr(rm, func(in ssa.Instruction) {
			if cc, ok := in.(*ssa.Call); ok && core.CallRecv(cc) != nil {
				n := ""
				if cc.Common().IsInvoke() {
					n = cc.Common().Method.Name()
				} else if f := cc.Common().StaticCallee(); f != nil {
					n = f.Name()
				}
				if n == name {
					out = append(out, cc)
				}
			}
		})
		return out
	}
	rb, ub, pk := methodCalls("ReadByte"), methodCalls("UnreadByte"), methodCalls("Peek")
	okRe, whyRe := len(unm) > 0, "no decoder is started"
	for _, u := range unm {
		rd := u.Common().Args[0]
		okSite := false
		why := "the consumed byte is not re-prepended / Unmarshal reads the raw reader"
		if c, isMR := rd.(*ssa.Call); isMR && core.CalleeName(c) == "io.MultiReader" {
			// (a) the first reader is a buffer over the same byte slice that was read
			var first ssa.Value
			if sl, ok := core.Arg(c, 0).(*ssa.Slice); ok {
				if a, ok := sl.X.(*ssa.Alloc); ok {
					for _, ref := range *a.Referrers() {
						if ia, ok := ref.(*ssa.IndexAddr); ok {
							if k, ok := core.ConstInt(ia.Index); ok && k == 0 {
								for _, rr := range *ia.Referrers() {
									if st, ok := rr.(*ssa.Store); ok {
										first = st.Val
									}
								}
							}
						}
					}
				}
			}
			for _, rf := range core.CallsTo(rm, "io.ReadFull") {
				readBuf := core.Arg(rf, 1)
				if first != nil && core.DependsOn(first, func(v ssa.Value) bool { return v == readBuf }) {
					okSite = true
				}
			}
		} else {
			// (b) the dispatch byte is only looked at: Peek, or ReadByte put back by UnreadByte on every path, on the
			// very reader the decoder then reads; and no io.ReadFull consumed from it before
			same := func(c *ssa.Call) bool { return core.Strip(core.CallRecv(c)) == core.Strip(rd) }
			looked := false
			okSite = true
			for _, c := range pk {
				if same(c) {
					looked = true
				}
			}
			for _, c := range rb {
				if !same(c) {
					continue
				}
				looked = true
				okSite = okSite && core.MustPassBefore(u, func(i ssa.Instruction) bool {
					cc, ok := i.(*ssa.Call)
					if !ok {
						return false
					}
					for _, x := range ub {
						if x == cc && same(cc) {
							return true
						}
					}
					return false
				})
			}
			okSite = okSite && looked
			for _, rf := range core.CallsTo(rm, "io.ReadFull") {
				if core.Strip(core.Arg(rf, 0)) == core.Strip(rd) && core.BlocksReachableFrom(rf.Block())[u.Block()] {
					okSite = false
				}
			}
			// a buffered reader created for this one call reads ahead and is dropped on return: the bytes it buffered
			// beyond this message are lost to the next ReadMessage
			if core.DependsOn(rd, func(v ssa.Value) bool {
				c, ok := v.(*ssa.Call)
				return ok && strings.HasPrefix(core.CalleeName(c), "bufio.New")
			}) {
				okSite = false
				why = "Unmarshal reads through a buffered reader made for this call only; what it read ahead is lost when ReadMessage returns, the next message is decoded from the wrong offset"
			}
		}
		if !okSite {
			okRe, whyRe = false, p.Pos(u.Pos())+": "+why
		}
	}
	r.Check(okRe, "codes/tcpclv4/ReadMessage-re-prepends", "ReadMessage hands the type's decoder a reader that starts with exactly the byte it consumed for dispatch (the stream stays aligned)", p.Pos(rm.Pos()), fmt.Sprintf("%d decoder start(s)", len(unm)), whyRe)
}

func checkWamCodes(p *core.Program, r *core.Report) {
	initFn := p.Pkg(agentPkg).Func("init")
	// key constant -> reflect.TypeOf(T{}) ; compare with T.typeCode()
	n := 0
	core.EachInstr(initFn, func(in ssa.Instruction) {
		mu, ok := in.(*ssa.MapUpdate)
		if !ok {
			return
		}
		keyC, ok := core.Strip(mu.Key).(*ssa.Const)
		if !ok || keyC.Value == nil || keyC.Value.Kind() != constant.Int {
			return
		}
		tc, ok := mu.Value.(*ssa.Call)
		if !ok || core.CalleeName(tc) != "reflect.TypeOf" {
			return
		}
		t := core.Strip(core.Arg(tc, 0)).Type()
		named, ok := t.(*types.Named)
		if !ok {
			return
		}
		n++
		k, _ := core.ConstInt(keyC)
		fn := p.MethodOf(named, "typeCode")
		got := int64(-1)
		if fn != nil {
			for _, rv := range core.ReturnValues(fn, 0) {
				if v, ok := core.ConstInt(rv.V); ok {
					got = v
				}
			}
		}
		r.Check(got == k, "codes/wam/"+named.Obj().Name(), "the WebSocket-agent message table maps each type code to the type whose typeCode() returns it", p.Pos(mu.Pos()), fmt.Sprint(k), fmt.Sprintf("table key %d, typeCode() %d", k, got))
	})
	r.Min("wamMapping entries", 5)
	r.Count("wamMapping entries", n)
}

// checkInvalidRejected: GC on IsValid / CheckValid in decoders.
func checkInvalidRejected(p *core.Program, r *core.Report) {
	n := 0
	for _, typ := range []string{"SessionTerminationMessage", "TransferRefusalMessage", "MessageRejectionMessage"} {
		un := p.Func(msgsPkg, typ, "Unmarshal")
		n++
		// every nil return passes the false... i.e. is dominated by IsValid() true
		ok := true
		cnt := 0
		for _, rv := range core.ReturnValues(un, 0) {
			if c, isC := rv.V.(*ssa.Const); isC && c.Value == nil {
				cnt++
				conds := core.DominatingConds(rv.At.Block())
				g := false
				for _, cd := range conds {
					if call, isCall := cd.V.(*ssa.Call); isCall && cd.True {
						if o := core.CalleeObj(call); o != nil && o.Name() == "IsValid" && pathEndsWith(core.CallRecv(call), "ReasonCode") {
							g = true
						}
					}
				}
				if !g {
					ok = false
				}
			}
		}
		r.Check(ok && cnt > 0, "invalid-rejected/tcpclv4."+typ, "a message with an unknown reason code is rejected: every successful return is dominated by ReasonCode.IsValid()", p.Pos(un.Pos()), "", "a nil return is reachable without the IsValid test")
	}
	// every named type in msgs with an IsValid method that occurs as a field of a message is covered
	for _, m := range p.Pkg(msgsPkg).Members {
		t, ok := m.(*ssa.Type)
		if !ok {
			continue
		}
		st, ok := t.Type().Underlying().(*types.Struct)
		if !ok {
			continue
		}
		for i := 0; i < st.NumFields(); i++ {
			ft, ok := st.Field(i).Type().(*types.Named)
			if !ok {
				continue
			}
			if f := p.MethodOf(ft, "IsValid"); f != nil && f.Signature.Params().Len() == 0 {
				un := p.FuncOpt(msgsPkg, t.Name(), "Unmarshal")
				if un == nil {
					continue
				}
				has := false
				core.EachInstr(un, func(in ssa.Instruction) {
					if c, ok := in.(*ssa.Call); ok && core.Callee(c) == f {
						has = true
					}
				})
				r.Check(has, "invalid-rejected/field/"+t.Name()+"."+st.Field(i).Name(), "a decoder that fills a field whose type has IsValid() calls it", p.Pos(un.Pos()), "", "field of a validatable type is never validated")
				n++
			}
		}
	}
	r.Min("validated code fields", 3)
	r.Count("validated code fields", n)
	// the code tables agree: IsValid accepts every declared constant of its type and nothing else
	// (the type's const block, String() and IsValid() are three tables of one enumeration; the decoder
	// asks IsValid, the encoder writes whatever constant the session layer chose)
	nTab := 0
	for _, pkg := range p.SSA.AllPackages() {
		if !strings.HasPrefix(pkg.Pkg.Path(), core.ModPath) {
			continue
		}
		for _, m := range pkg.Members {
			t, ok := m.(*ssa.Type)
			if !ok {
				continue
			}
			nt, ok := t.Type().(*types.Named)
			if !ok {
				continue
			}
			bt, ok := nt.Underlying().(*types.Basic)
			if !ok || bt.Info()&types.IsInteger == 0 {
				continue
			}
			f := p.MethodOf(nt, "IsValid")
			if f == nil || f.Signature.Params().Len() != 0 || f.Blocks == nil {
				continue
			}
			declared := map[int64]string{}
			for _, m2 := range pkg.Members {
				if nc, ok := m2.(*ssa.NamedConst); ok && types.Identical(nc.Type(), nt) && nc.Value.Value != nil {
					declared[nc.Value.Int64()] = nc.Name()
				}
			}
			nTab++
			key := "code-table/" + pkg.Pkg.Name() + "." + nt.Obj().Name() + "/IsValid-accepts-exactly-the-declared"
			rule := "IsValid(), evaluated on constants, is true for every declared constant of the type and false for every other value of its range (one byte: all 256 values): a code the node can write is a code the node can read, an unknown code is rejected"
			lo, hi := int64(0), int64(255)
			if bt.Kind() != types.Uint8 {
				// wider types: the declared values and their neighbours
				lo, hi = 0, -1
			}
			bad, undec := "", ""
			test := func(v int64) {
				res, ok := evalConcrete(f, []constant.Value{constant.MakeInt64(v)}, 0)
				if !ok || res.Kind() != constant.Bool {
					undec = fmt.Sprintf("IsValid(%d) could not be evaluated", v)
					return
				}
				_, isDecl := declared[v]
				if constant.BoolVal(res) != isDecl && bad == "" {
					if isDecl {
						bad = fmt.Sprintf("IsValid(%s = %#x) is false: the node rejects a message it can itself produce", declared[v], v)
					} else {
						bad = fmt.Sprintf("IsValid(%#x) is true although no constant of the type has this value", v)
					}
				}
			}
			for v := lo; v <= hi; v++ {
				test(v)
			}
			if hi < lo {
				for v := range declared {
					test(v)
					if _, d := declared[v+1]; !d {
						test(v + 1)
					}
				}
			}
			if undec != "" && bad == "" {
				r.Unknown(key, rule, p.Pos(f.Pos()), undec)
				continue
			}
			r.Check(bad == "", key, rule, p.Pos(f.Pos()), "", bad)
		}
	}
	r.Min("code tables with IsValid", 3)
	r.Count("code tables with IsValid", nTab)
	// contact header magic
	ch := p.Func(msgsPkg, "ContactHeader", "Unmarshal")
	okMagic := false
	for _, rv := range core.ReturnValues(ch, 0) {
		if c, ok := rv.V.(*ssa.Const); ok && c.Value == nil {
			for _, cd := range core.DominatingConds(rv.At.Block()) {
				if call, ok := core.CondIsCall(cd, "bytes.Equal"); ok && cd.True {
					for _, a := range core.CallArgs(call) {
						if ld, ok := a.(*ssa.UnOp); ok {
							if g, ok := ld.X.(*ssa.Global); ok && g.Name() == "contactHeaderHead" {
								okMagic = true
							}
						}
					}
				}
			}
		}
	}
	r.Check(okMagic, "invalid-rejected/tcpclv4.ContactHeader", "a contact header with a wrong magic or version is rejected", p.Pos(ch.Pos()), "", "success not guarded by bytes.Equal(head, contactHeaderHead)")
	// announcement CLA type
	au := p.Func(discPkg, "Announcement", "UnmarshalCbor")
	okCla := false
	core.EachInstr(au, func(in ssa.Instruction) {
		st, ok := in.(*ssa.Store)
		if !ok || !core.IsField(st.Addr, discPkg, "Announcement", "Type") {
			return
		}
		for _, cd := range core.DominatingConds(st.Block()) {
			x, isNil, ok := core.NilCmp(cd)
			if ok && isNil {
				if c, ok := x.(*ssa.Call); ok && core.NameIs(core.CalleeName(c), "pkg/cla.CLAType.CheckValid") {
					okCla = true
				}
			}
		}
	})
	r.Check(okCla, "invalid-rejected/discovery.Announcement.Type", "an announcement with an unknown CLA type is rejected", p.Pos(au.Pos()), "", "Type stored without CheckValid()==nil")
	// endpoint constructors end in CheckValid
	for _, name := range []string{"NewEndpointID", "NewDtnEndpoint", "NewIpnEndpoint"} {
		fn := p.Func(bp7, "", name)
		okCV := false
		core.EachInstr(fn, func(in ssa.Instruction) {
			if c, ok := in.(*ssa.Call); ok {
				o := core.CalleeObj(c)
				if o != nil && o.Name() == "CheckValid" {
					okCV = true
				}
			}
		})
		// NewEndpointID dispatches to the scheme constructors registered in newMap
		if name == "NewEndpointID" && !okCV {
			okCV = endpointCtorValidates(p, fn)
		}
		r.Check(okCV, "invalid-rejected/"+name, "endpoint constructors validate what they built (malformed or out-of-range URIs are rejected)", p.Pos(fn.Pos()), "", "constructor does not call CheckValid")
	}
}

// endpointCtorValidates: NewEndpointID builds its result only from what a
// scheme constructor looked up in newMap returned without error, and the
// constructors registered there are the validating NewDtnEndpoint/NewIpnEndpoint.
func endpointCtorValidates(p *core.Program, fn *ssa.Function) bool {
	var dyn *ssa.Call
	core.EachInstr(fn, func(in ssa.Instruction) {
		c, ok := in.(*ssa.Call)
		if !ok || c.Common().IsInvoke() || c.Common().StaticCallee() != nil {
			return
		}
		if core.DependsOn(c.Common().Value, func(v ssa.Value) bool {
			l, ok := v.(*ssa.Lookup)
			return ok && pathEndsWith(l.X, "newMap")
		}) {
			dyn = c
		}
	})
	if dyn == nil {
		return false
	}
	okStore := false
	core.EachInstr(fn, func(in ssa.Instruction) {
		mi, ok := in.(*ssa.MakeInterface)
		if !ok {
			return
		}
		_ = mi
	})
	// the non-error result is only produced under err == nil of the dynamic constructor
	for _, rv := range core.ReturnValues(fn, 0) {
		if os.Getenv("DTNLINT_DEBUG") != "" {
			fmt.Println("DEBUG rv", rv.V, rv.V.Name(), rv.At)
			fn.WriteTo(os.Stdout)
		}
		if core.DependsOn(rv.V, func(v ssa.Value) bool {
			ex, ok := v.(*ssa.Extract)
			return ok && ex.Tuple == ssa.Value(dyn) && ex.Index == 0
		}) {
			if errNilGuard(core.DominatingConds(rv.At.Block()), dyn) {
				okStore = true
			} else {
				return false
			}
		}
	}
	// registrations: the only function filling newMap mentions exactly validating constructors
	reg := 0
	okCtors := true
	for _, f := range p.RepoFuncs() {
		fills := false
		core.EachInstr(f, func(in ssa.Instruction) {
			if mu, ok := in.(*ssa.MapUpdate); ok && pathEndsWith(mu.Map, "newMap") {
				fills = true
			}
		})
		if !fills {
			continue
		}
		reg++
		var ops []*ssa.Value
		core.EachInstr(f, func(in ssa.Instruction) {
			ops = in.Operands(ops[:0])
			for _, op := range ops {
				if fv, ok := (*op).(*ssa.Function); ok && core.IsRepo(fv) && fv.Signature.Results().Len() == 2 && strings.HasPrefix(fv.Name(), "New") {
					// a scheme constructor: must call CheckValid
					has := false
					core.EachInstr(fv, func(i2 ssa.Instruction) {
						if c, ok := i2.(*ssa.Call); ok {
							if o := core.CalleeObj(c); o != nil && o.Name() == "CheckValid" {
								has = true
							}
						}
					})
					if !has {
						okCtors = false
					}
				}
			}
		})
	}
	if os.Getenv("DTNLINT_DEBUG") != "" {
		fmt.Println("DEBUG endpointCtor", dyn != nil, okStore, reg, okCtors)
	}
	return okStore && reg == 1 && okCtors
}

// firstReadTarget returns the local variable the first binary.Read of fn fills.
func firstReadTarget(fn *ssa.Function) *ssa.Alloc {
	var out *ssa.Alloc
	core.EachInstr(fn, func(in ssa.Instruction) {
		if out != nil {
			return
		}
		if c, ok := in.(*ssa.Call); ok && core.CalleeName(c) == "encoding/binary.Read" {
			if a, ok := core.Strip(core.Arg(c, 2)).(*ssa.Alloc); ok {
				out = a
			}
		}
	})
	return out
}

// checkBundleIDLen: Len() agrees with what MarshalCbor writes, and the
// status report decoder sets IsFragment from the array length 6.
func checkBundleIDLen(p *core.Program, r *core.Report) {
	lenFn := p.Func(bp7, "BundleID", "Len")
	enc := p.Func(bp7, "BundleID", "MarshalCbor")
	for _, frag := range []int64{0, 1} {
		bind := func(fn *ssa.Function) *core.PathEnum {
			pe := &core.PathEnum{Fn: fn, Bind: map[ssa.Value]int64{}}
			pe.OnInstr = func(in ssa.Instruction, st *core.PathState) {
				if ld, ok := in.(*ssa.UnOp); ok && ld.Op == token.MUL && pathEndsWith(ld, "IsFragment") {
					st.Env[ld] = frag
				}
				if f, ok := in.(*ssa.Field); ok && pathEndsWith(f, "IsFragment") {
					st.Env[f] = frag
				}
				if c, ok := in.(*ssa.Call); ok {
					n := shortName(core.CalleeName(c))
					if strings.HasPrefix(n, cbor+".Write") || n == cbor+".Marshal" {
						k, _ := st.Data["n"].(int)
						st.Data["n"] = k + 1
					}
				}
			}
			pe.Run()
			return pe
		}
		want := int64(-1)
		pl := bind(lenFn)
		for _, pr := range pl.Paths {
			if k, ok := pr.State.Known(pr.Return.Results[0]); ok {
				want = k
			}
		}
		got := -1
		pm := bind(enc)
		for _, pr := range pm.Paths {
			if pr.ErrOutcome(0) != "nonnil" {
				got, _ = pr.State.Data["n"].(int)
			}
		}
		r.Check(int64(got) == want && want > 0, fmt.Sprintf("announced-length/BundleID/IsFragment=%d", frag), "BundleID.Len() equals the number of elements BundleID.MarshalCbor writes (the status report announces 2+Len() elements)", p.Pos(lenFn.Pos()), fmt.Sprintf("%d", want), fmt.Sprintf("Len()=%d, elements written=%d", want, got))
	}
	sr := p.Func(bp7, "StatusReport", "UnmarshalCbor")
	okF := true
	n := 0
	core.EachInstr(sr, func(in ssa.Instruction) {
		st, ok := in.(*ssa.Store)
		if !ok || !pathEndsWith(st.Addr, "RefBundle", "IsFragment") {
			return
		}
		n++
		want := int64(4)
		if core.IsBoolConst(st.Val, true) {
			want = 6
		}
		g := false
		for _, cd := range core.DominatingConds(st.Block()) {
			if b, ok := cd.V.(*ssa.BinOp); ok && b.Op == token.EQL && cd.True {
				if k, ok := core.ConstInt(b.Y); ok && k == want {
					g = true
				}
			}
		}
		if !g {
			okF = false
		}
	})
	r.Check(okF && n == 2, "announced-length/StatusReport/fragment-from-length", "the status report decoder takes the referenced bundle for a fragment exactly when the array has 6 elements", p.Pos(sr.Pos()), "", "IsFragment is not set from the array length 4/6")
}

// checkSharedAppend: `append(pkgLevelSlice, x...)` copies only if the slice
// has no spare capacity. Encoders that build their output this way (the
// contact header) are used by several sessions concurrently; with spare
// capacity they all write into the one shared backing array. The
// package-level slice must therefore be initialised with exact capacity: a
// composite literal (or a full slice expression).
func checkSharedAppend(p *core.Program, r *core.Report) {
	n := 0
	for _, fn := range p.RepoFuncs() {
		core.EachInstr(fn, func(in ssa.Instruction) {
			c, ok := in.(*ssa.Call)
			if !ok {
				return
			}
			b, ok := c.Common().Value.(*ssa.Builtin)
			if !ok || b.Name() != "append" {
				return
			}
			ld, ok := c.Common().Args[0].(*ssa.UnOp)
			if !ok {
				return
			}
			g, ok := ld.X.(*ssa.Global)
			if !ok || !core.IsRepo(fn) {
				return
			}
			n++
			exact := true
			why := ""
			stores := 0
			scan := append([]*ssa.Function{}, p.RepoFuncs()...)
			if initFn := g.Pkg.Func("init"); initFn != nil {
				scan = append(scan, initFn)
			}
			for _, f2 := range scan {
				core.EachInstr(f2, func(in2 ssa.Instruction) {
					st, ok := in2.(*ssa.Store)
					if !ok || st.Addr != ssa.Value(g) {
						return
					}
					stores++
					sl, isSl := st.Val.(*ssa.Slice)
					if !isSl {
						exact, why = false, "initialised by "+valStr(st.Val)+" at "+p.Pos(st.Pos())+" (capacity may exceed length)"
						return
					}
					if _, isArr := sl.X.(*ssa.Alloc); !isArr || (sl.High != nil && sl.Max == nil) {
						exact, why = false, "initialised by a slice expression without exact capacity at "+p.Pos(st.Pos())
					}
				})
			}
			// the appended result must not be stored back into the global either
			r.Check(exact && stores > 0, "no-shared-append/"+fname(fn)+"/"+g.Name(), "append() on a package-level slice is only safe for concurrent encoders if the slice has no spare capacity (composite literal): otherwise every call writes into the shared backing array and two sessions marshalling at the same time send each other's bytes", p.Pos(c.Pos()), "exact-capacity literal", why)
		})
	}
	r.Min("appends on package-level slices", 1)
	r.Count("appends on package-level slices", n)
}

// checkTextNumberWidth: the numeric components of an endpoint's URI text are
// parsed with the full width of the field that stores them (uint64): every
// value stored into an unsigned 64-bit field of an EndpointType inside a
// function that parses text comes straight from strconv.ParseUint(_, 10, 64).
// A narrower or signed parse (Atoi, ParseInt, bitSize < 64) rejects the upper
// part of the range although such an endpoint is valid, encodes, decodes and
// prints — text and structure would no longer determine each other.
func checkTextNumberWidth(p *core.Program, r *core.Report) {
	n := 0
	rule := "a number taken from URI text into a uint64 endpoint field is parsed by strconv.ParseUint(text, 10, 64): the text form covers exactly the range of the field"
	for _, named := range p.Implementations(bp7, "EndpointType") {
		st, ok := named.Underlying().(*types.Struct)
		if !ok {
			continue
		}
		for _, fn := range p.RepoFuncs() {
			if fn.Pkg != p.Pkg(bp7) {
				continue
			}
			// text parsers: functions with a string parameter
			hasStr := false
			for _, par := range fn.Params {
				if b, ok := par.Type().Underlying().(*types.Basic); ok && b.Kind() == types.String {
					hasStr = true
				}
			}
			if !hasStr {
				continue
			}
			core.EachInstr(fn, func(in ssa.Instruction) {
				stI, ok := in.(*ssa.Store)
				if !ok {
					return
				}
				fa, ok := stI.Addr.(*ssa.FieldAddr)
				if !ok || !types.Identical(derefNamed(fa.X.Type()), named) {
					return
				}
				ft, ok := st.Field(fa.Field).Type().Underlying().(*types.Basic)
				if !ok || ft.Kind() != types.Uint64 {
					return
				}
				n++
				key := fmt.Sprintf("text-number-width/%s/%s.%s", fname(fn), named.Obj().Name(), st.Field(fa.Field).Name())
				v := stI.Val
				why := ""
				for {
					if cv, ok := v.(*ssa.Convert); ok {
						if b, ok := cv.X.Type().Underlying().(*types.Basic); !ok || b.Kind() != types.Uint64 {
							why = "the value is converted from " + cv.X.Type().String() + ", which does not cover the field's range"
							break
						}
						v = cv.X
						continue
					}
					if ct, ok := v.(*ssa.ChangeType); ok {
						v = ct.X
						continue
					}
					break
				}
				okP := false
				if why == "" {
					// all reaching definitions (the variable may be a phi / named result load)
					okP = core.DependsOn(v, func(x ssa.Value) bool {
						ex, ok := x.(*ssa.Extract)
						if !ok || ex.Index != 0 {
							return false
						}
						c, ok := ex.Tuple.(*ssa.Call)
						if !ok || core.CalleeName(c) != "strconv.ParseUint" {
							return false
						}
						base, _ := core.ConstInt(core.Arg(c, 1))
						bits, _ := core.ConstInt(core.Arg(c, 2))
						return base == 10 && bits == 64
					}) && !core.DependsOn(v, func(x ssa.Value) bool {
						c, ok := x.(*ssa.Call)
						if !ok {
							return false
						}
						cn := core.CalleeName(c)
						if !strings.HasPrefix(cn, "strconv.") {
							return false
						}
						if cn == "strconv.ParseUint" {
							base, _ := core.ConstInt(core.Arg(c, 1))
							bits, _ := core.ConstInt(core.Arg(c, 2))
							return !(base == 10 && bits == 64)
						}
						return true
					})
					if !okP {
						why = "the value does not come from strconv.ParseUint(_, 10, 64) only"
					}
				}
				r.Check(okP, key, rule, p.Pos(stI.Pos()), "", why)
			})
		}
	}
	r.Count("uint64 endpoint fields filled from text", n)
	r.Min("uint64 endpoint fields filled from text", 2)
}

func derefNamed(t types.Type) types.Type {
	if pt, ok := t.Underlying().(*types.Pointer); ok {
		return pt.Elem()
	}
	return t
}

// checkEndpointDecoderValidates: the CBOR decoder of an endpoint ID is used for
// every endpoint nested anywhere (primary block, previous node, PRoPHET /
// DTLSR metadata, discovery announcements, status reports). The encoder
// refuses invalid endpoints, so the decoder must refuse them as well —
// otherwise a value is accepted that cannot be encoded again — and the CBOR
// form of dtn:none is the integer 0 and nothing else.
func checkEndpointDecoderValidates(p *core.Program, r *core.Report) {
	un := p.Func(bp7, "EndpointID", "UnmarshalCbor")
	nOK, bad := 0, ""
	for _, rv := range core.ReturnValues(un, 0) {
		if c, isC := rv.V.(*ssa.Const); isC && c.Value == nil {
			bad = "a nil return at " + p.Pos(rv.At.Pos()) + " does not pass EndpointID.CheckValid"
			continue
		}
		if call, isCall := rv.V.(*ssa.Call); isCall && core.NameIs(core.CalleeName(call), bp7+".EndpointID.CheckValid") {
			nOK++
		}
	}
	r.Check(nOK > 0 && bad == "", "endpoint-decoder/"+fname(un)+"/validates", "EndpointID.UnmarshalCbor succeeds only with the verdict of EndpointID.CheckValid (the encoder refuses what CheckValid refuses: an accepted endpoint must be encodable again)", p.Pos(un.Pos()), "", "the decoder can succeed without validation: "+bad)
	// the encoder side of the agreement
	mar := p.Func(bp7, "EndpointID", "MarshalCbor")
	r.Check(len(core.CallsTo(mar, bp7+".EndpointID.CheckValid")) > 0, "endpoint-decoder/"+fname(mar)+"/encoder-validates", "EndpointID.MarshalCbor validates before writing (the premise of the decoder rule)", p.Pos(mar.Pos()), "", "MarshalCbor no longer calls CheckValid")

	dn := p.Func(bp7, "DtnEndpoint", "UnmarshalCbor")
	nNone := 0
	core.EachInstr(dn, func(in ssa.Instruction) {
		st, ok := in.(*ssa.Store)
		if !ok || !core.IsField(st.Addr, bp7, "DtnEndpoint", "IsDtnNone") || !core.IsBoolConst(st.Val, true) {
			return
		}
		nNone++
		okZero := false
		for _, cd := range core.DominatingConds(st.Block()) {
			b, ok := cd.V.(*ssa.BinOp)
			if !ok {
				continue
			}
			ex, isEx := b.X.(*ssa.Extract)
			k, isC := core.ConstInt(b.Y)
			if !isEx || !isC || k != 0 || ex.Index != 1 {
				continue
			}
			if call, ok := ex.Tuple.(*ssa.Call); !ok || !core.NameIs(core.CalleeName(call), cbor+".ReadMajors") {
				continue
			}
			if (b.Op == token.EQL && cd.True) || (b.Op == token.NEQ && !cd.True) {
				okZero = true
			}
		}
		r.Check(okZero, "endpoint-decoder/"+fname(dn)+"/none-is-zero", "the CBOR form of dtn:none is the unsigned integer 0: the decoder sets IsDtnNone only when the value read is 0 (any other integer is not an endpoint; it would re-encode as 0)", p.Pos(st.Pos()), "", "IsDtnNone is set for every unsigned integer")
	})
	r.Count("IsDtnNone=true stores in DtnEndpoint.UnmarshalCbor", nNone)
	r.Min("IsDtnNone=true stores in DtnEndpoint.UnmarshalCbor", 1)
}


// evalConcrete runs a small, pure SSA function on constant arguments:
// comparisons and arithmetic on constants, phis, branches, static calls of
// further such functions, loads/stores of its own local cells. Anything else
// makes it give up (ok=false).
func evalConcrete(fn *ssa.Function, args []constant.Value, depth int) (constant.Value, bool) {
	if fn == nil || fn.Blocks == nil || len(args) != len(fn.Params) || depth > 4 {
		return nil, false
	}
	env := map[ssa.Value]constant.Value{}
	cells := map[ssa.Value]constant.Value{}
	for i, a := range args {
		env[fn.Params[i]] = a
	}
	get := func(v ssa.Value) (constant.Value, bool) {
		if k, ok := v.(*ssa.Const); ok {
			if k.Value == nil {
				return nil, false
			}
			return k.Value, true
		}
		c, ok := env[v]
		return c, ok
	}
	b := fn.Blocks[0]
	var prev *ssa.BasicBlock
	for steps := 0; steps < 20000; steps++ {
		next := (*ssa.BasicBlock)(nil)
		for _, in := range b.Instrs {
			switch x := in.(type) {
			case *ssa.DebugRef:
			case *ssa.Phi:
				for i, pr := range b.Preds {
					if pr == prev {
						if c, ok := get(x.Edges[i]); ok {
							env[x] = c
						}
					}
				}
			case *ssa.BinOp:
				l, ok1 := get(x.X)
				rr, ok2 := get(x.Y)
				if !ok1 || !ok2 {
					continue
				}
				switch x.Op {
				case token.EQL, token.NEQ, token.LSS, token.LEQ, token.GTR, token.GEQ:
					env[x] = constant.MakeBool(constant.Compare(l, x.Op, rr))
				case token.ADD, token.SUB, token.MUL, token.AND, token.OR, token.XOR, token.AND_NOT:
					env[x] = constant.BinaryOp(l, x.Op, rr)
				}
			case *ssa.UnOp:
				if x.Op == token.NOT {
					if c, ok := get(x.X); ok && c.Kind() == constant.Bool {
						env[x] = constant.MakeBool(!constant.BoolVal(c))
					}
				} else if x.Op == token.MUL {
					if c, ok := cells[x.X]; ok {
						env[x] = c
					}
				}
			case *ssa.Alloc:
			case *ssa.Store:
				if _, isAlloc := x.Addr.(*ssa.Alloc); isAlloc {
					if c, ok := get(x.Val); ok {
						cells[x.Addr] = c
					} else {
						delete(cells, x.Addr)
					}
				} else {
					return nil, false
				}
			case *ssa.ChangeType:
				if c, ok := get(x.X); ok {
					env[x] = c
				}
			case *ssa.Convert:
				if c, ok := get(x.X); ok {
					if bt, isB := x.Type().Underlying().(*types.Basic); isB && bt.Info()&types.IsInteger != 0 && c.Kind() == constant.Int {
						env[x] = c
					}
				}
			case *ssa.Call:
				callee := x.Common().StaticCallee()
				if callee == nil || x.Common().IsInvoke() {
					continue
				}
				var as []constant.Value
				all := true
				for _, a := range x.Common().Args {
					c, ok := get(a)
					if !ok {
						all = false
						break
					}
					as = append(as, c)
				}
				if !all {
					continue
				}
				if c, ok := evalConcrete(callee, as, depth+1); ok {
					env[x] = c
				}
			case *ssa.If:
				c, ok := get(x.Cond)
				if !ok || c.Kind() != constant.Bool {
					return nil, false
				}
				if constant.BoolVal(c) {
					next = b.Succs[0]
				} else {
					next = b.Succs[1]
				}
			case *ssa.Jump:
				next = b.Succs[0]
			case *ssa.Return:
				if len(x.Results) != 1 {
					return nil, false
				}
				return get(x.Results[0])
			default:
				if _, isVal := in.(ssa.Value); !isVal {
					return nil, false // an effect this evaluator does not model
				}
			}
		}
		if next == nil {
			return nil, false
		}
		prev, b = b, next
	}
	return nil, false
}
