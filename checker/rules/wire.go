package rules

import (
	"fmt"
	"go/token"
	"go/types"
	"sort"
	"strings"

	"dtnverif/core"

	"golang.org/x/tools/go/ssa"
)

// wireTok is one primitive wire operation on a codec's success path.
type wireTok struct {
	Kind  string // A(n) M U B T F64 Bool Raw(k) Sub(T) Dyn Blk Bin(T) Bytes Maj
	Field string // receiver field moved by the operation, "" if unknown / derived
	val   ssa.Value
	at    int // number of branch outcomes recorded when the token was emitted
}

func (t wireTok) String() string { return t.Kind }

type wirePath struct {
	Toks []wireTok
	Key  string
}

func (wp wirePath) kinds() string {
	var s []string
	for _, t := range wp.Toks {
		s = append(s, t.Kind)
	}
	return strings.Join(s, " ")
}

// purePredicates are receiver predicates whose repeated calls agree; the
// codec enumeration fixes a valuation for them.
var purePredicates = []string{
	bp7 + ".PrimaryBlock.HasCRC", bp7 + ".PrimaryBlock.HasFragmentation", bp7 + ".CanonicalBlock.HasCRC",
	bp7 + ".BundleID.Len",
}

// predicateValues lists the values a pure predicate can take (default 0/1).
var predicateValues = map[string][]int64{
	bp7 + ".BundleID.Len": {2, 4},
}

type wireSide int

const (
	encSide wireSide = iota
	decSide
)

// ioParam returns the io.Writer / io.Reader parameter of a codec function.
func ioParam(fn *ssa.Function, side wireSide) *ssa.Parameter {
	want := "Writer"
	if side == decSide {
		want = "Reader"
	}
	for _, par := range fn.Params {
		if n, ok := par.Type().(*types.Named); ok && n.Obj().Pkg() != nil && n.Obj().Pkg().Path() == "io" && n.Obj().Name() == want {
			return par
		}
	}
	return nil
}

// streamIs: v is the codec's own stream: the parameter, a MultiWriter /
// TeeReader built from it, or a phi of those.
func streamIs(v ssa.Value, par *ssa.Parameter, st *core.PathState, depth int) bool {
	if depth > 6 || v == nil {
		return false
	}
	v = st.Resolve(v)
	if v == ssa.Value(par) {
		return true
	}
	switch x := v.(type) {
	case *ssa.Call:
		switch core.CalleeName(x) {
		case "io.TeeReader":
			return streamIs(core.Arg(x, 0), par, st, depth+1)
		case "io.MultiWriter":
			// varargs array: any element is the parameter
			if sl, ok := core.Arg(x, 0).(*ssa.Slice); ok {
				if a, ok := sl.X.(*ssa.Alloc); ok {
					for _, ref := range *a.Referrers() {
						if ia, ok := ref.(*ssa.IndexAddr); ok {
							for _, rr := range *ia.Referrers() {
								if s, ok := rr.(*ssa.Store); ok && streamIs(s.Val, par, st, depth+1) {
									return true
								}
							}
						}
					}
				}
			}
		case "bufio.NewReader", "bufio.NewWriter":
			return streamIs(core.Arg(x, 0), par, st, depth+1)
		}
	case *ssa.MakeInterface:
		return streamIs(x.X, par, st, depth+1)
	case *ssa.ChangeInterface:
		return streamIs(x.X, par, st, depth+1)
	case *ssa.Phi:
		for _, e := range x.Edges {
			if streamIs(e, par, st, depth+1) {
				return true
			}
		}
	case *ssa.UnOp:
		// `*t0` where t0 holds the parameter (captured/spilled)
		if x.Op == token.MUL {
			if a, ok := x.X.(*ssa.Alloc); ok {
				for _, ref := range *a.Referrers() {
					if s, ok := ref.(*ssa.Store); ok && s.Addr == ssa.Value(a) && streamIs(s.Val, par, st, depth+1) {
						return true
					}
				}
			}
		}
	}
	return false
}

// fieldTag names the receiver field behind v (value or address), resolving
// literal-array elements with a known index.
func fieldTag(v ssa.Value, st *core.PathState, depth int) string {
	if depth > 8 || v == nil {
		return ""
	}
	switch x := v.(type) {
	case *ssa.Convert:
		return fieldTag(x.X, st, depth+1)
	case *ssa.ChangeType:
		return fieldTag(x.X, st, depth+1)
	case *ssa.MakeInterface:
		return fieldTag(x.X, st, depth+1)
	case *ssa.Phi:
		return fieldTag(st.Resolve(x), st, depth+1)
	case *ssa.UnOp:
		if x.Op == token.MUL {
			if ia, ok := x.X.(*ssa.IndexAddr); ok {
				if ev, ok := st.ArrayElem(ia); ok {
					return fieldTag(ev, st, depth+1)
				}
				// element of an array-typed receiver: ct[i]
				if k, ok := st.Known(ia.Index); ok {
					return fmt.Sprintf("[%d]", k)
				}
				return ""
			}
			return fieldTag(x.X, st, depth+1)
		}
	case *ssa.FieldAddr:
		_, path, ok := core.FieldRef(x)
		if ok {
			return strings.Join(path, ".")
		}
	case *ssa.Field:
		_, path, ok := core.FieldRef(x)
		if ok {
			return strings.Join(path, ".")
		}
	case *ssa.IndexAddr:
		if ev, ok := st.ArrayElem(x); ok {
			return fieldTag(ev, st, depth+1)
		}
		if k, ok := st.Known(x.Index); ok {
			return fmt.Sprintf("[%d]", k)
		}
	case *ssa.Call:
		if r := core.CallRecv(x); r != nil {
			if o := core.CalleeObj(x); o != nil {
				return o.Name() + "()"
			}
		}
	}
	return ""
}

func subTypeName(v ssa.Value) string {
	v = core.Strip(v)
	t := v.Type()
	if p, ok := t.(*types.Pointer); ok {
		t = p.Elem()
	}
	if n, ok := t.(*types.Named); ok {
		if _, isI := n.Underlying().(*types.Interface); isI {
			return "dyn:" + n.Obj().Name()
		}
		return n.Obj().Name()
	}
	return "?"
}

// tokenize enumerates the success paths of a codec function and abstracts
// each into its sequence of wire operations on the function's own stream.
type tokenizer struct {
	p     *core.Program
	fn    *ssa.Function
	side  wireSide
	bind  map[ssa.Value]int64
	preds map[string]int64 // valuation of pure predicates
	errIx int
	depth int // helper inlining depth
}

func (tk *tokenizer) run() ([]wirePath, bool) {
	par := ioParam(tk.fn, tk.side)
	sig := tk.fn.Signature
	tk.errIx = sig.Results().Len() - 1
	pe := &core.PathEnum{Fn: tk.fn, Bind: tk.bind, MaxUnknownVisits: 2}
	pe.EvalCall = func(c *ssa.Call, st *core.PathState) (int64, bool) {
		n := core.CalleeName(c)
		for name, v := range tk.preds {
			if core.NameIs(n, name) {
				return v, true
			}
		}
		return 0, false
	}
	toks := func(st *core.PathState) []wireTok {
		t, _ := st.Data["toks"].([]wireTok)
		return t
	}
	add := func(st *core.PathState, t wireTok) {
		old := toks(st)
		n := make([]wireTok, len(old), len(old)+1)
		copy(n, old)
		t.at = len(st.Taken)
		st.Data["toks"] = append(n, t)
	}
	pe.OnInstr = func(in ssa.Instruction, st *core.PathState) {
		switch x := in.(type) {
		case *ssa.Store:
			if tk.side != decSide {
				return
			}
			// a store of the most recent read's value into a receiver field names that token
			ts := toks(st)
			if len(ts) == 0 {
				return
			}
			last := ts[len(ts)-1]
			if last.val == nil || last.Field != "" {
				return
			}
			src := core.Strip(x.Val)
			if ex, ok := src.(*ssa.Extract); ok && ex.Tuple == last.val && ex.Index == 0 {
				tag := fieldTag(x.Addr, st, 0)
				if tag != "" {
					n := make([]wireTok, len(ts))
					copy(n, ts)
					n[len(n)-1].Field = tag
					st.Data["toks"] = n
				}
			}
		case *ssa.Call:
			name := shortName(core.CalleeName(x))
			args := core.CallArgs(x)
			cc := x.Common()
			// dynamic dispatch to an embedded codec
			if cc.IsInvoke() && (cc.Method.Name() == "MarshalCbor" || cc.Method.Name() == "UnmarshalCbor") {
				if par != nil && len(cc.Args) == 1 && streamIs(cc.Args[0], par, st, 0) {
					add(st, wireTok{Kind: "Dyn(" + subTypeName(cc.Value) + ")", Field: fieldTag(cc.Value, st, 0)})
				}
				return
			}
			if cc.IsInvoke() && cc.Method.Name() == "Write" && tk.side == encSide && par != nil && streamIs(cc.Value, par, st, 0) {
				add(st, wireTok{Kind: rawToken(cc.Args[0], st), Field: fieldTag(cc.Args[0], st, 0), val: cc.Args[0]})
				return
			}
			if name == "reflect.Value.Call" && tk.side == decSide {
				add(st, wireTok{Kind: "Dyn(dyn:EndpointType)"})
				return
			}
			// a small helper of the repository that is handed this codec's stream (e.g. checkCRCField): its own,
			// single success grammar is spliced in
			if cal := cc.StaticCallee(); cal != nil && core.IsRepo(cal) && cal.Blocks != nil && tk.p != nil && par != nil && cal != tk.fn && tk.depth < 2 {
				if hp := ioParam(cal, tk.side); hp != nil {
					for i, a := range cc.Args {
						if i < len(cal.Params) && cal.Params[i] == hp && streamIs(a, par, st, 0) {
							if sub, ok := grammarOfDepth(tk.p, cal, tk.side, tk.depth+1); ok && len(sub) == 1 {
								for _, t := range sub[0].Toks {
									add(st, wireTok{Kind: t.Kind})
								}
							} else {
								add(st, wireTok{Kind: "Helper(" + cal.Name() + ":?)"})
							}
							return
						}
					}
				}
			}
			if !strings.HasPrefix(name, cbor+".") && name != "pkg/bpv7.ExtensionBlockManager.WriteBlock" && name != "pkg/bpv7.ExtensionBlockManager.ReadBlock" &&
				name != "encoding/binary.Write" && name != "encoding/binary.Read" && name != "io.ReadFull" && name != "io.WriteString" {
				return
			}
			if len(args) == 0 {
				return
			}
			var stream ssa.Value
			switch name {
			case "encoding/binary.Write", "encoding/binary.Read", "io.ReadFull", "io.WriteString":
				stream = args[0]
			default:
				stream = args[len(args)-1]
			}
			if par == nil || !streamIs(stream, par, st, 0) {
				return
			}
			prim := strings.TrimPrefix(name, cbor+".")
			switch prim {
			case "WriteArrayLength", "WriteMapPairLength":
				k := "?"
				if v, ok := st.Known(args[0]); ok {
					k = fmt.Sprint(v)
				}
				kind := "A"
				if prim == "WriteMapPairLength" {
					kind = "M"
				}
				add(st, wireTok{Kind: kind + "(" + k + ")"})
			case "ReadArrayLength", "ReadMapPairLength":
				kind := "A"
				if prim == "ReadMapPairLength" {
					kind = "M"
				}
				add(st, wireTok{Kind: kind + "(@)", val: x})
			case "WriteUInt":
				add(st, wireTok{Kind: "U", Field: fieldTag(args[0], st, 0)})
			case "ReadUInt":
				add(st, wireTok{Kind: "U", val: x})
			case "WriteByteString":
				add(st, wireTok{Kind: "B", Field: fieldTag(args[0], st, 0)})
			case "ReadByteString":
				add(st, wireTok{Kind: "B", val: x})
			case "WriteTextString":
				add(st, wireTok{Kind: "T", Field: fieldTag(args[0], st, 0)})
			case "ReadTextString":
				add(st, wireTok{Kind: "T", val: x})
			case "WriteFloat64":
				add(st, wireTok{Kind: "F64", Field: fieldTag(args[0], st, 0)})
			case "ReadFloat64":
				add(st, wireTok{Kind: "F64", val: x})
			case "WriteFloat32":
				add(st, wireTok{Kind: "F32", Field: fieldTag(args[0], st, 0)})
			case "ReadFloat32":
				add(st, wireTok{Kind: "F32", val: x})
			case "WriteBoolean":
				add(st, wireTok{Kind: "Bool", Field: fieldTag(args[0], st, 0)})
			case "ReadBoolean":
				add(st, wireTok{Kind: "Bool", val: x})
			case "WriteByteStringLen":
				add(st, wireTok{Kind: "Bh"})
			case "ReadByteStringLen":
				add(st, wireTok{Kind: "Bh", val: x})
			case "WriteTextStringLen":
				add(st, wireTok{Kind: "Th"})
			case "ReadTextStringLen":
				add(st, wireTok{Kind: "Th", val: x})
			case "ReadExpect":
				k := "?"
				if v, ok := st.Known(args[0]); ok {
					k = fmt.Sprintf("%#x", v)
				}
				add(st, wireTok{Kind: "Raw(" + k + ")"})
			case "ReadMajors":
				add(st, wireTok{Kind: "Maj", val: x})
			case "ReadRawBytes":
				add(st, wireTok{Kind: "Bytes", val: x})
			case "Marshal", "Unmarshal":
				add(st, wireTok{Kind: "Sub(" + subTypeName(args[0]) + ")", Field: fieldTag(args[0], st, 0), val: x})
			default:
				switch name {
				case "pkg/bpv7.ExtensionBlockManager.WriteBlock":
					add(st, wireTok{Kind: "Blk", Field: fieldTag(args[0], st, 0)})
				case "pkg/bpv7.ExtensionBlockManager.ReadBlock":
					add(st, wireTok{Kind: "Blk", val: x})
				case "encoding/binary.Write":
					v := resolveElem(args[2], st)
					add(st, wireTok{Kind: "Bin(" + binTypeName(v) + ")", Field: fieldTag(args[2], st, 0), val: v})
				case "encoding/binary.Read":
					v := resolveElem(args[2], st)
					add(st, wireTok{Kind: "Bin(" + binTypeName(v) + ")", Field: fieldTag(args[2], st, 0), val: v})
				case "io.ReadFull":
					add(st, wireTok{Kind: "Bytes", Field: fieldTag(args[1], st, 0), val: args[1]})
				case "io.WriteString":
					add(st, wireTok{Kind: "Bytes", Field: fieldTag(args[1], st, 0), val: args[1]})
				}
			}
		}
	}
	pe.Run()
	if pe.Trunc {
		return nil, false
	}
	var out []wirePath
	seen := map[string]bool{}
	for _, pr := range pe.Paths {
		if pr.Panics || pr.ErrOutcome(tk.errIx) == "nonnil" {
			continue
		}
		ts := toks(pr.State)
		// resolve lengths read from the wire from the equalities taken on the path, majors likewise
		res := make([]wireTok, 0, len(ts))
		for ti, t := range ts {
			hi := len(pr.State.Taken)
			if ti+1 < len(ts) {
				hi = ts[ti+1].at
			}
			window := pr.State.Taken[t.at:hi]
			if strings.HasSuffix(t.Kind, "(@)") {
				k := "?"
				if v, ok := pr.State.Known(extractOf(t.val, 0, tk.fn)); ok {
					k = fmt.Sprint(v)
				} else if v, ok := equalityOnPath(pr.State, t.val); ok {
					k = fmt.Sprint(v)
				}
				t.Kind = strings.TrimSuffix(t.Kind, "(@)") + "(" + k + ")"
			}
			if strings.HasPrefix(t.Kind, "Sub(") && t.val != nil && brokeOnBreakCode(window, t.val) {
				t.Kind, t.Field = "Raw(0xff)", ""
			}
			if t.Kind == "Maj" {
				if v, ok := equalityOnPath(pr.State, t.val); ok {
					switch v {
					case 0x00:
						t.Kind = "U"
					case 0x40:
						t.Kind = "Bh"
					case 0x60:
						t.Kind = "Th"
					case 0x80:
						t.Kind = "A(?)"
					default:
						t.Kind = fmt.Sprintf("Maj(%#x)", v)
					}
				}
			}
			res = append(res, t)
		}
		// Th + Bytes = T, Bh + Bytes = B
		var merged []wireTok
		for i := 0; i < len(res); i++ {
			if i+1 < len(res) && res[i+1].Kind == "Bytes" && (res[i].Kind == "Th" || res[i].Kind == "Bh") {
				k := "T"
				if res[i].Kind == "Bh" {
					k = "B"
				}
				merged = append(merged, wireTok{Kind: k, Field: res[i+1].Field})
				i++
				continue
			}
			merged = append(merged, res[i])
		}
		wp := wirePath{Toks: merged}
		k := wp.kinds()
		if !seen[k] {
			seen[k] = true
			out = append(out, wp)
		}
	}
	sort.Slice(out, func(i, j int) bool { return out[i].kinds() < out[j].kinds() })
	return out, true
}

func binTypeName(v ssa.Value) string {
	for {
		if mi, ok := v.(*ssa.MakeInterface); ok {
			v = mi.X
			continue
		}
		if ci, ok := v.(*ssa.ChangeInterface); ok {
			v = ci.X
			continue
		}
		break
	}
	t := v.Type()
	if p, ok := t.(*types.Pointer); ok {
		t = p.Elem()
	}
	return types.TypeString(t.Underlying(), func(p *types.Package) string { return p.Name() })
}

func rawToken(v ssa.Value, st *core.PathState) string {
	// w.Write([]byte{k}) : slice of a literal array
	if sl, ok := v.(*ssa.Slice); ok {
		if a, ok := sl.X.(*ssa.Alloc); ok {
			if n, ok := allocArrayLen(a); ok && n == 1 {
				for _, ref := range *a.Referrers() {
					if ia, ok := ref.(*ssa.IndexAddr); ok {
						for _, rr := range *ia.Referrers() {
							if s, ok := rr.(*ssa.Store); ok {
								if k, ok := st.Known(s.Val); ok {
									return fmt.Sprintf("Raw(%#x)", k)
								}
							}
						}
					}
				}
			}
		}
	}
	return "Bytes"
}

// extractOf finds the Extract #idx of a tuple call.
func extractOf(call ssa.Value, idx int, fn *ssa.Function) ssa.Value {
	if call == nil || call.Referrers() == nil {
		return call
	}
	for _, ref := range *call.Referrers() {
		if ex, ok := ref.(*ssa.Extract); ok && ex.Index == idx {
			return ex
		}
	}
	return call
}

// equalityOnPath looks for `extract#0(call) == k` taken true or `!= k` taken false.
func equalityOnPath(st *core.PathState, call ssa.Value) (int64, bool) {
	for _, c := range st.Taken {
		b, ok := c.V.(*ssa.BinOp)
		if !ok {
			continue
		}
		ex, ok := core.Strip(b.X).(*ssa.Extract)
		if !ok || ex.Tuple != call || ex.Index != 0 {
			continue
		}
		k, isC := core.ConstInt(b.Y)
		if !isC {
			continue
		}
		if (b.Op == token.EQL && c.True) || (b.Op == token.NEQ && !c.True) {
			return k, true
		}
	}
	return 0, false
}

// firstLengthRead returns the extract #0 of the first Read{Array,MapPair}Length
// on the function's own stream (used to bind the admissible lengths).
func firstLengthRead(fn *ssa.Function) ssa.Value {
	var found ssa.Value
	core.EachInstr(fn, func(in ssa.Instruction) {
		if found != nil {
			return
		}
		if ex, ok := in.(*ssa.Extract); ok && ex.Index == 0 {
			if c, ok := ex.Tuple.(*ssa.Call); ok && core.NameIs(core.CalleeName(c), cbor+".ReadArrayLength") {
				found = ex
			}
		}
	})
	return found
}

// grammarOf computes the set of success paths of a codec function over all
// valuations of the pure predicates it consults and, for decoders, over all
// candidate values 0..16 of the first array length.
func grammarOf(p *core.Program, fn *ssa.Function, side wireSide) ([]wirePath, bool) {
	return grammarOfDepth(p, fn, side, 0)
}

func grammarOfDepth(p *core.Program, fn *ssa.Function, side wireSide, depth int) ([]wirePath, bool) {
	var usedPreds []string
	for _, name := range purePredicates {
		if len(core.CallsToDeep(fn, name)) > 0 {
			usedPreds = append(usedPreds, name)
		}
	}
	var all []wirePath
	seen := map[string]bool{}
	for mask := 0; mask < 1<<uint(len(usedPreds)); mask++ {
		preds := map[string]int64{}
		for i, n := range usedPreds {
			bit := (mask >> uint(i)) & 1
			if vals, ok := predicateValues[n]; ok {
				preds[n] = vals[bit]
			} else {
				preds[n] = int64(bit)
			}
		}
		var binds []map[ssa.Value]int64
		if side == decSide {
			if lv := firstLengthRead(fn); lv != nil {
				for n := int64(0); n <= 16; n++ {
					binds = append(binds, map[ssa.Value]int64{lv: n})
				}
			}
		}
		if len(binds) == 0 {
			binds = []map[ssa.Value]int64{{}}
		}
		for _, b := range binds {
			tk := &tokenizer{p: p, fn: fn, side: side, bind: b, preds: preds, depth: depth}
			paths, ok := tk.run()
			if !ok {
				return nil, false
			}
			for _, wp := range paths {
				k := wp.kinds()
				if !seen[k] {
					seen[k] = true
					all = append(all, wp)
				}
			}
		}
	}
	sort.Slice(all, func(i, j int) bool { return all[i].kinds() < all[j].kinds() })
	return all, true
}

// compareGrammars checks that encoder and decoder accept/produce the same
// token strings, that announced lengths equal the number of elements that
// follow at top level, and that fields agree where both sides name one.
func compareGrammars(enc, dec []wirePath, derived map[string]bool) (ok bool, detail string) {
	es, ds := map[string]wirePath{}, map[string]wirePath{}
	for _, w := range enc {
		es[w.kinds()] = w
	}
	for _, w := range dec {
		ds[w.kinds()] = w
	}
	var problems []string
	for k := range es {
		if _, ok := ds[k]; !ok {
			problems = append(problems, "encoder writes ["+k+"] which no decoder path reads")
		}
	}
	for k := range ds {
		if _, ok := es[k]; !ok {
			problems = append(problems, "decoder accepts ["+k+"] which the encoder never writes")
		}
	}
	for k, e := range es {
		d, ok := ds[k]
		if !ok {
			continue
		}
		for i := range e.Toks {
			ef, df := e.Toks[i].Field, d.Toks[i].Field
			if ef == "" || df == "" || strings.HasSuffix(ef, "()") || derived[ef] || derived[df] {
				continue
			}
			if lastSeg(ef) != lastSeg(df) {
				problems = append(problems, fmt.Sprintf("element %d of [%s]: encoder writes field %s, decoder stores into %s", i, k, ef, df))
			}
		}
	}
	sort.Strings(problems)
	return len(problems) == 0, strings.Join(problems, "; ")
}

func lastSeg(s string) string {
	if i := strings.LastIndex(s, "."); i >= 0 {
		return s[i+1:]
	}
	return s
}

// topLevelCount checks "A(n) followed by exactly n elements" for a path whose
// first token is an array header with known n.
func topLevelCountOK(wp wirePath) (bool, string) {
	if len(wp.Toks) == 0 || !strings.HasPrefix(wp.Toks[0].Kind, "A(") {
		return true, ""
	}
	var n int
	if _, err := fmt.Sscanf(wp.Toks[0].Kind, "A(%d)", &n); err != nil {
		return true, ""
	}
	if n != len(wp.Toks)-1 {
		return false, fmt.Sprintf("array header announces %d elements but %d follow in [%s]", n, len(wp.Toks)-1, wp.kinds())
	}
	return true, ""
}

func grammarString(g []wirePath) string {
	var s []string
	for _, w := range g {
		var ts []string
		for _, t := range w.Toks {
			if t.Field != "" {
				ts = append(ts, t.Kind+":"+t.Field)
			} else {
				ts = append(ts, t.Kind)
			}
		}
		s = append(s, "["+strings.Join(ts, " ")+"]")
	}
	return strings.Join(s, " | ")
}

// brokeOnBreakCode: the error of the sub-decoder call was found equal to
// cboring.FlagBreakCode on this path (the break byte ended an indefinite array).
func brokeOnBreakCode(taken []core.Cond, call ssa.Value) bool {
	for _, c := range taken {
		b, ok := c.V.(*ssa.BinOp)
		if !ok || b.Op != token.EQL || !c.True {
			continue
		}
		for _, pair := range [][2]ssa.Value{{b.X, b.Y}, {b.Y, b.X}} {
			if pair[0] != call {
				continue
			}
			if mi, ok := pair[1].(*ssa.MakeInterface); ok {
				if c, ok := mi.X.(*ssa.Const); ok {
					if n, ok := c.Type().(*types.Named); ok && n.Obj().Name() == "Flag" && n.Obj().Pkg() != nil && n.Obj().Pkg().Path() == cbor {
						// the constant must be cboring.FlagBreakCode
						if fc, ok := n.Obj().Pkg().Scope().Lookup("FlagBreakCode").(*types.Const); ok {
							if k, ok2 := core.ConstInt(c); ok2 && fmt.Sprint(k) == fc.Val().String() {
								return true
							}
						}
					}
				}
			}
		}
	}
	return false
}

// resolveElem resolves a value loaded from a literal []interface{} element
// with a known index to the value stored there.
func resolveElem(v ssa.Value, st *core.PathState) ssa.Value {
	if ld, ok := v.(*ssa.UnOp); ok && ld.Op == token.MUL {
		if ia, ok := ld.X.(*ssa.IndexAddr); ok {
			if ev, ok := st.ArrayElem(ia); ok {
				return ev
			}
		}
	}
	return v
}
