package rules

import (
	"fmt"
	"go/constant"
	"go/token"
	"go/types"
	"regexp"
	"regexp/syntax"
	"strings"

	"dtnverif/core"

	"golang.org/x/tools/go/ssa"
)

func init() { Registry["C02"] = C02 }

func isErrProducer(in ssa.Instruction) bool {
	c, ok := in.(*ssa.Call)
	if !ok {
		return false
	}
	switch core.CalleeName(c) {
	case "fmt.Errorf", "errors.New", "github.com/hashicorp/go-multierror.Append":
		return true
	}
	return false
}

// closureOf collects the values a condition depends on, including the
// conditions of the short-circuit diamond behind a phi.
func closureOf(v ssa.Value) []ssa.Value {
	var out []ssa.Value
	seen := map[ssa.Value]bool{}
	var roots []ssa.Value
	roots = append(roots, v)
	for len(roots) > 0 {
		r := roots[0]
		roots = roots[1:]
		core.DependsOn(r, func(x ssa.Value) bool {
			if !seen[x] {
				seen[x] = true
				out = append(out, x)
				for _, cc := range core.ControlConds(x) {
					if !seen[cc] {
						roots = append(roots, cc)
					}
				}
			}
			return false
		})
	}
	return out
}

// guardMentions: fn has an error-producing instruction whose dominating
// conditions (with their dependency closures) satisfy every predicate.
func guardMentions(fn *ssa.Function, preds ...func(ssa.Value) bool) bool {
	found := false
	core.EachInstrDeep(fn, func(f *ssa.Function, in ssa.Instruction) {
		if found || !isErrProducer(in) {
			return
		}
		var vals []ssa.Value
		for _, c := range core.DominatingConds(in.Block()) {
			vals = append(vals, closureOf(c.V)...)
		}
		for _, c := range core.ControlDeps(in.Block()) {
			vals = append(vals, closureOf(c.V)...)
		}
		for _, pr := range preds {
			ok := false
			for _, v := range vals {
				if pr(v) {
					ok = true
					break
				}
			}
			if !ok {
				return
			}
		}
		found = true
	})
	return found
}

func mentionsHas(flagType string, flag int64) func(ssa.Value) bool {
	return func(v ssa.Value) bool {
		c, ok := v.(*ssa.Call)
		if !ok || !core.NameIs(core.CalleeName(c), bp7+"."+flagType+".Has") {
			return false
		}
		k, ok := core.ConstInt(core.Arg(c, 0))
		return ok && k == flag
	}
}

func mentionsCall(name string) func(ssa.Value) bool {
	return func(v ssa.Value) bool {
		c, ok := v.(*ssa.Call)
		return ok && core.NameIs(core.CalleeName(c), name)
	}
}

func mentionsInvoke(method string) func(ssa.Value) bool {
	return func(v ssa.Value) bool {
		c, ok := v.(*ssa.Call)
		return ok && c.Common().IsInvoke() && c.Common().Method.Name() == method
	}
}

func mentionsField(path ...string) func(ssa.Value) bool {
	return func(v ssa.Value) bool { return pathEndsWith(v, path...) }
}

func mentionsConst(k int64) func(ssa.Value) bool {
	return func(v ssa.Value) bool {
		c, ok := core.ConstInt(v)
		_, isConst := v.(*ssa.Const)
		return isConst && ok && c == k
	}
}

// C02 — only well-formed bundles accepted / produced.
func C02(p *core.Program, r *core.Report) {
	r.Explanation = "(VT1) every producer of bundles (parser, NewBundle, builder, fragmentation, reassembly) is path-enumerated: a path that can return a nil error passes Bundle.CheckValid (or NewBundle, itself checked) on the bundle it returns and returns that verdict; the unchecked constructor MustNewBundle has two callers. (VT2) from Bundle.CheckValid the call graph reaches the validator of every component type and of every named type implementing ExtensionBlock / EndpointType, and every validator call's result flows into the caller's returned error. (GC) for each structural rule of the statement an error-producing branch exists whose condition mentions the rule's fields/constants — this catches a deleted rule, not a wrong truth table. Not decided: exact truth tables, regexp semantics of dtn URIs, lifetime at the instant of use."
	r.Assumptions = append(r.Assumptions, "multierror.Append(errs, e) returns a non-nil error when e is non-nil")

	cv := p.Func(bp7, "Bundle", "CheckValid")
	newBundle := p.Func(bp7, "", "NewBundle")
	isValidator := func(c ssa.CallInstruction) bool {
		f := core.Callee(c)
		return f == cv || f == newBundle
	}

	// ---- VT1
	type producer struct {
		fn     *ssa.Function
		errIdx int
	}
	prods := []producer{
		{p.Func(bp7, "Bundle", "UnmarshalCbor"), 0},
		{newBundle, 1},
		{p.Func(bp7, "BundleBuilder", "Build"), 1},
		{p.Func(bp7, "", "ReassembleFragments"), 1},
	}
	for _, pr := range prods {
		key := "must-validate/" + fname(pr.fn)
		rule := "a path on which the producer can return a nil error passes Bundle.CheckValid on the bundle it returns, and returns that verdict"
		pe := &core.PathEnum{Fn: pr.fn, Bind: map[ssa.Value]int64{}}
		pe.OnInstr = func(in ssa.Instruction, st *core.PathState) {
			if c, ok := in.(*ssa.Call); ok && isValidator(c) {
				st.Data["validator"] = c
			}
		}
		pe.Run()
		if pe.Trunc {
			r.Unknown(key, rule, p.Pos(pr.fn.Pos()), "too many paths")
			continue
		}
		nSucc, bad := 0, ""
		for _, path := range pe.Paths {
			if path.Panics || path.ErrOutcome(pr.errIdx) == "nonnil" {
				continue
			}
			nSucc++
			vc, _ := path.State.Data["validator"].(*ssa.Call)
			if vc == nil {
				bad = "a nil-error return at " + p.Pos(path.Return.Pos()) + " is reachable without validation"
				continue
			}
			// the returned error is the validator's verdict
			ret := path.State.Resolve(path.Return.Results[pr.errIdx])
			okV := false
			if ret == ssa.Value(vc) {
				okV = true
			}
			if ex, ok := ret.(*ssa.Extract); ok && ex.Tuple == ssa.Value(vc) {
				okV = true
			}
			for _, c := range path.State.Taken {
				x, isNil, ok := core.NilCmp(c)
				if ok && isNil {
					if x == ssa.Value(vc) {
						okV = true
					}
					if ex, ok := x.(*ssa.Extract); ok && ex.Tuple == ssa.Value(vc) {
						okV = true
					}
				}
			}
			if !okV {
				bad = "the error returned at " + p.Pos(path.Return.Pos()) + " is not the validator's verdict"
			}
		}
		r.Check(bad == "" && nSucc > 0, key, rule, p.Pos(pr.fn.Pos()), fmt.Sprintf("%d path(s), %d can succeed, all validated", len(pe.Paths), nSucc), bad)
	}
	// Fragment: each fragment appended only after CheckValid()==nil on that fragment
	frag := p.Func(bp7, "Bundle", "Fragment")
	nApp := 0
	core.EachInstr(frag, func(in ssa.Instruction) {
		c, ok := in.(*ssa.Call)
		if !ok {
			return
		}
		b, ok := c.Common().Value.(*ssa.Builtin)
		if !ok || b.Name() != "append" {
			return
		}
		sl, ok := c.Type().Underlying().(*types.Slice)
		if !ok || !core.TypeIs(sl.Elem(), bp7, "Bundle") {
			return
		}
		nApp++
		conds := core.DominatingConds(c.Block())
		okV := false
		for _, vcall := range core.CallsTo(frag, bp7+".Bundle.CheckValid") {
			if errNilGuard(conds, vcall.(ssa.Value)) {
				okV = true
			}
		}
		r.Check(okV, "must-validate/"+fname(frag)+"/each-fragment", "a fragment is added to the result only after CheckValid()==nil on it", p.Pos(c.Pos()), "", "append not guarded by CheckValid()==nil; "+condStrings(conds))
	})
	r.Min("fragment appends", 1)
	r.Count("fragment appends", nApp)
	// MustNewBundle callers
	mnb := p.Func(bp7, "", "MustNewBundle")
	allowedMNB := map[string]bool{"pkg/bpv7.NewBundle": true, "pkg/bpv7.Bundle.Fragment": true}
	for _, cs := range allCallSites(p, bp7+".MustNewBundle") {
		r.Check(allowedMNB[fname(cs.Parent())], "must-validate/who-may-call/MustNewBundle/"+fname(cs.Parent()), "the unchecked constructor is used only by producers that validate afterwards", p.Pos(cs.Pos()), "", "MustNewBundle called from a function that is not a validating producer")
	}
	_ = mnb
	// ParseBundle / WriteBundle go through the codec
	pb := p.Func(bp7, "", "ParseBundle")
	okPB := false
	for _, c := range core.CallsTo(pb, cbor+".Unmarshal") {
		if core.TypeIs(core.Strip(core.Arg(c, 0)).Type(), bp7, "Bundle") {
			okPB = true
		}
	}
	r.Check(okPB, "must-validate/"+fname(pb), "ParseBundle decodes through Bundle.UnmarshalCbor (which validates)", p.Pos(pb.Pos()), "", "ParseBundle no longer calls cboring.Unmarshal(&bundle)")

	// ---- VT2 reachability
	reach := p.Reachable([]*ssa.Function{cv}, core.IsRepo)
	need := []*ssa.Function{
		p.Func(bp7, "PrimaryBlock", "CheckValid"), p.Func(bp7, "CanonicalBlock", "CheckValid"),
		p.Func(bp7, "BundleControlFlags", "CheckValid"), p.Func(bp7, "BlockControlFlags", "CheckValid"),
		p.Func(bp7, "EndpointID", "CheckValid"), p.Func(bp7, "Bundle", "IsLifetimeExceeded"),
	}
	for _, iface := range []string{"ExtensionBlock", "EndpointType"} {
		impls := p.Implementations(bp7, iface)
		r.Count("implementations of "+iface, len(impls))
		for _, n := range impls {
			if n.Obj().Pkg() == nil || !core.NameIs(n.Obj().Pkg().Path(), bp7) {
				continue
			}
			if f := p.MethodOf(n, "CheckValid"); f != nil {
				need = append(need, f)
			}
		}
	}
	r.Min("implementations of ExtensionBlock", 9)
	r.Min("implementations of EndpointType", 2)
	for _, f := range need {
		r.Check(reach[f], "validation-tree/reaches/"+fname(f), "Bundle.CheckValid reaches the validator of every component (every block type and endpoint scheme of the program)", p.Pos(f.Pos()), "", "not reachable from Bundle.CheckValid")
	}
	// results flow into the returned error
	nCalls := 0
	for _, f := range need[:5] {
		checkValidatorResults(p, r, f, &nCalls)
	}
	checkValidatorResults(p, r, cv, &nCalls)
	checkValidatorResults(p, r, p.Func(bp7, "HopCountBlock", "CheckValid"), &nCalls)
	r.Min("validator calls whose result must be used", 10)
	r.Count("validator calls whose result must be used", nCalls)
	// three endpoint IDs
	pcv := p.Func(bp7, "PrimaryBlock", "CheckValid")
	seenE := map[string]bool{}
	for _, c := range core.CallsTo(pcv, bp7+".EndpointID.CheckValid") {
		_, path, _ := core.FieldRef(core.CallRecv(c))
		if len(path) > 0 {
			seenE[path[len(path)-1]] = true
		}
	}
	for _, f := range []string{"Destination", "SourceNode", "ReportTo"} {
		r.Check(seenE[f], "validation-tree/"+fname(pcv)+"/"+f, "the primary block validates its three endpoint IDs", p.Pos(pcv.Pos()), "", f+" is not validated")
	}

	// ---- GC: rule guards exist
	c := func(n string) int64 { return constVal(p, bp7, n) }
	bcfCV := p.Func(bp7, "BundleControlFlags", "CheckValid")
	ccv := p.Func(bp7, "CanonicalBlock", "CheckValid")
	type guard struct {
		name  string
		fn    *ssa.Function
		preds []func(ssa.Value) bool
	}
	req4 := []func(ssa.Value) bool{
		mentionsHas("BundleControlFlags", c("StatusRequestReception")), mentionsHas("BundleControlFlags", c("StatusRequestForward")),
		mentionsHas("BundleControlFlags", c("StatusRequestDelivery")), mentionsHas("BundleControlFlags", c("StatusRequestDeletion")),
	}
	guards := []guard{
		{"version-7", pcv, []func(ssa.Value) bool{mentionsField("Version"), mentionsConst(7)}},
		{"fragment-vs-must-not-fragment", bcfCV, []func(ssa.Value) bool{mentionsHas("BundleControlFlags", c("IsFragment")), mentionsHas("BundleControlFlags", c("MustNotFragmented"))}},
		{"admin-record-without-report-requests", bcfCV, append([]func(ssa.Value) bool{mentionsHas("BundleControlFlags", c("AdministrativeRecordPayload"))}, req4...)},
		{"anonymous-source-implications", pcv, append([]func(ssa.Value) bool{mentionsCall(bp7 + ".DtnNone"), mentionsHas("BundleControlFlags", c("MustNotFragmented"))}, req4...)},
		{"no-report-requesting-block-under-admin-or-anonymous", cv, []func(ssa.Value) bool{mentionsHas("BlockControlFlags", c("StatusReportBlock"))}},
		{"unique-block-numbers", cv, []func(ssa.Value) bool{func(v ssa.Value) bool {
			l, ok := v.(*ssa.Lookup)
			return ok && pathEndsWith(l.Index, "BlockNumber")
		}}},
		{"one-block-per-type", cv, []func(ssa.Value) bool{func(v ssa.Value) bool {
			l, ok := v.(*ssa.Lookup)
			if !ok {
				return false
			}
			ic, ok := l.Index.(*ssa.Call)
			return ok && isTypeCodeCall(ic)
		}}},
		{"payload-block-last", cv, payloadLastPreds(c("ExtBlockTypePayloadBlock"))},
		{"payload-block-number-1", ccv, []func(ssa.Value) bool{mentionsTypeCode, mentionsField("BlockNumber"), mentionsConst(1)}},
		{"zero-time-needs-age-block", cv, []func(ssa.Value) bool{mentionsCall(bp7 + ".CreationTimestamp.IsZeroTime"), func(v ssa.Value) bool {
			cc, ok := v.(*ssa.Call)
			if !ok || !core.NameIs(core.CalleeName(cc), bp7+".Bundle.ExtensionBlock") {
				return false
			}
			k, _ := core.ConstInt(core.Arg(cc, 0))
			return k == c("ExtBlockTypeBundleAgeBlock")
		}}},
		{"lifetime-not-exceeded", cv, []func(ssa.Value) bool{mentionsCall(bp7 + ".Bundle.IsLifetimeExceeded")}},
		{"at-least-one-block", cv, []func(ssa.Value) bool{func(v ssa.Value) bool {
			cc, ok := v.(*ssa.Call)
			if !ok {
				return false
			}
			b, ok := cc.Common().Value.(*ssa.Builtin)
			return ok && b.Name() == "len" && pathEndsWith(cc.Common().Args[0], "CanonicalBlocks")
		}}},
		{"hop-count-not-above-limit", p.Func(bp7, "HopCountBlock", "CheckValid"), []func(ssa.Value) bool{mentionsCall(bp7 + ".HopCountBlock.IsExceeded")}},
		{"ipn-components-at-least-1", p.Func(bp7, "IpnEndpoint", "CheckValid"), []func(ssa.Value) bool{mentionsField("Node"), mentionsField("Service"), mentionsConst(1)}},
		{"dtn-uri-grammar", p.Func(bp7, "DtnEndpoint", "CheckValid"), []func(ssa.Value) bool{mentionsCall("regexp.Regexp.MatchString")}},
	}
	for _, g := range guards {
		r.Check(guardMentions(g.fn, g.preds...), "rule-guard/"+fname(g.fn)+"/"+g.name, "the validator contains an error-producing branch whose condition mentions the fields/constants of this structural rule (a deleted rule is caught; a wrong connective is not)", p.Pos(g.fn.Pos()), "", "no error branch guarded by a condition mentioning the rule's operands")
	}
	// block numbers are unique INCLUDING the primary block's implicit number 0: the set of seen numbers starts with 0
	// (or a branch rejects a canonical block numbered 0)
	okZero := false
	for _, f := range []*ssa.Function{cv, ccv} {
		core.EachInstr(f, func(in ssa.Instruction) {
			if b, ok := in.(*ssa.BinOp); ok && (b.Op == token.EQL || b.Op == token.NEQ) && pathEndsWith(b.X, "BlockNumber") {
				if k, isC := core.ConstInt(b.Y); isC && k == 0 {
					okZero = true
				}
			}
		})
	}
	core.EachInstr(cv, func(in ssa.Instruction) {
		mu, ok := in.(*ssa.MapUpdate)
		if !ok {
			return
		}
		k, isC := core.ConstInt(mu.Key)
		if !isC || k != 0 {
			return
		}
		// the same map is the one the number test looks into
		for _, ref := range *mu.Map.Referrers() {
			if lk, isLk := ref.(*ssa.Lookup); isLk && pathEndsWith(lk.Index, "BlockNumber") {
				okZero = true
			}
		}
	})
	r.Check(okZero, "rule-guard/"+fname(cv)+"/number-0-is-the-primary-block", "the uniqueness test of block numbers counts the primary block's number 0 as taken", p.Pos(cv.Pos()), "", "a canonical block numbered 0 passes the validator: two blocks of the bundle share a number")
	r.Count("rule guards", len(guards))
	r.Min("rule guards", 15)
	checkEndpointRegexps(p, r)
	checkFreeNumberSearch(p, r)
	checkBreakOnlyAtBlockBoundary(p, r)
	// a bundle handed out by the builder does not share its block list with the builder (which may be used again:
	// a further block added to the builder would be sorted into the earlier bundle's backing array)
	bb := p.Func(bp7, "BundleBuilder", "Build")
	for _, nb := range core.CallsTo(bb, bp7+".NewBundle") {
		blocks := core.Arg(nb, 1)
		aliased := sharesBacking(blocks, func(v ssa.Value) bool {
			u, ok := v.(*ssa.UnOp)
			return ok && u.Op == token.MUL && core.IsField(u.X, bp7, "BundleBuilder", "canonicals")
		}, 0)
		r.Check(!aliased, "builder/"+fname(bb)+"/bundle-owns-its-blocks", "the block list of a built bundle is a fresh copy, not the builder's own slice: using the builder again must not change a bundle it already returned", p.Pos(nb.Pos()), "", "NewBundle is given bldr.canonicals itself: Builder()...Build() followed by .HopCountBlock(5).Build() re-sorts the shared backing array and leaves the first bundle without its payload block in last place")
	}
	// IsExceeded is Count > Limit
	ie := p.Func(bp7, "HopCountBlock", "IsExceeded")
	okIE := false
	for _, rv := range core.ReturnValues(ie, 0) {
		if b, ok := rv.V.(*ssa.BinOp); ok {
			if big, small, strict, isOrd := core.Greater(b); isOrd && strict && pathEndsWith(big, "Count") && pathEndsWith(small, "Limit") {
				okIE = true
			}
		}
	}
	r.Check(okIE, "rule-guard/"+fname(ie)+"/count-greater-limit", "IsExceeded is Count > Limit", p.Pos(ie.Pos()), "", "comparison changed")
	// decoder rejects other versions
	pbu := p.Func(bp7, "PrimaryBlock", "UnmarshalCbor")
	r.Check(guardMentions(pbu, mentionsConst(7), func(v ssa.Value) bool {
		ex, ok := v.(*ssa.Extract)
		if !ok {
			return false
		}
		cc, ok := ex.Tuple.(*ssa.Call)
		return ok && core.NameIs(core.CalleeName(cc), cbor+".ReadUInt")
	}), "rule-guard/"+fname(pbu)+"/version-7", "the decoder rejects a version other than 7", p.Pos(pbu.Pos()), "", "no version test")
	// a lifetime beyond a Duration's range must not wrap around ("lifetime not run out", store expiry)
	checkMillisecondConversions(p, r, bp7, storagePkg, routingPkg)
}

// checkValidatorResults: in fn (and its closures) every call to a validator
// (CheckValid / IsExceeded / IsLifetimeExceeded) has its result used: it flows
// into multierror.Append / a return / a store, or (bool) guards an error.
func checkValidatorResults(p *core.Program, r *core.Report, fn *ssa.Function, n *int) {
	core.EachInstrDeep(fn, func(f *ssa.Function, in ssa.Instruction) {
		c, ok := in.(*ssa.Call)
		if !ok {
			return
		}
		var name string
		if c.Common().IsInvoke() {
			name = c.Common().Method.Name()
		} else if o := core.CalleeObj(c); o != nil {
			name = o.Name()
		}
		if name != "CheckValid" && name != "IsExceeded" && name != "IsLifetimeExceeded" {
			return
		}
		*n++
		used := false
		if isErrorType(c.Type()) {
			// some error producer / return / store depends on it
			core.EachInstr(f, func(in2 ssa.Instruction) {
				var vals []ssa.Value
				switch x := in2.(type) {
				case *ssa.Call:
					if isErrProducer(x) {
						vals = core.CallArgs(x)
						if sl := varargsElems(x); len(sl) > 0 {
							vals = append(vals, sl...)
						}
					}
				case *ssa.Return:
					vals = x.Results
				case *ssa.Store:
					vals = []ssa.Value{x.Val}
				}
				for _, v := range vals {
					if core.DependsOn(v, func(y ssa.Value) bool { return y == ssa.Value(c) }) {
						used = true
					}
				}
			})
		} else {
			// bool: some error producer is dominated by a condition depending on it
			core.EachInstr(f, func(in2 ssa.Instruction) {
				if !isErrProducer(in2) {
					return
				}
				for _, cd := range core.DominatingConds(in2.Block()) {
					for _, y := range closureOf(cd.V) {
						if y == ssa.Value(c) {
							used = true
						}
					}
				}
			})
			for _, rv := range core.ReturnValues(f, 0) {
				if core.DependsOn(rv.V, func(y ssa.Value) bool { return y == ssa.Value(c) }) {
					used = true
				}
			}
		}
		recv := "?"
		if rc := core.CallRecv(c); rc != nil {
			if _, path, ok := core.FieldRef(core.Strip(rc)); ok {
				recv = strings.Join(path, ".")
			} else {
				recv = subTypeName(rc)
			}
		}
		r.Check(used, fmt.Sprintf("validation-tree/%s/uses-result/%s.%s", fname(fn), recv, name), "the verdict of every component validator flows into the error the validator returns", p.Pos(c.Pos()), "", "the result of this validator call is dropped")
	})
}

// varargsElems returns the values stored into the varargs array of a call.
func varargsElems(c *ssa.Call) []ssa.Value {
	var out []ssa.Value
	for _, a := range c.Common().Args {
		sl, ok := a.(*ssa.Slice)
		if !ok {
			continue
		}
		al, ok := sl.X.(*ssa.Alloc)
		if !ok {
			continue
		}
		for _, ref := range *al.Referrers() {
			if ia, ok := ref.(*ssa.IndexAddr); ok {
				for _, rr := range *ia.Referrers() {
					if st, ok := rr.(*ssa.Store); ok {
						out = append(out, st.Val)
					}
				}
			}
		}
	}
	return out
}

// checkEndpointPatternLanguage decides two facts about the language of a
// constant endpoint pattern from its syntax tree (regexp/syntax; the pattern is
// a compile-time constant of the repository, nothing of dtn7 is executed):
// (1) it contains no "any character" operator and every character class lies
// within the visible ASCII characters (RFC: demux = *VCHAR) — blank, TAB, NUL,
// CR, DEL, non-ASCII bytes are not part of an endpoint URI; (2) a capture group
// that matches decimal numbers does not accept a leading zero ("ipn:01.1" and
// "ipn:1.1" would name one endpoint: text and structure would not determine
// each other).
func checkEndpointPatternLanguage(p *core.Program, r *core.Report, fn *ssa.Function, at ssa.Instruction, pat string) {
	re, err := syntax.Parse(pat, syntax.Perl)
	key := "regexp-language/" + fname(fn) + "/" + pat
	if err != nil {
		r.Unknown(key, "the endpoint pattern parses", p.Pos(at.Pos()), err.Error())
		return
	}
	var bad []string
	var numericGroups []*syntax.Regexp
	// only what a capture group matches ends up in the endpoint structure (an uncaptured rest is a pre-filter
	// whose text is handed to the scheme's own, anchored parser)
	var walk func(x *syntax.Regexp, captured bool)
	walk = func(x *syntax.Regexp, captured bool) {
		switch x.Op {
		case syntax.OpAnyChar, syntax.OpAnyCharNotNL:
			if captured {
				bad = append(bad, "'.' matches any character")
			}
		case syntax.OpCharClass:
			for i := 0; captured && i+1 < len(x.Rune); i += 2 {
				if x.Rune[i] < 0x21 || x.Rune[i+1] > 0x7e {
					bad = append(bad, fmt.Sprintf("character class %s reaches outside the visible ASCII characters", x.String()))
					break
				}
			}
		case syntax.OpLiteral:
			for _, c := range x.Rune {
				if captured && (c < 0x21 || c > 0x7e) {
					bad = append(bad, fmt.Sprintf("literal %q outside the visible ASCII characters", c))
				}
			}
		case syntax.OpCapture:
			captured = true
			if onlyDigits(x.Sub[0]) {
				numericGroups = append(numericGroups, x.Sub[0])
			}
		}
		for _, sub := range x.Sub {
			walk(sub, captured)
		}
	}
	walk(re, false)
	r.Check(len(bad) == 0, key+"/visible-ascii", "what an endpoint pattern captures consists of visible ASCII characters only (no '.', no class beyond 0x21-0x7e): blank, control and non-ASCII characters are not part of an endpoint URI", p.Pos(at.Pos()), "", strings.Join(bad, "; "))
	for i, g := range numericGroups {
		sub, err := regexp.Compile("^(?:" + g.String() + ")$")
		if err != nil {
			r.Unknown(fmt.Sprintf("%s/number#%d", key, i+1), "numeric group compiles", p.Pos(at.Pos()), err.Error())
			continue
		}
		lead := sub.MatchString("01") || sub.MatchString("00") || sub.MatchString("007")
		plain := sub.MatchString("1") && sub.MatchString("10") && sub.MatchString("18446744073709551615")
		r.Check(!lead && plain, fmt.Sprintf("%s/number#%d", key, i+1), "a decimal number in an endpoint URI has exactly one text form: the numeric group "+g.String()+" accepts 1, 10, 2^64-1 and no leading zeros", p.Pos(at.Pos()), "", fmt.Sprintf("accepts a leading zero: %v; accepts plain numbers: %v", lead, plain))
	}
}

// onlyDigits: every character the expression can match is a decimal digit.
func onlyDigits(x *syntax.Regexp) bool {
	switch x.Op {
	case syntax.OpCharClass:
		for i := 0; i+1 < len(x.Rune); i += 2 {
			if x.Rune[i] < '0' || x.Rune[i+1] > '9' {
				return false
			}
		}
		return len(x.Rune) > 0
	case syntax.OpLiteral:
		for _, c := range x.Rune {
			if c < '0' || c > '9' {
				return false
			}
		}
		return true
	case syntax.OpPlus, syntax.OpStar, syntax.OpQuest, syntax.OpRepeat, syntax.OpConcat, syntax.OpAlternate, syntax.OpCapture:
		for _, s := range x.Sub {
			if !onlyDigits(s) {
				return false
			}
		}
		return len(x.Sub) > 0
	}
	return false
}

// checkEndpointRegexps: anchoring and language of every regular expression of
// the endpoint code (shared by C02 and C17).
func checkEndpointRegexps(p *core.Program, r *core.Report) {
	// every regular expression the endpoint code compiles is a whole-string
	// matcher: its constant pattern is anchored at both ends, so MatchString /
	// FindStringSubmatch cannot accept a string with a valid substring only.
	nre := 0
	scan := func(f *ssa.Function) {
		core.EachInstrDeep(f, func(g *ssa.Function, in ssa.Instruction) {
			cc, ok := in.(*ssa.Call)
			if !ok {
				return
			}
			cn := core.CalleeName(cc)
			if !core.NameIs(cn, "regexp.MustCompile") && !core.NameIs(cn, "regexp.Compile") {
				return
			}
			nre++
			key := "regexp-anchored/" + fname(g)
			k, isC := core.Arg(cc, 0).(*ssa.Const)
			if !isC || k.Value == nil || k.Value.Kind() != constant.String {
				r.Unknown(key, "the pattern compiled here is a constant", p.Pos(cc.Pos()), "pattern is not a compile-time constant")
				return
			}
			pat := constant.StringVal(k.Value)
			key += "/" + pat
			checkEndpointPatternLanguage(p, r, g, cc, pat)
			head := strings.HasPrefix(pat, "^") || strings.HasPrefix(pat, `\A`)
			tail := (strings.HasSuffix(pat, "$") && !strings.HasSuffix(pat, `\$`)) || strings.HasSuffix(pat, `\z`)
			r.Check(head && tail, key, "an endpoint regular expression is anchored at both ends (^…$), so it decides the whole string", p.Pos(cc.Pos()), "", "pattern is not anchored at both ends: a string merely containing a match is accepted")
		})
	}
	for _, f := range p.RepoFuncs() {
		if f.Pkg == p.Pkg(bp7) && f.Parent() == nil {
			scan(f)
		}
	}
	if initFn := p.Pkg(bp7).Func("init"); initFn != nil {
		scan(initFn)
	}
	r.Count("endpoint regexps", nre)
	r.Min("endpoint regexps", 3)
}

// checkFreeNumberSearch: AddExtensionBlock gives a new block the lowest block
// number no other block uses. "No other block uses it" needs a complete pass
// over all blocks for the final candidate: whenever the candidate changes,
// the comparison has to start again from the first block. A search that bumps
// the candidate in the middle of a pass and simply goes on is right only for
// blocks in ascending number order — the parser accepts any order (payload
// last), so a relayed foreign bundle would get a duplicate number.
func checkFreeNumberSearch(p *core.Program, r *core.Report) {
	fn := p.Func(bp7, "Bundle", "AddExtensionBlock")
	loops := core.Loops(fn)
	n := 0
	var bad []string
	core.EachInstr(fn, func(in ssa.Instruction) {
		cmp, ok := in.(*ssa.BinOp)
		if !ok || cmp.Op != token.EQL {
			return
		}
		// candidate == <some block's number>
		var cand ssa.Value
		switch {
		case isBlockNumberElem(cmp.Y):
			cand = cmp.X
		case isBlockNumberElem(cmp.X):
			cand = cmp.Y
		default:
			return
		}
		scan := core.InnermostLoop(loops, cmp.Block())
		if scan == nil {
			return
		}
		n++
		// every change of the candidate
		core.EachInstr(fn, func(i2 ssa.Instruction) {
			inc, ok := i2.(*ssa.BinOp)
			if !ok || inc.Op != token.ADD {
				return
			}
			phi, isPhi := inc.X.(*ssa.Phi)
			if !isPhi || !feeds(inc, phi) || !sameVar(cand, phi) {
				return
			}
			if scan.Blocks[inc.Block()] && reachesWithinLoop(inc.Block(), scan) {
				bad = append(bad, p.Pos(inc.Pos()))
			}
		})
	})
	r.Check(n > 0, "unique-block-numbers/"+fname(fn)+"/compared-with-every-block", "the number given to a new block is found by comparing a candidate with the numbers of the blocks the bundle has (numbers may have gaps - a block was removed - and any order - a foreign sender)", p.Pos(fn.Pos()), "", "no comparison of a candidate with the existing blocks' numbers: a number derived from the count of blocks collides as soon as the numbering has a gap (blocks #3,#1 after #2 was removed: the new block gets 3 again)")
	r.Check(len(bad) == 0, "unique-block-numbers/"+fname(fn)+"/search-restarts", "the search for a free block number compares the final candidate with every block: after the candidate was changed the pass over the blocks starts again (blocks of a parsed bundle may be in any order)", p.Pos(fn.Pos()), "", "the candidate is incremented at "+strings.Join(bad, ", ")+" inside the pass over the blocks and the pass goes on: blocks already visited are never compared with the new candidate; with numbers 3,2,1 on the wire the new block gets number 3 again")
}

// isBlockNumberElem: v is x.BlockNumber of some canonical block, or an element of a slice of numbers collected from them.
func isBlockNumberElem(v ssa.Value) bool {
	if pathEndsWith(v, "BlockNumber") {
		return true
	}
	if u, ok := v.(*ssa.UnOp); ok && u.Op == token.MUL {
		if ia, ok := u.X.(*ssa.IndexAddr); ok {
			return core.DependsOn(ia.X, func(x ssa.Value) bool { return pathEndsWith(x, "BlockNumber") })
		}
	}
	return false
}

func feeds(v ssa.Value, phi *ssa.Phi) bool {
	for _, e := range phi.Edges {
		if e == v {
			return true
		}
		if p2, ok := e.(*ssa.Phi); ok {
			for _, e2 := range p2.Edges {
				if e2 == v {
					return true
				}
			}
		}
	}
	return false
}

// sameVar: a is phi or a phi that merges phi (the same source variable at another program point).
func sameVar(a ssa.Value, phi *ssa.Phi) bool {
	if a == ssa.Value(phi) {
		return true
	}
	seen := map[ssa.Value]bool{}
	var walk func(v ssa.Value) bool
	walk = func(v ssa.Value) bool {
		if v == ssa.Value(phi) {
			return true
		}
		if seen[v] {
			return false
		}
		seen[v] = true
		if p2, ok := v.(*ssa.Phi); ok {
			for _, e := range p2.Edges {
				if walk(e) {
					return true
				}
			}
		}
		if b, ok := v.(*ssa.BinOp); ok && b.Op == token.ADD {
			return walk(b.X)
		}
		return false
	}
	if walk(a) {
		return true
	}
	// or phi merges a
	seen = map[ssa.Value]bool{}
	for _, e := range phi.Edges {
		if e == a {
			return true
		}
	}
	return false
}

// sharesBacking: v can be a slice with the same backing array as a value
// satisfying src — the value itself, a re-slice of it, a phi of such, or the
// result of append(<such>, ...) (which reuses the array while capacity lasts).
func sharesBacking(v ssa.Value, src func(ssa.Value) bool, depth int) bool {
	if depth > 8 || v == nil {
		return false
	}
	if src(v) {
		return true
	}
	switch x := v.(type) {
	case *ssa.Slice:
		return sharesBacking(x.X, src, depth+1)
	case *ssa.ChangeType:
		return sharesBacking(x.X, src, depth+1)
	case *ssa.Phi:
		for _, e := range x.Edges {
			if sharesBacking(e, src, depth+1) {
				return true
			}
		}
	case *ssa.Call:
		if b, ok := x.Common().Value.(*ssa.Builtin); ok && b.Name() == "append" {
			return sharesBacking(x.Common().Args[0], src, depth+1)
		}
	case *ssa.UnOp:
		// load of a local that was assigned such a value
		if a, ok := x.X.(*ssa.Alloc); ok && x.Op == token.MUL {
			for _, ref := range *a.Referrers() {
				if st, ok := ref.(*ssa.Store); ok && st.Addr == ssa.Value(a) && sharesBacking(st.Val, src, depth+1) {
					return true
				}
			}
		}
	}
	return false
}

// checkBreakOnlyAtBlockBoundary: Bundle.UnmarshalCbor ends the array of blocks
// when decoding the next block yields cboring.FlagBreakCode. The block decoder
// returns the errors of all its reads unchanged, so a 0xff in place of a later
// field of a block (85 ff; a block that announces a CRC but ends before it)
// would also end the bundle, silently dropping the partial block: bytes that
// are no well-formed bundle would be accepted. Necessary: after its array
// header has been read, the block decoder never returns FlagBreakCode — a
// deferred conversion of that value exists, armed by a flag that is set
// before any later read.
func checkBreakOnlyAtBlockBoundary(p *core.Program, r *core.Report) {
	un := p.Func(bp7, "CanonicalBlock", "UnmarshalCbor")
	key := "break-code/" + fname(un) + "/only-at-block-boundary"
	rule := "a break code ends the bundle's block array only in place of a block: once a block's array header has been read, the block decoder converts cboring.FlagBreakCode from any later read into an ordinary error (a deferred conversion armed by a flag that is set before every later read)"
	// the deferred converter
	var flag *ssa.Alloc
	okConv := false
	core.EachInstr(un, func(in ssa.Instruction) {
		d, ok := in.(*ssa.Defer)
		if !ok {
			return
		}
		mc, ok := d.Call.Value.(*ssa.MakeClosure)
		if !ok {
			return
		}
		cl := mc.Fn.(*ssa.Function)
		cmpBreak, storesErr := false, false
		var flagFV *ssa.FreeVar
		core.EachInstr(cl, func(i2 ssa.Instruction) {
			switch x := i2.(type) {
			case *ssa.BinOp:
				if x.Op == token.EQL || x.Op == token.NEQ {
					for _, o := range []ssa.Value{x.X, x.Y} {
						if u, ok := o.(*ssa.UnOp); ok {
							if g, ok := u.X.(*ssa.Global); ok && g.Name() == "FlagBreakCode" {
								cmpBreak = true
							}
						}
						// cboring.FlagBreakCode is a constant of type cboring.Flag (an error type)
						if mi, ok := o.(*ssa.MakeInterface); ok {
							if k, ok := mi.X.(*ssa.Const); ok && strings.HasSuffix(k.Type().String(), "cboring.Flag") {
								if v, isI := core.ConstInt(k); isI && v == constValAbs(p, cbor, "FlagBreakCode") {
									cmpBreak = true
								}
							}
						}
					}
				}
			case *ssa.Store:
				if fv, ok := x.Addr.(*ssa.FreeVar); ok && isErrorType(derefNamed(fv.Type())) {
					if _, isCall := x.Val.(*ssa.Call); isCall {
						storesErr = true
					}
				}
			case *ssa.UnOp:
				if fv, ok := x.X.(*ssa.FreeVar); ok && x.Op == token.MUL {
					if b, ok := derefNamed(fv.Type()).Underlying().(*types.Basic); ok && b.Kind() == types.Bool {
						flagFV = fv
					}
				}
			}
		})
		if cmpBreak && storesErr && flagFV != nil {
			okConv = true
			for i, fv := range cl.FreeVars {
				if fv == flagFV {
					flag, _ = mc.Bindings[i].(*ssa.Alloc)
				}
			}
		}
	})
	if !okConv || flag == nil {
		r.Fail(key, rule, p.Pos(un.Pos()), "no deferred conversion of FlagBreakCode found in the block decoder: `85 ff` after the payload block is accepted and the partial block dropped")
		return
	}
	armed := func(i ssa.Instruction) bool {
		st, ok := i.(*ssa.Store)
		return ok && st.Addr == ssa.Value(flag) && core.IsBoolConst(st.Val, true)
	}
	first := true
	var bad []string
	n := 0
	core.EachInstr(un, func(in ssa.Instruction) {
		c, ok := in.(*ssa.Call)
		if !ok {
			return
		}
		name := shortName(core.CalleeName(c))
		isRead := strings.HasPrefix(name, cbor+".Read") || name == cbor+".Unmarshal" || name == "pkg/bpv7.ExtensionBlockManager.ReadBlock" || name == "pkg/bpv7.checkCRCField"
		if !isRead {
			return
		}
		n++
		if first {
			first = false // the array header: its break code is the end of the bundle
			return
		}
		if !core.MustPassBefore(c, armed) {
			bad = append(bad, p.Pos(c.Pos()))
		}
	})
	r.Check(len(bad) == 0 && n >= 6, key, rule, p.Pos(un.Pos()), "", "reads that can return a break code before the conversion is armed: "+strings.Join(bad, ", "))
}

// constValAbs: integer value of a named constant of a dependency package (absolute import path).
func constValAbs(p *core.Program, pkgPath, name string) int64 {
	for _, pk := range p.SSA.AllPackages() {
		if pk.Pkg.Path() == pkgPath {
			if nc, ok := pk.Members[name].(*ssa.NamedConst); ok {
				if v, ok := core.ConstInt(nc.Value); ok {
					return v
				}
			}
		}
	}
	return -1 << 62
}

// payloadLastPreds: the operands of "the last block is the payload block" - the type code (through the block's
// interface or CanonicalBlock.TypeCode) of the element at [len-1], compared with the payload block's type constant.
func payloadLastPreds(payloadType int64) []func(ssa.Value) bool {
	return []func(ssa.Value) bool{
		func(v ssa.Value) bool {
			return mentionsTypeCode(v)
		},
		mentionsConst(payloadType),
		func(v ssa.Value) bool {
			ia, ok := v.(*ssa.IndexAddr)
			if !ok {
				return false
			}
			b, ok := ia.Index.(*ssa.BinOp)
			return ok && b.Op == token.SUB
		}}
}

// checkPayloadLastGuard is the "payload block last" rule guard on its own (also a clause of C01).
func checkPayloadLastGuard(p *core.Program, r *core.Report) {
	cv := p.Func(bp7, "Bundle", "CheckValid")
	k := constVal(p, bp7, "ExtBlockTypePayloadBlock")
	r.Check(guardMentions(cv, payloadLastPreds(k)...), "rule-guard/"+fname(cv)+"/payload-block-last", "the validator, which the parser runs on everything it accepts, contains an error-producing branch whose condition compares the TYPE of the last block with the payload block's type", p.Pos(cv.Pos()), "", "no error branch guarded by a condition mentioning the last block's type code and the payload type constant")
}

// isTypeCodeCall: the block's type code, asked of the block's value (interface method BlockTypeCode) or of the
// canonical block (TypeCode, which returns the former).
func isTypeCodeCall(c *ssa.Call) bool {
	if c.Common().IsInvoke() && c.Common().Method.Name() == "BlockTypeCode" {
		return true
	}
	return core.NameIs(core.CalleeName(c), bp7+".CanonicalBlock.TypeCode")
}

func mentionsTypeCode(v ssa.Value) bool {
	c, ok := v.(*ssa.Call)
	return ok && isTypeCodeCall(c)
}
