package rules

import (
	"fmt"
	"go/token"
	"go/types"
	"sort"
	"strings"

	"dtnverif/core"

	"golang.org/x/tools/go/ssa"
)

// guardedField is one row of the frozen guarded-by table.
type guardedField struct {
	Pkg, Typ, Field string
	Mutex           string // MutexKey of the protecting mutex
}

type gAccess struct {
	Fn    *ssa.Function
	At    ssa.Instruction
	Write bool
	Kind  string // lookup, update, range, next, delete, len, load, store, addr-arg, escape
	Field guardedField
	Val   ssa.Value // for lookup: result; for update: stored value
}

type guardedEngine struct {
	p     *core.Program
	locks map[*ssa.Function]*core.LockSets
	sites map[*ssa.Function][]ssa.CallInstruction // static call sites per callee
}

func newGuardedEngine(p *core.Program) *guardedEngine {
	g := &guardedEngine{p: p, locks: map[*ssa.Function]*core.LockSets{}, sites: map[*ssa.Function][]ssa.CallInstruction{}}
	for _, fn := range p.RepoFuncs() {
		core.EachInstr(fn, func(in ssa.Instruction) {
			if c, ok := in.(ssa.CallInstruction); ok {
				if callee := core.Callee(c); callee != nil && core.IsRepo(callee) {
					g.sites[callee] = append(g.sites[callee], c)
				}
			}
		})
	}
	return g
}

func (g *guardedEngine) ls(fn *ssa.Function) *core.LockSets {
	if l, ok := g.locks[fn]; ok {
		return l
	}
	l := core.ComputeLockSets(fn)
	g.locks[fn] = l
	return l
}

// heldAt: the mutex is held at instruction in (locally, or by every caller of
// the enclosing function, to depth 3). local reports a local epoch.
func (g *guardedEngine) heldAt(in ssa.Instruction, mutex string, needWrite bool) (held bool, local bool) {
	fn := in.Parent()
	if _, ok := g.ls(fn).Held(in, mutex, needWrite); ok {
		return true, true
	}
	return g.callersHold(fn, mutex, needWrite, 0), false
}

func (g *guardedEngine) callersHold(fn *ssa.Function, mutex string, needWrite bool, depth int) bool {
	if depth > 3 {
		return false
	}
	sites := g.sites[fn]
	if len(sites) == 0 {
		return false
	}
	// a function whose address is taken may be called from anywhere
	if refs := fn.Referrers(); refs != nil {
		for _, r := range *refs {
			if c, ok := r.(ssa.CallInstruction); ok && core.Callee(c) == fn {
				continue
			}
			return false
		}
	}
	for _, cs := range sites {
		if _, ok := cs.(*ssa.Go); ok {
			return false
		}
		if _, ok := g.ls(cs.Parent()).Held(cs, mutex, needWrite); ok {
			continue
		}
		if !g.callersHold(cs.Parent(), mutex, needWrite, depth+1) {
			return false
		}
	}
	return true
}

// underConstruction: the struct whose field is accessed is a local that has
// not been published yet (constructor idiom: `x := T{...}; ...; return &x`).
func underConstruction(addr ssa.Value) bool {
	for {
		switch x := addr.(type) {
		case *ssa.FieldAddr:
			addr = x.X
		case *ssa.IndexAddr:
			addr = x.X
		case *ssa.Alloc:
			return true
		default:
			return false
		}
	}
}

// accesses enumerates the accesses to field gf in fn.
func (g *guardedEngine) accesses(fn *ssa.Function, gf guardedField) []gAccess {
	var out []gAccess
	add := func(at ssa.Instruction, write bool, kind string, val ssa.Value) {
		out = append(out, gAccess{Fn: fn, At: at, Write: write, Kind: kind, Field: gf, Val: val})
	}
	var useValue func(v ssa.Value, depth int)
	var useAddr func(addr ssa.Value, depth int)
	useValue = func(v ssa.Value, depth int) {
		if depth > 4 || v.Referrers() == nil {
			return
		}
		for _, ref := range *v.Referrers() {
			switch u := ref.(type) {
			case *ssa.Lookup:
				if u.X == v {
					add(u, false, "lookup", u)
				}
			case *ssa.MapUpdate:
				if u.Map == v {
					add(u, true, "update", u.Value)
				}
			case *ssa.Range:
				add(u, false, "range", nil)
				for _, rr := range *u.Referrers() {
					if nx, ok := rr.(*ssa.Next); ok {
						add(nx, false, "next", nil)
					}
				}
			case *ssa.Index:
				add(u, false, "index", u)
			case *ssa.IndexAddr:
				if u.X == v {
					for _, rr := range *u.Referrers() {
						switch y := rr.(type) {
						case *ssa.Store:
							if y.Addr == ssa.Value(u) {
								add(y, true, "elem-store", y.Val)
							}
						case *ssa.UnOp:
							add(y, false, "elem-load", y)
						}
					}
				}
			case *ssa.Field:
				useValue(u, depth+1)
			case *ssa.Slice:
				add(u, false, "slice", u)
			case *ssa.Phi:
				useValue(u, depth+1)
			case ssa.CallInstruction:
				cc := u.Common()
				if b, ok := cc.Value.(*ssa.Builtin); ok {
					switch b.Name() {
					case "delete":
						add(u, true, "delete", nil)
					case "len", "cap":
						add(u, false, "len", nil)
					case "append":
						add(u, false, "append", u.Value())
					default:
						add(u, false, "builtin-"+b.Name(), nil)
					}
				} else {
					var rv ssa.Value
					if val := u.Value(); val != nil {
						rv = val
					}
					add(u, false, "escape-arg", rv)
				}
			case *ssa.MakeInterface, *ssa.ChangeType, *ssa.Convert:
				add(u, false, "escape-conv", u.(ssa.Value))
			case *ssa.Store:
				if u.Val == v && !isFieldOf(u.Addr, gf) {
					if _, isLocal := u.Addr.(*ssa.Alloc); isLocal {
						// copied into a local variable: follow loads of it
						for _, rr := range *u.Addr.Referrers() {
							if ld, ok := rr.(*ssa.UnOp); ok && ld.Op == token.MUL {
								useValue(ld, depth+1)
							}
						}
					} else {
						add(u, false, "escape-store", nil)
					}
				}
			}
		}
	}
	useAddr = func(addr ssa.Value, depth int) {
		if depth > 4 || addr.Referrers() == nil {
			return
		}
		for _, ref := range *addr.Referrers() {
			switch u := ref.(type) {
			case *ssa.Store:
				if u.Addr == addr {
					add(u, true, "store", u.Val)
				}
			case *ssa.UnOp:
				if u.Op == token.MUL {
					switch u.Type().Underlying().(type) {
					case *types.Map, *types.Slice, *types.Struct:
						useValue(u, depth+1)
						// a struct load is itself a read of the guarded data
						if _, isStruct := u.Type().Underlying().(*types.Struct); isStruct {
							add(u, false, "load", u)
						}
					default:
						add(u, false, "load", u)
					}
				}
			case *ssa.FieldAddr:
				useAddr(u, depth+1)
			case *ssa.IndexAddr:
				useAddr(u, depth+1)
			case ssa.CallInstruction:
				// address of the guarded field handed to a callee
				if callee := core.Callee(u); callee != nil && strings.HasPrefix(core.CalleeName(u), "sync") {
					continue
				}
				add(u, true, "addr-arg", nil)
			}
		}
	}
	core.EachInstr(fn, func(in ssa.Instruction) {
		fa, ok := in.(*ssa.FieldAddr)
		if !ok || !core.IsField(fa, gf.Pkg, gf.Typ, gf.Field) {
			return
		}
		if underConstruction(fa.X) {
			return
		}
		useAddr(fa, 0)
	})
	return out
}

func isFieldOf(addr ssa.Value, gf guardedField) bool {
	for {
		switch x := addr.(type) {
		case *ssa.FieldAddr:
			if core.IsField(x, gf.Pkg, gf.Typ, gf.Field) {
				return true
			}
			addr = x.X
		case *ssa.IndexAddr:
			addr = x.X
		default:
			return false
		}
	}
}

// checkGuarded applies the lockset, read-modify-write and escape rules to
// the table rows and records obligations. It returns the number of accesses.
func (g *guardedEngine) checkGuarded(r *core.Report, table []guardedField, escapeIsViolation bool) int {
	p := g.p
	total := 0
	for _, gf := range table {
		fieldName := gf.Pkg + "." + gf.Typ + "." + gf.Field
		nField := 0
		for _, fn := range p.RepoFuncs() {
			accs := g.accesses(fn, gf)
			if len(accs) == 0 {
				continue
			}
			sort.SliceStable(accs, func(i, j int) bool { return accs[i].At.Pos() < accs[j].At.Pos() })
			nField += len(accs)
			// 1. lockset
			bad := []string{}
			for _, a := range accs {
				if strings.HasPrefix(a.Kind, "escape") {
					continue
				}
				held, _ := g.heldAt(a.At, gf.Mutex, a.Write)
				if !held {
					mode := "read"
					if a.Write {
						mode = "write"
					}
					bad = append(bad, fmt.Sprintf("%s (%s) at %s holding %s", a.Kind, mode, p.Pos(a.At.Pos()), g.ls(fn).HeldNames(a.At)))
				}
			}
			key := fmt.Sprintf("lockset/%s/%s", fname(fn), fieldName)
			rule := fmt.Sprintf("every access to %s happens with %s held (write lock for writes), locally or by every caller", fieldName, gf.Mutex)
			if len(bad) == 0 {
				r.OK(key, rule, p.Pos(accs[0].At.Pos()), fmt.Sprintf("%d access(es)", len(accs)))
			} else {
				r.Fail(key, rule, p.Pos(accs[0].At.Pos()), strings.Join(bad, "; "))
			}
			// 2. read-modify-write in one exclusive region
			for _, u := range accs {
				if !u.Write || u.Val == nil {
					continue
				}
				for _, l := range accs {
					if l.Write || l.Val == nil || (l.Kind != "lookup" && l.Kind != "load" && l.Kind != "elem-load" && l.Kind != "index") {
						continue
					}
					lv := l.Val
					dep := core.DependsOn(u.Val, func(v ssa.Value) bool {
						if v == lv {
							return true
						}
						if ex, ok := v.(*ssa.Extract); ok && ex.Tuple == lv {
							return true
						}
						return false
					})
					if !dep {
						continue
					}
					key := fmt.Sprintf("atomic-rmw/%s/%s", fname(fn), fieldName)
					rule := fmt.Sprintf("a value read from %s and written back to it must stay inside one exclusive region of %s (no lost update)", fieldName, gf.Mutex)
					same := g.ls(fn).SameWriteRegion(l.At, u.At, gf.Mutex)
					if !same {
						// both covered by the callers' region and no local lock traffic on this mutex
						_, ll := g.ls(fn).Held(l.At, gf.Mutex, false)
						_, lu := g.ls(fn).Held(u.At, gf.Mutex, false)
						if !ll && !lu && g.callersHold(fn, gf.Mutex, true, 0) {
							same = true
						}
					}
					if same {
						r.OK(key, rule, p.Pos(u.At.Pos()), "read and write-back share one exclusive region")
					} else {
						r.Fail(key, rule, p.Pos(u.At.Pos()), fmt.Sprintf("read at %s holds %s, write-back at %s holds %s: another goroutine can update the entry in between", p.Pos(l.At.Pos()), g.ls(fn).HeldNames(l.At), p.Pos(u.At.Pos()), g.ls(fn).HeldNames(u.At)))
					}
				}
			}
			// 3. escape: a value derived from the guarded container used outside the region
			for _, a := range accs {
				if !strings.HasPrefix(a.Kind, "escape") {
					continue
				}
				key := fmt.Sprintf("no-escape/%s/%s", fname(fn), fieldName)
				rule := fmt.Sprintf("the live %s must not be handed to an object that is used after the lock is released (copy it under the lock)", fieldName)
				var outside []string
				if a.Val != nil {
					for _, use := range forwardUses(a.Val) {
						if held, _ := g.heldAt(use, gf.Mutex, false); !held {
							outside = append(outside, p.Pos(use.Pos()))
						}
					}
				}
				if held, _ := g.heldAt(a.At, gf.Mutex, false); !held {
					outside = append(outside, p.Pos(a.At.Pos()))
				}
				if len(outside) == 0 {
					r.OK(key, rule, p.Pos(a.At.Pos()), "all uses of the derived value are inside the region")
				} else if escapeIsViolation {
					r.Fail(key, rule, p.Pos(a.At.Pos()), "derived value used without the lock at "+strings.Join(dedup(outside), ", "))
				} else {
					r.Note(key, rule, p.Pos(a.At.Pos()), "cross-reference only: derived value used without the lock at "+strings.Join(dedup(outside), ", "))
				}
			}
		}
		r.Count("accesses to "+fieldName, nField)
		total += nField
	}
	return total
}

func dedup(s []string) []string {
	sort.Strings(s)
	var out []string
	for i, x := range s {
		if i == 0 || x != s[i-1] {
			out = append(out, x)
		}
	}
	return out
}

// forwardUses returns the instructions that use v or values derived from it
// by conversion, phi, field selection or a round trip through a local
// variable (within the function).
func forwardUses(v ssa.Value) []ssa.Instruction {
	var out []ssa.Instruction
	seen := map[ssa.Value]bool{}
	var rec func(ssa.Value, int)
	rec = func(x ssa.Value, depth int) {
		if seen[x] || depth > 6 || x.Referrers() == nil {
			return
		}
		seen[x] = true
		for _, ref := range *x.Referrers() {
			if _, isDbg := ref.(*ssa.DebugRef); isDbg {
				continue
			}
			out = append(out, ref)
			switch u := ref.(type) {
			case *ssa.MakeInterface, *ssa.ChangeType, *ssa.Convert, *ssa.Phi, *ssa.Field, *ssa.ChangeInterface:
				rec(u.(ssa.Value), depth+1)
			case *ssa.Store:
				if a, ok := u.Addr.(*ssa.Alloc); ok && u.Val == x {
					for _, rr := range *a.Referrers() {
						if ld, ok := rr.(*ssa.UnOp); ok && ld.Op == token.MUL {
							out = append(out, ld)
							rec(ld, depth+1)
						}
					}
				}
			}
		}
	}
	rec(v, 0)
	return out
}
