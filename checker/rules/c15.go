package rules

import (
	"fmt"
	"go/token"

	"dtnverif/core"

	"golang.org/x/tools/go/ssa"
)

func init() { Registry["C15"] = C15 }

const (
	routingPkg = "pkg/routing"
	ssrName    = routingPkg + ".Core.SendStatusReport"
)

// C15 — status reports are truthful, correctly addressed, cannot cascade.
func C15(p *core.Program, r *core.Report) {
	r.Explanation = "Structural necessary conditions of C15, decided on the SSA/CFG of every function: (1) every call site of Core.SendStatusReport passes a constant status and is dominated by the request-flag test and the event test its status requires; (2) inside SendStatusReport the builder/SendBundle are dominated by the administrative-record and own-report-to refusals, the new bundle's flags are the constant AdministrativeRecordPayload (no request bits), its destination flows from the reported bundle's ReportTo; (3) NewStatusReport takes RefBundle from Bundle.ID(), which copies the fragment coordinates, and emits a time only under RequestStatusTime. Not decided: the content of reports at run time, histories of events."
	r.Assumptions = append(r.Assumptions,
		"BundleControlFlags.Has / BlockControlFlags.Has are pure bit tests (checked: single return of x&flag != 0)",
		"a status report can only be produced through Core.SendStatusReport (who-may-call on bpv7.NewStatusReport is checked)")

	recv := constVal(p, bp7, "ReceivedBundle")
	fwd := constVal(p, bp7, "ForwardedBundle")
	dlv := constVal(p, bp7, "DeliveredBundle")
	del := constVal(p, bp7, "DeletedBundle")
	blockUnsupported := constVal(p, bp7, "BlockUnsupported")

	reqRecv := constVal(p, bp7, "StatusRequestReception")
	reqFwd := constVal(p, bp7, "StatusRequestForward")
	reqDlv := constVal(p, bp7, "StatusRequestDelivery")
	reqDel := constVal(p, bp7, "StatusRequestDeletion")
	adminFlag := constVal(p, bp7, "AdministrativeRecordPayload")
	reqTime := constVal(p, bp7, "RequestStatusTime")
	statusReportBlock := constVal(p, bp7, "StatusReportBlock")

	checkHasIsBitTest(p, r, "BundleControlFlags")
	checkHasIsBitTest(p, r, "BlockControlFlags")

	// ---- (1) call sites
	sites := allCallSites(p, ssrName)
	r.Min("SendStatusReport call sites", 5)
	r.Count("SendStatusReport call sites", len(sites))
	seenStatus := map[int64]int{}
	for _, cs := range sites {
		fn := cs.Parent()
		args := core.CallArgs(cs)
		status, okS := core.ConstInt(args[1])
		reason, okR := core.ConstInt(args[2])
		conds := core.DominatingConds(cs.Block())
		pos := p.Pos(cs.Pos())
		base := fmt.Sprintf("status-report-site/%s/", fname(fn))
		if !okS {
			r.Fail(base+"status=dynamic", "the status passed to SendStatusReport is a constant naming the event that happened", pos, "non-constant status argument")
			continue
		}
		seenStatus[status]++
		switch status {
		case recv:
			if okR && reason == blockUnsupported {
				key := base + "ReceivedBundle(BlockUnsupported)"
				rule := "a reception report for an unsupported block is sent only for a block that is unknown and carries the StatusReportBlock flag"
				_, unk := callGuard(conds, bp7+".ExtensionBlockManager.IsKnown", false)
				r.Check(flagGuard(conds, "BlockControlFlags", statusReportBlock, true) && unk, key, rule, pos,
					"dominated by !IsKnown(type) and BlockControlFlags.Has(StatusReportBlock)", "missing guard; dominating conditions: "+condStrings(conds))
			} else {
				key := base + "ReceivedBundle"
				rule := "a reception report is sent only if the bundle requested it (StatusRequestReception), from the reception path"
				ok := flagGuard(conds, "BundleControlFlags", reqRecv, true)
				ok = ok && okR && reason == 0
				// truthfulness: the site lies in Core.receive, after the duplicate test returned
				ok2 := fn == p.Func(routingPkg, "Core", "receive")
				r.Check(ok && ok2, key, rule, pos, "dominated by Has(StatusRequestReception) inside Core.receive", "missing guard or wrong function; dominating conditions: "+condStrings(conds))
			}
		case fwd:
			key := base + "ForwardedBundle"
			rule := "a forwarding report is sent only if requested (StatusRequestForward) and only after a convergence sender returned success"
			okFlag := flagGuard(conds, "BundleControlFlags", reqFwd, true)
			okSent := false
			for _, c := range conds {
				if !c.True {
					continue
				}
				if a := loadedAlloc(c.V); a != nil && sentFlagIsTruthful(p, r, fn, a) {
					okSent = true
				}
			}
			r.Check(okFlag && okSent, key, rule, pos, "dominated by Has(StatusRequestForward) and by a flag set only on the err==nil edge of ConvergenceSender.Send",
				fmt.Sprintf("flag guard=%v, truthful sent-flag guard=%v; dominating conditions: %s", okFlag, okSent, condStrings(conds)))
		case dlv:
			key := base + "DeliveredBundle"
			rule := "a delivery report is sent only if requested (StatusRequestDelivery) and only if AgentManager.Deliver returned nil"
			okFlag := flagGuard(conds, "BundleControlFlags", reqDlv, true)
			okDeliver := false
			for _, dc := range core.CallsTo(fn, routingPkg+".AgentManager.Deliver") {
				if v, ok := dc.(ssa.Value); ok && errNilGuard(conds, v) {
					okDeliver = true
				}
			}
			r.Check(okFlag && okDeliver, key, rule, pos, "dominated by Has(StatusRequestDelivery) and Deliver()==nil",
				fmt.Sprintf("flag guard=%v, Deliver()==nil guard=%v; dominating conditions: %s", okFlag, okDeliver, condStrings(conds)))
		case del:
			key := base + "DeletedBundle"
			rule := "a deletion report is sent only if requested (StatusRequestDeletion) and the same path purges the bundle's constraints"
			okFlag := flagGuard(conds, "BundleControlFlags", reqDel, true)
			okPurge, _ := core.MustPassAfter(cs, func(in ssa.Instruction) bool {
				c, ok := in.(ssa.CallInstruction)
				return ok && core.NameIs(core.CalleeName(c), routingPkg+".BundleDescriptor.PurgeConstraints")
			}, core.IsReturn)
			r.Check(okFlag && okPurge, key, rule, pos, "dominated by Has(StatusRequestDeletion); every path to return purges the constraints",
				fmt.Sprintf("flag guard=%v, purge follows=%v; dominating conditions: %s", okFlag, okPurge, condStrings(conds)))
		default:
			r.Fail(base+fmt.Sprintf("status=%d", status), "the status is one of received/forwarded/delivered/deleted", pos, "unknown status constant")
		}
		// the flag tested must be the reported bundle's own primary block flag
		if status == recv || status == fwd || status == dlv || status == del {
			if !(status == recv && okR && reason == blockUnsupported) {
				okOwn := false
				for _, c := range conds {
					if call, ok := core.CondIsCall(c, bp7+".BundleControlFlags.Has"); ok && c.True {
						if pathEndsWith(core.CallRecv(call), "PrimaryBlock", "BundleControlFlags") {
							okOwn = true
						}
					}
				}
				r.Check(okOwn, base+fmt.Sprintf("status=%d/flag-source", status), "the request flag tested is read from a bundle's PrimaryBlock.BundleControlFlags", pos, "", "the tested flags are not a primary block's control flags")
			}
		}
	}
	for _, st := range []struct {
		v int64
		n string
	}{{recv, "ReceivedBundle"}, {fwd, "ForwardedBundle"}, {dlv, "DeliveredBundle"}, {del, "DeletedBundle"}} {
		r.Check(seenStatus[st.v] > 0, "status-report-site/coverage/"+st.n, "each of the four events has a reporting call site (request => report)", "", fmt.Sprintf("%d site(s)", seenStatus[st.v]), "no call site reports this event any more")
	}

	// who-may-call: NewStatusReport outside tests only from SendStatusReport
	ssr := p.Func(routingPkg, "Core", "SendStatusReport")
	daemon := p.DaemonReachable()
	r.Analysed["daemon_reachable_functions"] = len(daemon)
	for _, cs := range allCallSites(p, bp7+".NewStatusReport") {
		if !daemon[cs.Parent()] {
			r.Note("who-may-call/NewStatusReport/"+fname(cs.Parent()), "call site not reachable from cmd/dtnd (library helper / mock pipeline)", p.Pos(cs.Pos()), "")
			continue
		}
		r.Check(cs.Parent() == ssr, "who-may-call/NewStatusReport/"+fname(cs.Parent()), "in the daemon, status reports are created only inside Core.SendStatusReport (so the guards above cover every report)", p.Pos(cs.Pos()), "", "NewStatusReport called from another daemon-reachable function")
	}

	// ---- (2) no cascade, addressing
	sendSites := core.CallsTo(ssr, routingPkg+".Core.SendBundle")
	r.Min("SendBundle in SendStatusReport", 1)
	r.Count("SendBundle in SendStatusReport", len(sendSites))
	for _, sb := range sendSites {
		conds := core.DominatingConds(sb.Block())
		pos := p.Pos(sb.Pos())
		okAdmin := false
		for _, c := range conds {
			if call, ok := core.CondIsCall(c, bp7+".BundleControlFlags.Has"); ok && !c.True {
				if v, ok := core.ConstInt(core.Arg(call, 0)); ok && v == adminFlag && pathEndsWith(core.CallRecv(call), "PrimaryBlock", "BundleControlFlags") {
					okAdmin = true
				}
			}
		}
		r.Check(okAdmin, "no-cascade/SendStatusReport/admin-record-refused", "no report about an administrative record: SendBundle is dominated by !Has(AdministrativeRecordPayload) of the reported bundle", pos, "", "guard missing; "+condStrings(conds))
		okSelf := false
		for _, c := range conds {
			if call, ok := core.CondIsCall(c, routingPkg+".Core.HasEndpoint"); ok && !c.True {
				if pathEndsWith(core.Arg(call, 0), "PrimaryBlock", "ReportTo") {
					okSelf = true
				}
			}
		}
		r.Check(okSelf, "no-cascade/SendStatusReport/own-report-to-refused", "no report to ourselves: SendBundle is dominated by !HasEndpoint(bundle.ReportTo)", pos, "", "guard missing; "+condStrings(conds))

		// builder chain
		build := buildCallFeeding(sb)
		if build == nil {
			r.Unknown("report-bundle/SendStatusReport/builder", "the report bundle comes from a BundleBuilder chain", pos, "cannot trace the SendBundle argument to BundleBuilder.Build")
			continue
		}
		chain := builderChain(build)
		if fl := chain["BundleCtrlFlags"]; fl != nil {
			v, ok := core.ConstInt(core.Arg(fl, 0))
			mask := reqRecv | reqFwd | reqDlv | reqDel
			r.Check(ok && v&adminFlag != 0 && v&mask == 0, "report-bundle/SendStatusReport/flags", "the report is an administrative record without report-request flags (constant flags: admin bit set, no request bit)", p.Pos(fl.Pos()), fmt.Sprintf("flags=%#x", v), fmt.Sprintf("flags constant=%v value=%#x", ok, v))
		} else {
			r.Fail("report-bundle/SendStatusReport/flags", "the report is an administrative record without report-request flags", pos, "no BundleCtrlFlags call in the builder chain")
		}
		if d := chain["Destination"]; d != nil {
			r.Check(pathEndsWith(core.Arg(d, 0), "PrimaryBlock", "ReportTo"), "report-bundle/SendStatusReport/destination", "the report is addressed to the reported bundle's report-to endpoint", p.Pos(d.Pos()), "", "Destination argument is not <bundle>.PrimaryBlock.ReportTo")
		} else {
			r.Fail("report-bundle/SendStatusReport/destination", "the report is addressed to the reported bundle's report-to endpoint", pos, "no Destination call in the builder chain")
		}
		// the record in the bundle is the status report built from the same bundle with the caller's status
		nsr := core.CallsTo(ssr, bp7+".NewStatusReport")
		okArgs := len(nsr) == 1
		if okArgs {
			a := core.CallArgs(nsr[0])
			pStatus, pReason := ssr.Params[2], ssr.Params[3]
			okArgs = a[1] == ssa.Value(pStatus) && a[2] == ssa.Value(pReason)
			// same bundle as the one whose flags / report-to were tested
			b1, _, _ := core.FieldRef(a[0])
			okSame := false
			for _, c := range conds {
				if call, ok := core.CondIsCall(c, bp7+".BundleControlFlags.Has"); ok {
					b2, _, _ := core.FieldRef(core.CallRecv(call))
					if b1 == b2 {
						okSame = true
					}
				}
			}
			okArgs = okArgs && okSame
			canon := chain["Canonical"]
			okArgs = okArgs && canon != nil && core.DependsOn(core.Arg(canon, 0), func(v ssa.Value) bool { return v == nsr[0].(ssa.Value) })
		}
		r.Check(okArgs, "report-bundle/SendStatusReport/record", "the record carried is NewStatusReport(the guarded bundle, the caller's status, the caller's reason)", pos, "", "NewStatusReport arguments are not (guarded bundle, status param, reason param) or the record does not reach the builder")
	}

	// ---- (3) NewStatusReport / Bundle.ID
	nsr := p.Func(bp7, "", "NewStatusReport")
	okRef := false
	core.EachInstr(nsr, func(in ssa.Instruction) {
		if st, ok := in.(*ssa.Store); ok && core.IsField(st.Addr, bp7, "StatusReport", "RefBundle") {
			if c, ok := st.Val.(*ssa.Call); ok && core.NameIs(core.CalleeName(c), bp7+".Bundle.ID") {
				if ld, ok := core.CallRecv(c).(*ssa.UnOp); ok {
					if a, ok := ld.X.(*ssa.Alloc); ok && allocHoldsParam(a, nsr.Params[0]) {
						okRef = true
					}
				} else if core.CallRecv(c) == ssa.Value(nsr.Params[0]) {
					okRef = true
				}
			}
		}
	})
	r.Check(okRef, "report-ref/NewStatusReport/RefBundle", "the report names the bundle's exact ID: RefBundle = bndl.ID()", p.Pos(nsr.Pos()), "", "RefBundle is not stored from bndl.ID()")

	bid := p.Func(bp7, "Bundle", "ID")
	want := map[string][]string{
		"SourceNode":      {"PrimaryBlock", "SourceNode"},
		"Timestamp":       {"PrimaryBlock", "CreationTimestamp"},
		"FragmentOffset":  {"PrimaryBlock", "FragmentOffset"},
		"TotalDataLength": {"PrimaryBlock", "TotalDataLength"},
	}
	got := map[string]bool{}
	isFrag := false
	fragFlag := constVal(p, bp7, "IsFragment")
	core.EachInstr(bid, func(in ssa.Instruction) {
		st, ok := in.(*ssa.Store)
		if !ok {
			return
		}
		owner, f, ok := core.FieldOwner(st.Addr)
		if !ok || owner == nil || owner.Obj().Name() != "BundleID" {
			return
		}
		if w, ok := want[f]; ok && pathEndsWith(st.Val, w...) {
			got[f] = true
		}
		if f == "IsFragment" {
			if c, ok := st.Val.(*ssa.Call); ok && core.NameIs(core.CalleeName(c), bp7+".BundleControlFlags.Has") {
				if v, ok := core.ConstInt(core.Arg(c, 0)); ok && v == fragFlag && pathEndsWith(core.CallRecv(c), "PrimaryBlock", "BundleControlFlags") {
					isFrag = true
				}
			}
		}
	})
	for f := range want {
		r.Check(got[f], "report-ref/Bundle.ID/"+f, "Bundle.ID copies the primary block's source, timestamp and fragment coordinates", p.Pos(bid.Pos()), "", "field "+f+" of the BundleID is not copied from the primary block")
	}
	r.Check(isFrag, "report-ref/Bundle.ID/IsFragment", "BundleID.IsFragment = PrimaryBlock.BundleControlFlags.Has(IsFragment)", p.Pos(bid.Pos()), "", "IsFragment is not derived from the IsFragment flag")

	// time only if requested
	timeSites := core.CallsTo(nsr, bp7+".NewTimeReportingBundleStatusItem")
	r.Min("time-reporting item sites", 1)
	r.Count("time-reporting item sites", len(timeSites))
	for _, ts := range timeSites {
		conds := core.DominatingConds(ts.Block())
		r.Check(flagGuard(conds, "BundleControlFlags", reqTime, true), "report-time/NewStatusReport/time-only-if-requested", "a status time is included only under Has(RequestStatusTime)", p.Pos(ts.Pos()), "", "guard missing; "+condStrings(conds))
		// and it must be for the requested item: dominated by sip == statusItem
		okPos := false
		for _, c := range conds {
			if b, ok := c.V.(*ssa.BinOp); ok && b.Op == token.EQL && c.True {
				if core.Strip(b.Y) == ssa.Value(nsr.Params[1]) || core.Strip(b.X) == ssa.Value(nsr.Params[1]) {
					okPos = true
				}
			}
		}
		r.Check(okPos, "report-item/NewStatusReport/asserted-position", "only the item at the reported status position is asserted", p.Pos(ts.Pos()), "", "the time item is not guarded by position == statusItem")
	}
	for _, bs := range core.CallsTo(nsr, bp7+".NewBundleStatusItem") {
		v, ok := core.ConstInt(boolToInt(core.Arg(bs, 0)))
		if !ok {
			r.Unknown("report-item/NewStatusReport/asserted-constant", "status items are created with constant asserted flags", p.Pos(bs.Pos()), "non-constant")
			continue
		}
		if v == 1 {
			conds := core.DominatingConds(bs.Block())
			okPos := false
			for _, c := range conds {
				if b, ok := c.V.(*ssa.BinOp); ok && b.Op == token.EQL && c.True {
					if core.Strip(b.Y) == ssa.Value(nsr.Params[1]) || core.Strip(b.X) == ssa.Value(nsr.Params[1]) {
						okPos = true
					}
				}
			}
			r.Check(okPos, "report-item/NewStatusReport/asserted-true-position", "an item is asserted only at the reported status position", p.Pos(bs.Pos()), "", "NewBundleStatusItem(true) not guarded by position == statusItem")
		}
	}
	// the "is the report-to endpoint ours" test walks the MuxAgent's children: the list must be read under its lock
	checkMuxChildrenGuarded(p, r)

	// "delivered" is reported when AgentManager.Deliver returned nil: that result must stand for a hand-over
	checkHandOverConfirmed(p, r)
	checkDeliverGuard(p, r)

	// "forwarded" is reported exactly when one sender's Send returned nil (forward's sent flag, checked above), so the
	// report is truthful only if no Send implementation returns nil after one of its own steps failed.
	nSend := 0
	for _, n := range p.Implementations(claPkg, "ConvergenceSender") {
		if send := p.MethodOf(n, "Send"); send != nil && send.Blocks != nil {
			nSend++
			checkErrorsNotSwallowed(p, r, send, "send-result/", nil)
		}
	}
	r.Min("ConvergenceSender.Send implementations", 3)
	r.Count("ConvergenceSender.Send implementations", nSend)
}

func boolToInt(v ssa.Value) ssa.Value {
	if c, ok := v.(*ssa.Const); ok && c.Value != nil && c.Value.Kind() == 1 /* constant.Bool */ {
		if c.Value.String() == "true" {
			return ssa.NewConst(constantInt(1), tInt())
		}
		return ssa.NewConst(constantInt(0), tInt())
	}
	return v
}

// loadedAlloc returns the local variable cell a condition loads from.
func loadedAlloc(v ssa.Value) *ssa.Alloc {
	if u, ok := v.(*ssa.UnOp); ok && u.Op == token.MUL {
		if a, ok := u.X.(*ssa.Alloc); ok {
			return a
		}
	}
	return nil
}

// allocHoldsParam: the alloc is the spill of parameter par (only store is the parameter).
func allocHoldsParam(a *ssa.Alloc, par *ssa.Parameter) bool {
	n := 0
	ok := false
	for _, ref := range *a.Referrers() {
		if st, isSt := ref.(*ssa.Store); isSt && st.Addr == ssa.Value(a) {
			n++
			if st.Val == ssa.Value(par) {
				ok = true
			}
		}
	}
	return ok && n == 1
}

// sentFlagIsTruthful checks that every store of `true` into the captured
// cell `a` (in fn or its closures) happens in a closure that is created only
// on the err==nil edge of an invoke of ConvergenceSender.Send, and that no
// other non-false store exists.
func sentFlagIsTruthful(p *core.Program, r *core.Report, fn *ssa.Function, a *ssa.Alloc) bool {
	okAll := true
	nTrue := 0
	var visit func(f *ssa.Function, cell ssa.Value, guardOK bool)
	visit = func(f *ssa.Function, cell ssa.Value, guardOK bool) {
		core.EachInstr(f, func(in ssa.Instruction) {
			switch x := in.(type) {
			case *ssa.Store:
				if x.Addr != cell {
					return
				}
				if c, ok := x.Val.(*ssa.Const); ok && c.Value != nil && c.Value.String() == "false" {
					return
				}
				nTrue++
				if !guardOK {
					okAll = false
				}
			case *ssa.MakeClosure:
				cf := x.Fn.(*ssa.Function)
				for i, b := range x.Bindings {
					if b == cell {
						g := guardOK
						conds := core.DominatingConds(x.Block())
						for _, call := range sendInvokes(f) {
							if errNilGuard(conds, call) {
								g = true
							}
						}
						visit(cf, cf.FreeVars[i], g)
					}
				}
			}
		})
	}
	visit(fn, a, false)
	return okAll && nTrue > 0
}

// sendInvokes lists interface invocations of ConvergenceSender.Send in f.
func sendInvokes(f *ssa.Function) []ssa.Value {
	var out []ssa.Value
	core.EachInstr(f, func(in ssa.Instruction) {
		if c, ok := in.(*ssa.Call); ok && c.Common().IsInvoke() && c.Common().Method.Name() == "Send" &&
			core.TypeIs(c.Common().Value.Type(), "pkg/cla", "ConvergenceSender") {
			out = append(out, c)
		}
	})
	return out
}

// buildCallFeeding traces the bundle passed to SendBundle back to the
// BundleBuilder.Build call it came from.
func buildCallFeeding(sb ssa.CallInstruction) *ssa.Call {
	arg := core.Arg(sb, 0)
	var found *ssa.Call
	core.DependsOn(arg, func(v ssa.Value) bool {
		if c, ok := v.(*ssa.Call); ok && core.NameIs(core.CalleeName(c), bp7+".BundleBuilder.Build") {
			found = c
			return true
		}
		return false
	})
	return found
}

// builderChain walks the receiver chain of a fluent builder call.
func builderChain(build *ssa.Call) map[string]*ssa.Call {
	out := map[string]*ssa.Call{}
	cur := core.CallRecv(build)
	for {
		c, ok := cur.(*ssa.Call)
		if !ok {
			return out
		}
		o := core.CalleeObj(c)
		if o == nil {
			return out
		}
		out[o.Name()] = c
		cur = core.CallRecv(c)
		if cur == nil {
			return out
		}
	}
}

// checkHasIsBitTest confirms the library summary used by the flag guards.
func checkHasIsBitTest(p *core.Program, r *core.Report, typ string) {
	fn := p.Func(bp7, typ, "Has")
	ok := false
	rets := core.Returns(fn)
	if len(rets) == 1 && len(rets[0].Results) == 1 {
		if b, isB := rets[0].Results[0].(*ssa.BinOp); isB && b.Op == token.NEQ {
			if and, isA := b.X.(*ssa.BinOp); isA && and.Op == token.AND {
				pa, pb := ssa.Value(fn.Params[0]), ssa.Value(fn.Params[1])
				if (and.X == pa && and.Y == pb) || (and.X == pb && and.Y == pa) {
					if z, isC := core.ConstInt(b.Y); isC && z == 0 {
						ok = true
					}
				}
			}
		}
	}
	r.Check(ok, "summary/"+typ+".Has", "Has(flag) is the pure bit test (x & flag) != 0", p.Pos(fn.Pos()), "", "Has is no longer `x&flag != 0`")
}
