package rules

import (
	"go/constant"
	"go/types"
)

func constantInt(i int64) constant.Value { return constant.MakeInt64(i) }
func tInt() types.Type                   { return types.Typ[types.Int] }
