package rules

import (
	"fmt"
	"go/token"

	"dtnverif/core"

	"golang.org/x/tools/go/ssa"
)

func init() { Registry["C14"] = C14 }

const storagePkg = "pkg/storage"

// reachesFunc: callee (static, or every VTA target of a dynamic call) can
// reach target through repo functions.
func callReaches(p *core.Program, c ssa.CallInstruction, target *ssa.Function) bool {
	var roots []*ssa.Function
	if f := core.Callee(c); f != nil {
		roots = append(roots, f)
	} else if n := p.CallGraph().Nodes[c.Parent()]; n != nil {
		for _, e := range n.Out {
			if e.Site == c && e.Callee.Func != nil {
				roots = append(roots, e.Callee.Func)
			}
		}
	}
	if len(roots) == 0 {
		return false
	}
	reach := p.Reachable(roots, core.IsRepo)
	return reach[target]
}

// checkAssignBeforePersist is the ordering rule shared by C05 and C14.
func checkAssignBeforePersist(p *core.Program, r *core.Report) {
	sb := p.Func(routingPkg, "Core", "SendBundle")
	push := p.Func(storagePkg, "Store", "Push")
	upd := p.Func(routingPkg, "IdKeeper", "update")
	var updCalls, pushCalls []ssa.CallInstruction
	core.EachInstr(sb, func(in ssa.Instruction) {
		c, ok := in.(ssa.CallInstruction)
		if !ok {
			return
		}
		if core.Callee(c) == upd {
			updCalls = append(updCalls, c)
			return
		}
		if callReaches(p, c, push) {
			pushCalls = append(pushCalls, c)
		}
	})
	r.Min("calls in SendBundle that can reach Store.Push", 1)
	r.Count("calls in SendBundle that can reach Store.Push", len(pushCalls))
	rule := "identity is fixed before the bundle is persisted: in Core.SendBundle the sequence number is assigned (IdKeeper.update) before the first call that can reach Store.Push"
	for _, pc := range pushCalls {
		name := core.CalleeName(pc)
		if name == "" {
			name = "dynamic"
		}
		key := "assign-before-persist/" + fname(sb) + "/" + shortName(name)
		ok := len(updCalls) > 0 && core.MustPassBefore(pc, func(i ssa.Instruction) bool {
			for _, u := range updCalls {
				if i == ssa.Instruction(u) {
					return true
				}
			}
			return false
		})
		r.Check(ok, key, rule, p.Pos(pc.Pos()), "IdKeeper.update dominates this call", "this call can push the bundle to the store under its pre-assignment ID (sequence number still 0); bundles with equal source and creation time then share one store record")
	}
	// the keeper's counters are in memory and start at zero after a restart,
	// the store's records do not: the number must be checked against the store.
	checkRule := "the sequence number is checked against the persistent store before the bundle is pushed: every assignment (IdKeeper.update) is followed by a store lookup of the bundle's ID before any call that can reach Store.Push, and that call is reached only on the lookup's not-found outcome (the IdKeeper forgets its counters on a restart, bundles waiting in the store keep their IDs; Store.Push silently drops a bundle whose ID it knows)"
	isLookup := func(i ssa.Instruction) bool {
		c, ok := i.(*ssa.Call)
		if !ok {
			return false
		}
		n := core.CalleeName(c)
		if !core.NameIs(n, storagePkg+".Store.QueryId") && !core.NameIs(n, storagePkg+".Store.KnowsBundle") {
			return false
		}
		// looked up is <the numbered bundle>.ID()
		idc, ok := core.Arg(c, 0).(*ssa.Call)
		if !ok || !core.NameIs(core.CalleeName(idc), bp7+".Bundle.ID") || len(updCalls) == 0 {
			return false
		}
		recv := core.CallRecv(idc)
		if ld, isLd := recv.(*ssa.UnOp); isLd && ld.Op == token.MUL {
			recv = ld.X // value receiver: ID is called on *bndl
		}
		return recv == core.Arg(updCalls[0], 0)
	}
	isPush := func(i ssa.Instruction) bool {
		for _, pc := range pushCalls {
			if i == ssa.Instruction(pc) {
				return true
			}
		}
		return false
	}
	for i, u := range updCalls {
		ok, ex := core.MustPassAfter(u, isLookup, isPush)
		d := ""
		if !ok {
			d = "path from this assignment to " + p.Pos(ex.Pos()) + " without a store lookup of the new ID: after a restart the counter restarts at 0 and the bundle takes the ID of one still waiting in the store; Store.Push ignores it as a duplicate"
		}
		r.Check(ok, fmt.Sprintf("assign-before-persist/%s/number-checked-against-store/update#%d", fname(sb), i), checkRule, p.Pos(u.Pos()), "", d)
	}
	for _, pc := range pushCalls {
		conds := core.DominatingConds(pc.Block())
		ok := false
		for _, c := range conds {
			if call, isC := core.CondIsCall(c, storagePkg+".Store.KnowsBundle"); isC && !c.True && isLookup(call) {
				ok = true
			}
			if x, isNil, isN := core.NilCmp(c); isN && !isNil {
				if ex, isEx := x.(*ssa.Extract); isEx {
					if call, isCall := ex.Tuple.(*ssa.Call); isCall && isLookup(call) {
						ok = true
					}
				}
			}
		}
		r.Check(ok, "assign-before-persist/"+fname(sb)+"/push-only-when-id-unknown/"+shortName(core.CalleeName(pc)), checkRule, p.Pos(pc.Pos()), "", "this call is not dominated by the not-found outcome of a store lookup of the bundle's ID; "+condStrings(conds))
	}
	// nothing reachable from SendBundle assigns a sequence number after the push (transmit)
	for _, cs := range allCallSites(p, routingPkg+".IdKeeper.update") {
		fn := cs.Parent()
		if !p.DaemonReachable()[fn] {
			continue
		}
		r.Check(fn == sb, "assign-before-persist/who-may-call/IdKeeper.update/"+fname(fn), "the sequence number is assigned only in Core.SendBundle (so the stored ID and the transmitted ID are the same value)", p.Pos(cs.Pos()), "", "IdKeeper.update is called outside SendBundle: the number changes after the descriptor (store key) was created")
	}
	// the descriptor is built from the bundle as it is after the update
	for _, dc := range core.CallsTo(sb, routingPkg+".NewBundleDescriptorFromBundle") {
		arg := core.Arg(dc, 0)
		ld, ok := arg.(*ssa.UnOp)
		okLoad := ok && len(updCalls) > 0 && ld.X == core.Arg(updCalls[0], 0) &&
			core.MustPassBefore(ld, func(i ssa.Instruction) bool { return i == ssa.Instruction(updCalls[0]) })
		r.Check(okLoad, "assign-before-persist/"+fname(sb)+"/descriptor-from-updated-bundle", "the descriptor (and with it the store key) is created from the very bundle IdKeeper.update has numbered", p.Pos(dc.Pos()), "", "the descriptor's bundle is not a copy taken after update(bndl)")
	}
}

func shortName(n string) string {
	if len(n) > len(core.ModPath)+1 && n[:len(core.ModPath)] == core.ModPath {
		return n[len(core.ModPath)+1:]
	}
	return n
}

// C14 — locally originated bundles get distinct IDs, in store and on the wire.
func C14(p *core.Program, r *core.Report) {
	r.Explanation = "(OR) on every path of Core.SendBundle the sequence number is assigned before any call that can reach Store.Push (call graph closed over repo functions), and nowhere else afterwards; (AT) every access to IdKeeper.data holds IdKeeper.mutex and the read, increment and the store of the number into the bundle are inside one exclusive region; (FW/who-may-call) one origination funnel: descriptors for new bundles are created only in SendBundle and the reception arm, Store.Push is reached only through BundleDescriptor.Sync, the sequence-number cell has three writers. Not decided: uniqueness across the IdKeeper.clean horizon (time arithmetic), crash/restart (the keeper is in memory)."
	r.Assumptions = append(r.Assumptions, "two bundles with equal (source, creation time) get different numbers iff the counter update is atomic and numbers are assigned before use as a key")

	checkAssignBeforePersist(p, r)
	checkSequenceStateRestored(p, r)

	// AT: IdKeeper.data
	g := newGuardedEngine(p)
	n := g.checkGuarded(r, []guardedField{{routingPkg, "IdKeeper", "data", "pkg/routing.IdKeeper.mutex"}, {routingPkg, "IdKeeper", "lastUse", "pkg/routing.IdKeeper.mutex"}}, true)
	r.Min("accesses to IdKeeper.data", 4)
	r.Count("accesses to IdKeeper.data", n)
	// the store of the number into the bundle is in the same region as the map update
	upd := p.Func(routingPkg, "IdKeeper", "update")
	ls := core.ComputeLockSets(upd)
	var seqStores []*ssa.Store
	var updates []*ssa.MapUpdate
	core.EachInstr(upd, func(in ssa.Instruction) {
		switch x := in.(type) {
		case *ssa.Store:
			if isSeqNoAddr(x.Addr) {
				seqStores = append(seqStores, x)
			}
		case *ssa.MapUpdate:
			updates = append(updates, x)
		}
	})
	r.Min("sequence-number stores in IdKeeper.update", 1)
	r.Count("sequence-number stores in IdKeeper.update", len(seqStores))
	for _, st := range seqStores {
		ok := len(updates) > 0
		for _, mu := range updates {
			if !ls.SameWriteRegion(mu, st, "pkg/routing.IdKeeper.mutex") {
				ok = false
			}
		}
		r.Check(ok, "atomic-rmw/"+fname(upd)+"/number-into-bundle", "the number written into the bundle is read in the same exclusive region that incremented the counter", p.Pos(st.Pos()), "", "the bundle's number is stored outside the region of the counter update: two concurrent submissions can read the same counter value")
		// value comes from the map
		okVal := core.DependsOn(st.Val, func(v ssa.Value) bool {
			l, isL := v.(*ssa.Lookup)
			return isL && pathEndsWith(l.X, "data")
		})
		r.Check(okVal, "atomic-rmw/"+fname(upd)+"/number-from-counter", "the bundle's sequence number is the counter value", p.Pos(st.Pos()), "", "stored value does not come from IdKeeper.data")
	}
	// a counter is forgotten only by the time of its last use, which update
	// records in the region that assigns the number. (Forgetting by the bundles'
	// creation time hands out 0 again and again for an application-supplied old
	// time stamp: equal IDs, and a SendBundle that never finds a free number.)
	nDel := 0
	for _, fn := range p.RepoFuncs() {
		core.EachInstr(fn, func(in ssa.Instruction) {
			c, ok := in.(*ssa.Call)
			if !ok {
				return
			}
			b, ok := c.Common().Value.(*ssa.Builtin)
			if !ok || b.Name() != "delete" || !core.IsField(fieldAddrOfLoad(c.Common().Args[0]), routingPkg, "IdKeeper", "data") {
				return
			}
			nDel++
			key := c.Common().Args[1]
			okLU, why := false, "the deletion is not guarded by a comparison of a per-tuple time that IdKeeper.update records"
			for _, cd := range core.DominatingConds(c.Block()) {
				bo, ok := cd.V.(*ssa.BinOp)
				if !ok {
					continue
				}
				for _, opnd := range []ssa.Value{bo.X, bo.Y} {
					lk, ok := opnd.(*ssa.Lookup)
					if !ok || !(lk.Index == key || core.SameLoad(lk.Index, key)) {
						continue
					}
					fa := fieldAddrOfLoad(lk.X)
					owner, field, ok := core.FieldOwner(fa)
					if !ok || owner.Obj().Name() != "IdKeeper" || field == "data" {
						continue
					}
					// update records the current time under that map in the counter's region
					for _, mu := range updates {
						if core.IsField(fieldAddrOfLoad(mu.Map), routingPkg, "IdKeeper", field) {
							if tc, isCall := core.Strip(mu.Value).(*ssa.Call); isCall && core.NameIs(core.CalleeName(tc), bp7+".DtnTimeNow") {
								okLU = true
							}
						}
					}
				}
			}
			r.Check(okLU, "keeper-forgets/"+fname(fn)+"/by-last-use", "IdKeeper forgets a (source, creation time) counter only by the time of its last use, recorded by update() together with the number (never by the bundles' own creation time, which an application may choose freely)", p.Pos(c.Pos()), "", why)
		})
	}
	r.Count("deletions from IdKeeper.data", nDel)
	r.Min("deletions from IdKeeper.data", 1)

	// the counter is kept per (source node, creation time): the key must not contain the sequence number it assigns
	nit := p.Func(routingPkg, "", "newIdTuple")
	okSrc, okTime := false, false
	timeDetail := ""
	core.EachInstr(nit, func(in ssa.Instruction) {
		st, ok := in.(*ssa.Store)
		if !ok {
			return
		}
		owner, f, ok := core.FieldOwner(st.Addr)
		if !ok || owner == nil || owner.Obj().Name() != "idTuple" {
			return
		}
		switch f {
		case "source":
			okSrc = pathEndsWith(st.Val, "PrimaryBlock", "SourceNode")
		case "time":
			// exactly the DTN time part: CreationTimestamp.DtnTime() or element [0]
			if c, isC := st.Val.(*ssa.Call); isC && core.NameIs(core.CalleeName(c), bp7+".CreationTimestamp.DtnTime") && pathEndsWith(core.CallRecv(c), "PrimaryBlock", "CreationTimestamp") {
				okTime = true
			} else if core.TypeIs(st.Val.Type(), bp7, "CreationTimestamp") {
				timeDetail = "the key contains the whole creation timestamp, i.e. also the sequence number the bundle happens to carry: bundles submitted with different sequence numbers each start a counter of their own and are all renumbered to 0"
			} else {
				timeDetail = "the time component is " + valStr(st.Val)
			}
		}
	})
	r.Check(okSrc && okTime, "counter/"+fname(nit)+"/key", "the sequence counter is keyed by (source node, DTN time of the creation timestamp) — not by anything that includes the sequence number being assigned — so bundles with equal source and creation time share one counter whatever number they were submitted with", p.Pos(nit.Pos()), "", fmt.Sprintf("source from PrimaryBlock.SourceNode: %v; time from CreationTimestamp.DtnTime(): %v; %s", okSrc, okTime, timeDetail))
	// update() uses that key for lookup and store
	for _, mu := range updates {
		okKey := core.DependsOn(mu.Key, func(v ssa.Value) bool {
			c, ok := v.(*ssa.Call)
			return ok && core.Callee(c) == nit
		})
		r.Check(okKey, "counter/"+fname(upd)+"/uses-key", "the counter map is indexed with newIdTuple(bundle)", p.Pos(mu.Pos()), "", "map key is not the idTuple of the bundle")
	}

	// increment by exactly one / start at zero
	var counterUpdates []*ssa.MapUpdate
	for _, mu := range updates {
		if pathEndsWith(mu.Map, "data") {
			counterUpdates = append(counterUpdates, mu)
		}
	}
	r.Count("updates of the counter map in IdKeeper.update", len(counterUpdates))
	r.Min("updates of the counter map in IdKeeper.update", 1)
	for i, mu := range counterUpdates {
		pl, err := (&symbolizer{sym: func(v ssa.Value) (string, bool) {
			if ex, ok := v.(*ssa.Extract); ok {
				if l, ok := ex.Tuple.(*ssa.Lookup); ok && pathEndsWith(l.X, "data") && ex.Index == 0 {
					return "state", true
				}
			}
			if l, ok := v.(*ssa.Lookup); ok && pathEndsWith(l.X, "data") {
				return "state", true
			}
			return "", false
		}}).toPoly(mu.Value, 0)
		key := fmt.Sprintf("counter/%s/update#%d", fname(upd), i)
		if err != nil {
			r.Unknown(key, "counter update is state+1 or 0", p.Pos(mu.Pos()), err.Error())
			continue
		}
		ok := polyEq(pl, map[string]float64{"state": 1, "": 1}) || len(pl.clean()) == 0
		r.Check(ok, key, "the counter is incremented by one for a known (source,time) and starts at 0 otherwise", p.Pos(mu.Pos()), pl.String(), "new = "+pl.String())
	}

	// FW: writers of CreationTimestamp[1]
	allowedSeq := map[string]bool{
		"pkg/routing.IdKeeper.update":              true,
		"pkg/bpv7.CreationTimestamp.UnmarshalCbor": true,
		"pkg/bpv7.NewCreationTimestamp":            true,
	}
	nW := 0
	for _, fn := range p.RepoFuncs() {
		core.EachInstr(fn, func(in ssa.Instruction) {
			st, ok := in.(*ssa.Store)
			if !ok || !isSeqNoAddr(st.Addr) {
				return
			}
			nW++
			if !p.DaemonReachable()[fn] {
				r.Note("who-may-write/sequence-number/"+fname(fn), "writer not reachable from cmd/dtnd", p.Pos(st.Pos()), "")
				return
			}
			r.Check(allowedSeq[fname(fn)], "who-may-write/sequence-number/"+fname(fn), "the sequence number of a creation timestamp is written only by IdKeeper.update, the constructor and the decoder", p.Pos(st.Pos()), "", "unexpected writer of CreationTimestamp[1]")
		})
	}
	r.Min("writers of CreationTimestamp[1]", 1)
	r.Count("writers of CreationTimestamp[1]", nW)

	// funnel: who creates descriptors from bundles / who pushes
	allowedDesc := map[string]bool{"pkg/routing.Core.SendBundle": true, "pkg/routing.Core.handler": true}
	for _, cs := range allCallSites(p, routingPkg+".NewBundleDescriptorFromBundle") {
		fn := cs.Parent()
		if !p.DaemonReachable()[fn] {
			r.Note("funnel/NewBundleDescriptorFromBundle/"+fname(fn), "call site not reachable from cmd/dtnd (mock pipeline)", p.Pos(cs.Pos()), "")
			continue
		}
		r.Check(allowedDesc[fname(fn)], "funnel/NewBundleDescriptorFromBundle/"+fname(fn), "bundles enter the store only through SendBundle (own bundles, numbered first) or the reception arm of Core.handler", p.Pos(cs.Pos()), "", "another function files a bundle in the store without the numbering of SendBundle")
	}
	for _, cs := range allCallSites(p, storagePkg+".Store.Push") {
		fn := cs.Parent()
		r.Check(fname(fn) == "pkg/routing.BundleDescriptor.Sync", "funnel/Store.Push/"+fname(fn), "Store.Push is called only by BundleDescriptor.Sync", p.Pos(cs.Pos()), "", "unexpected caller of Store.Push")
	}
	// originators go through SendBundle
	for _, name := range []string{"pkg/routing.AgentManager.handleMessage", "pkg/routing.Core.SendStatusReport", "pkg/routing.sendMetadataBundle"} {
		var fn *ssa.Function
		switch name {
		case "pkg/routing.AgentManager.handleMessage":
			fn = p.Func(routingPkg, "AgentManager", "handleMessage")
		case "pkg/routing.Core.SendStatusReport":
			fn = p.Func(routingPkg, "Core", "SendStatusReport")
		default:
			fn = p.Func(routingPkg, "", "sendMetadataBundle")
		}
		n := len(core.CallsTo(fn, routingPkg+".Core.SendBundle"))
		direct := len(core.CallsTo(fn, routingPkg+".Core.transmit")) + len(core.CallsTo(fn, routingPkg+".Core.dispatching")) + len(core.CallsTo(fn, routingPkg+".NewBundleDescriptorFromBundle"))
		r.Check(n >= 1 && direct == 0, "funnel/originator/"+name, "every originator of bundles (applications, status reports, routing metadata) submits through Core.SendBundle", p.Pos(fn.Pos()), "", fmt.Sprintf("SendBundle calls=%d, bypassing calls=%d", n, direct))
	}
	// the store key derives from the scrubbed ID
	nbi := p.Func(storagePkg, "", "newBundleItem")
	okKey := false
	core.EachInstr(nbi, func(in ssa.Instruction) {
		st, ok := in.(*ssa.Store)
		if !ok || !core.IsField(st.Addr, storagePkg, "BundleItem", "Id") {
			return
		}
		if c, ok := st.Val.(*ssa.Call); ok && core.NameIs(core.CalleeName(c), bp7+".BundleID.String") {
			if c2, ok := core.CallRecv(c).(*ssa.Call); ok && core.NameIs(core.CalleeName(c2), bp7+".BundleID.Scrub") {
				okKey = true
			}
		}
	})
	r.Check(okKey, "store-key/"+fname(nbi)+"/Id", "the store key is BundleID.Scrub().String() of the bundle being filed", p.Pos(nbi.Pos()), "", "BundleItem.Id is not derived from the scrubbed bundle ID")
	// BundleID.String includes the sequence number: Timestamp printed
	bs := p.Func(bp7, "BundleID", "String")
	okSeq := false
	core.EachInstr(bs, func(in ssa.Instruction) {
		if _, path, ok := fieldRefOf(in); ok && len(path) > 0 && path[len(path)-1] == "Timestamp" {
			okSeq = true
		}
	})
	r.Check(okSeq, "store-key/"+fname(bs)+"/includes-timestamp", "the textual bundle ID includes the creation timestamp (time and sequence number)", p.Pos(bs.Pos()), "", "BundleID.String no longer reads Timestamp")
}

func fieldRefOf(in ssa.Instruction) (ssa.Value, []string, bool) {
	v, ok := in.(ssa.Value)
	if !ok {
		return nil, nil, false
	}
	switch v.(type) {
	case *ssa.FieldAddr, *ssa.Field:
		return core.FieldRef(v)
	}
	return nil, nil, false
}

// isSeqNoAddr: &x.CreationTimestamp[1] or &ts[1] for a CreationTimestamp.
func isSeqNoAddr(v ssa.Value) bool {
	ia, ok := v.(*ssa.IndexAddr)
	if !ok {
		return false
	}
	k, isC := core.ConstInt(ia.Index)
	if !isC || k != 1 {
		return false
	}
	return core.TypeIs(ia.X.Type(), bp7, "CreationTimestamp")
}

// fieldAddrOfLoad: for a load *(&x.f) returns &x.f, otherwise v itself.
func fieldAddrOfLoad(v ssa.Value) ssa.Value {
	if u, ok := v.(*ssa.UnOp); ok && u.Op == token.MUL {
		return u.X
	}
	return v
}
