package core

import (
	"go/types"
	"sort"
	"strings"

	"golang.org/x/tools/go/ssa"
)

// LockEpoch is one acquisition of a mutex that is in force at a program
// point: the mutex (field-based: owner type + field), the mode, and the
// acquiring call, which identifies the critical region.
type LockEpoch struct {
	Mutex string // "pkg.Type.field"
	Write bool
	Acq   ssa.Instruction
}

// LockSets maps every instruction of a function to the lock epochs that are
// held on every path reaching it (a forward must-analysis). A deferred unlock
// never releases within the function body, so the epoch extends to all exits.
type LockSets struct {
	At map[ssa.Instruction][]LockEpoch
}

// MutexKey names the mutex whose address is v ("" if v is not a field or
// global of a sync mutex type).
func MutexKey(v ssa.Value) string {
	switch x := v.(type) {
	case *ssa.FieldAddr:
		owner, f, ok := FieldOwner(x)
		if !ok {
			return ""
		}
		name := "?"
		if owner != nil {
			name = owner.Obj().Pkg().Path() + "." + owner.Obj().Name()
		}
		return strings.TrimPrefix(name, ModPath+"/") + "." + f
	case *ssa.Global:
		return strings.TrimPrefix(x.Pkg.Pkg.Path(), ModPath+"/") + "." + x.Name()
	case *ssa.Alloc:
		return "local." + x.Comment
	case *ssa.FreeVar:
		return "local." + x.Name()
	}
	return ""
}

func lockOp(c ssa.CallInstruction) (mutex string, acquire, write bool, ok bool) {
	o := CalleeObj(c)
	if o == nil || o.Pkg() == nil || o.Pkg().Path() != "sync" {
		return "", false, false, false
	}
	sig := o.Type().(*types.Signature)
	if sig.Recv() == nil {
		return "", false, false, false
	}
	rt := sig.Recv().Type()
	if p, isP := rt.(*types.Pointer); isP {
		rt = p.Elem()
	}
	n, isN := rt.(*types.Named)
	if !isN || (n.Obj().Name() != "Mutex" && n.Obj().Name() != "RWMutex") {
		return "", false, false, false
	}
	recv := CallRecv(c)
	if recv == nil {
		return "", false, false, false
	}
	key := MutexKey(recv)
	switch o.Name() {
	case "Lock":
		return key, true, true, true
	case "RLock":
		return key, true, false, true
	case "Unlock":
		return key, false, true, true
	case "RUnlock":
		return key, false, false, true
	}
	return "", false, false, false
}

// ComputeLockSets runs the must-analysis on fn.
func ComputeLockSets(fn *ssa.Function) *LockSets {
	type state map[LockEpoch]bool
	in := map[*ssa.BasicBlock]state{}
	out := map[*ssa.BasicBlock]state{}
	ls := &LockSets{At: map[ssa.Instruction][]LockEpoch{}}
	if len(fn.Blocks) == 0 {
		return ls
	}
	copyState := func(s state) state {
		n := state{}
		for k := range s {
			n[k] = true
		}
		return n
	}
	transfer := func(b *ssa.BasicBlock, s state, record bool) state {
		s = copyState(s)
		for _, instr := range b.Instrs {
			if record {
				var eps []LockEpoch
				for e := range s {
					eps = append(eps, e)
				}
				sort.Slice(eps, func(i, j int) bool { return eps[i].Mutex < eps[j].Mutex })
				ls.At[instr] = eps
			}
			c, isCall := instr.(ssa.CallInstruction)
			if !isCall {
				continue
			}
			if _, isDefer := instr.(*ssa.Defer); isDefer {
				continue // deferred unlock: held until exit
			}
			if _, isGo := instr.(*ssa.Go); isGo {
				continue
			}
			m, acq, w, ok := lockOp(c)
			if !ok || m == "" {
				continue
			}
			if acq {
				s[LockEpoch{Mutex: m, Write: w, Acq: instr}] = true
			} else {
				for e := range s {
					if e.Mutex == m && e.Write == w {
						delete(s, e)
					}
				}
			}
		}
		return s
	}
	// iterate to fixpoint; unreached blocks are "top" (nil)
	in[fn.Blocks[0]] = state{}
	changed := true
	for changed {
		changed = false
		for _, b := range fn.Blocks {
			var s state
			if b == fn.Blocks[0] {
				s = state{}
			} else {
				first := true
				for _, p := range b.Preds {
					po, ok := out[p]
					if !ok {
						continue // top
					}
					if first {
						s = copyState(po)
						first = false
					} else {
						for k := range s {
							if !po[k] {
								delete(s, k)
							}
						}
					}
				}
				if first {
					continue
				}
			}
			o := transfer(b, s, false)
			old, had := out[b]
			if !had || len(old) != len(o) {
				changed = true
			} else {
				for k := range o {
					if !old[k] {
						changed = true
					}
				}
			}
			in[b] = s
			out[b] = o
		}
	}
	for _, b := range fn.Blocks {
		if s, ok := in[b]; ok {
			transfer(b, s, true)
		}
	}
	return ls
}

// Held reports whether mutex (any mode, or write mode if needWrite) is held
// at instr, returning the epoch.
func (ls *LockSets) Held(instr ssa.Instruction, mutex string, needWrite bool) (LockEpoch, bool) {
	for _, e := range ls.At[instr] {
		if e.Mutex == mutex && (e.Write || !needWrite) {
			return e, true
		}
	}
	return LockEpoch{}, false
}

// SameWriteRegion reports whether a and b are both executed under one
// acquisition of a write lock (any mutex, or the named one if mutex != "").
func (ls *LockSets) SameWriteRegion(a, b ssa.Instruction, mutex string) bool {
	for _, ea := range ls.At[a] {
		if !ea.Write || (mutex != "" && ea.Mutex != mutex) {
			continue
		}
		for _, eb := range ls.At[b] {
			if ea == eb {
				return true
			}
		}
	}
	return false
}

// HeldNames renders the held mutexes at instr.
func (ls *LockSets) HeldNames(instr ssa.Instruction) string {
	var s []string
	for _, e := range ls.At[instr] {
		m := "R:"
		if e.Write {
			m = "W:"
		}
		s = append(s, m+e.Mutex)
	}
	return "{" + strings.Join(s, ",") + "}"
}
