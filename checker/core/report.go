package core

import (
	"bufio"
	"encoding/json"
	"fmt"
	"os"
	"sort"
	"strings"
	"time"
)

// Status of an obligation.
type Status string

const (
	Discharged Status = "discharged"
	Violated   Status = "violated"
	UndecidedS Status = "undecided"
	Info       Status = "info" // inventory / cross-reference, no verdict
)

// Obligation is one rule instance with its verdict.
type Obligation struct {
	Key    string `json:"key"`  // rule/function/construct — never a line number
	Rule   string `json:"rule"` // rule text
	Status Status `json:"status"`
	Pos    string `json:"pos,omitempty"`
	Detail string `json:"detail,omitempty"`
	Known  bool   `json:"known_finding,omitempty"`
}

// Report collects the obligations of one property run.
type Report struct {
	Prop        string
	Tier        string
	Obls        []*Obligation
	Assumptions []string
	Explanation string
	Analysed    map[string]interface{}
	mins        map[string]int
	allCounts   map[string]interface{}
	counts      map[string]int
	start       time.Time
}

func NewReport(prop, tier string) *Report {
	return &Report{Prop: prop, Tier: tier, Analysed: map[string]interface{}{}, allCounts: map[string]interface{}{}, mins: map[string]int{}, counts: map[string]int{}, start: time.Now()}
}

func (r *Report) add(key, rule string, st Status, pos, detail string) *Obligation {
	for _, o := range r.Obls {
		if o.Key == key {
			// the same construct reached twice (e.g. two configurations): keep the worst
			if rank(st) > rank(o.Status) {
				o.Status, o.Pos, o.Detail = st, pos, detail
			}
			return o
		}
	}
	o := &Obligation{Key: key, Rule: rule, Status: st, Pos: pos, Detail: detail}
	r.Obls = append(r.Obls, o)
	return o
}

func rank(s Status) int {
	switch s {
	case Violated:
		return 3
	case UndecidedS:
		return 2
	case Discharged:
		return 1
	}
	return 0
}

// OK records a discharged obligation.
func (r *Report) OK(key, rule, pos, detail string) { r.add(key, rule, Discharged, pos, detail) }

// Fail records a violated obligation.
func (r *Report) Fail(key, rule, pos, detail string) { r.add(key, rule, Violated, pos, detail) }

// Unknown records an obligation the rule could not decide.
func (r *Report) Unknown(key, rule, pos, detail string) { r.add(key, rule, UndecidedS, pos, detail) }

// Note records an inventory item without verdict.
func (r *Report) Note(key, rule, pos, detail string) { r.add(key, rule, Info, pos, detail) }

// Check records OK or Fail depending on cond.
func (r *Report) Check(cond bool, key, rule, pos, okDetail, failDetail string) bool {
	if cond {
		r.OK(key, rule, pos, okDetail)
	} else {
		r.Fail(key, rule, pos, failDetail)
	}
	return cond
}

// NewConfig resets the vacuity counters before the rules run on another build
// configuration (floors are per configuration).
func (r *Report) NewConfig() {
	r.checkFloors()
	r.counts = map[string]int{}
	r.mins = map[string]int{}
}

func (r *Report) checkFloors() {
	for name, min := range r.mins {
		if r.counts[name] < min {
			r.Unknown("vacuity/"+name, "rule instance count must not fall below the number confirmed by reading the tree", "",
				fmt.Sprintf("%d instances found, floor is %d", r.counts[name], min))
		}
	}
	for k, v := range r.counts {
		r.allCounts[k] = map[string]int{"found": v, "floor": r.mins[k]}
	}
}

// Count adds n instances to a vacuity counter; Min states the floor confirmed
// by reading the pinned tree.
func (r *Report) Count(name string, n int) { r.counts[name] += n }
func (r *Report) Min(name string, min int) {
	r.mins[name] = min
	if _, ok := r.counts[name]; !ok {
		r.counts[name] = 0
	}
}

// KnownFindings is the committed file of triaged findings.
type KnownFindings struct {
	Known map[string]string // "Cxx key" -> description
	Fixed []string
}

func LoadKnown(path string) (*KnownFindings, error) {
	kf := &KnownFindings{Known: map[string]string{}}
	f, err := os.Open(path)
	if err != nil {
		if os.IsNotExist(err) {
			return kf, nil
		}
		return nil, err
	}
	defer f.Close()
	sc := bufio.NewScanner(f)
	for sc.Scan() {
		line := strings.TrimSpace(sc.Text())
		if line == "" || strings.HasPrefix(line, "#") {
			continue
		}
		if strings.HasPrefix(line, "fixed:") {
			kf.Fixed = append(kf.Fixed, line)
			continue
		}
		if strings.HasPrefix(line, "known:") {
			// known: property=C13 key=<key> :: description
			rest := strings.TrimSpace(strings.TrimPrefix(line, "known:"))
			parts := strings.SplitN(rest, "::", 2)
			fields := strings.Fields(parts[0])
			var prop, key string
			for _, fl := range fields {
				if strings.HasPrefix(fl, "property=") {
					prop = strings.TrimPrefix(fl, "property=")
				}
				if strings.HasPrefix(fl, "key=") {
					key = strings.TrimPrefix(fl, "key=")
				}
			}
			desc := ""
			if len(parts) > 1 {
				desc = strings.TrimSpace(parts[1])
			}
			if prop != "" && key != "" {
				kf.Known[prop+" "+key] = desc
			}
		}
	}
	return kf, sc.Err()
}

// Finish prints the human-readable report, writes the evidence file and
// returns the exit code (0 held, 1 violation, 2 undecided).
func (r *Report) Finish(kf *KnownFindings, evidencePath string, seed int) int {
	sort.SliceStable(r.Obls, func(i, j int) bool { return r.Obls[i].Key < r.Obls[j].Key })
	nViol, nKnown, nUndec, nOK, nInfo := 0, 0, 0, 0, 0
	r.checkFloors()
	sort.SliceStable(r.Obls, func(i, j int) bool { return r.Obls[i].Key < r.Obls[j].Key })
	for _, o := range r.Obls {
		switch o.Status {
		case Violated:
			if desc, ok := kf.Known[r.Prop+" "+o.Key]; ok {
				o.Known = true
				nKnown++
				fmt.Printf("KNOWN-FINDING: property=%s %s at %s: %s (%s)\n", r.Prop, o.Key, o.Pos, o.Detail, desc)
			} else {
				nViol++
				fmt.Printf("violated   %s\n    at %s\n    rule: %s\n    %s\n", o.Key, o.Pos, o.Rule, o.Detail)
			}
		case UndecidedS:
			nUndec++
			fmt.Printf("UNDECIDED  %s\n    at %s\n    rule: %s\n    %s\n", o.Key, o.Pos, o.Rule, o.Detail)
		case Discharged:
			nOK++
		case Info:
			nInfo++
		}
	}
	wall := time.Since(r.start).Seconds()
	fmt.Printf("%s tier=%s: %d obligations: %d discharged, %d violated, %d known findings, %d undecided, %d inventory notes (%.1fs)\n",
		r.Prop, r.Tier, nOK+nViol+nKnown+nUndec, nOK, nViol, nKnown, nUndec, nInfo, wall)

	samples := []interface{}{}
	for _, o := range r.Obls {
		if o.Status == Info {
			continue
		}
		samples = append(samples, o)
	}
	notes := []interface{}{}
	for _, o := range r.Obls {
		if o.Status == Info {
			notes = append(notes, o)
		}
	}
	counts := r.allCounts
	cov := map[string]interface{}{
		"obligations":     nOK + nViol + nKnown + nUndec,
		"discharged":      nOK,
		"violated":        nViol,
		"known_findings":  nKnown,
		"undecided":       nUndec,
		"explanation":     r.Explanation,
		"samples":         samples,
		"inventory":       notes,
		"instance_counts": counts,
		"analysed":        r.Analysed,
		"checker_cmd":     strings.Join(os.Args, " "),
		"trusted_base":    []string{"go/types", "go/ssa (x/tools v0.29.0)", "library summaries listed under assumptions"},
		"exhaustive":      false,
	}
	if r.Assumptions == nil {
		r.Assumptions = []string{"library summaries named in the rule texts"}
	}
	ev := map[string]interface{}{
		"property_id": r.Prop,
		"tier":        r.Tier,
		"seed":        seed,
		"level":       "other",
		"coverage":    cov,
		"assumptions": r.Assumptions,
		"wall_s":      wall,
		"violations":  nViol,
	}
	if evidencePath != "" {
		b, _ := json.MarshalIndent(ev, "", " ")
		if err := os.WriteFile(evidencePath, append(b, '\n'), 0o644); err != nil {
			fmt.Printf("UNDECIDED cannot write evidence: %v\n", err)
			return 2
		}
	}
	if nViol > 0 {
		fmt.Printf("VIOLATION property=%s replay=%s\n", r.Prop, evidencePath)
		return 1
	}
	if nUndec > 0 {
		fmt.Printf("UNDECIDED property=%s: the analysis could not decide %d obligation(s)\n", r.Prop, nUndec)
		return 2
	}
	return 0
}
