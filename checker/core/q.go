package core

import (
	"go/constant"
	"go/token"
	"go/types"
	"sort"
	"strings"

	"golang.org/x/tools/go/callgraph"
	"golang.org/x/tools/go/callgraph/cha"
	"golang.org/x/tools/go/callgraph/vta"
	"golang.org/x/tools/go/ssa"
	"golang.org/x/tools/go/ssa/ssautil"
)

// ---------- calls ----------

// Callee returns the statically resolved callee of a call instruction, or nil
// for dynamic calls.
func Callee(c ssa.CallInstruction) *ssa.Function {
	return c.Common().StaticCallee()
}

// CalleeObj returns the types.Func called: the static callee's object or the
// interface method for invoke-mode calls.
func CalleeObj(c ssa.CallInstruction) *types.Func {
	cc := c.Common()
	if cc.IsInvoke() {
		return cc.Method
	}
	if f := cc.StaticCallee(); f != nil {
		if o, ok := f.Object().(*types.Func); ok {
			return o
		}
	}
	return nil
}

// CalleeName renders "pkgpath.Recv.Name" or "pkgpath.Name" for the callee of
// c (works for invoke-mode calls, too). Empty for closures/dynamic values.
func CalleeName(c ssa.CallInstruction) string {
	o := CalleeObj(c)
	if o == nil {
		if b, ok := c.Common().Value.(*ssa.Builtin); ok {
			return "builtin." + b.Name()
		}
		return ""
	}
	return ObjName(o)
}

// ObjName renders a function object as pkgpath.Recv.Name.
func ObjName(o *types.Func) string {
	pkg := ""
	if o.Pkg() != nil {
		pkg = o.Pkg().Path()
	}
	sig := o.Type().(*types.Signature)
	if r := sig.Recv(); r != nil {
		t := r.Type()
		if p, ok := t.(*types.Pointer); ok {
			t = p.Elem()
		}
		if n, ok := t.(*types.Named); ok {
			return pkg + "." + n.Obj().Name() + "." + o.Name()
		}
		return pkg + ".?." + o.Name()
	}
	return pkg + "." + o.Name()
}

// CallArgs returns the arguments of a call without the receiver.
func CallArgs(c ssa.CallInstruction) []ssa.Value {
	cc := c.Common()
	if cc.IsInvoke() {
		return cc.Args
	}
	if f := cc.StaticCallee(); f != nil && f.Signature.Recv() != nil && len(cc.Args) > 0 {
		return cc.Args[1:]
	}
	return cc.Args
}

// missingArg stands for an argument a call does not have (the callee's
// signature changed): it compares unequal to everything a rule looks for, so
// the obligation fails instead of the checker panicking.
var missingArg = ssa.NewConst(nil, types.Typ[types.UntypedNil])

// Arg returns the i-th argument (without receiver) or a placeholder.
func Arg(c ssa.CallInstruction, i int) ssa.Value {
	if c == nil {
		return missingArg
	}
	a := CallArgs(c)
	if i < 0 || i >= len(a) {
		return missingArg
	}
	return a[i]
}

// CallRecv returns the receiver value of a method call (nil for functions).
func CallRecv(c ssa.CallInstruction) ssa.Value {
	cc := c.Common()
	if cc.IsInvoke() {
		return cc.Value
	}
	if f := cc.StaticCallee(); f != nil && f.Signature.Recv() != nil && len(cc.Args) > 0 {
		return cc.Args[0]
	}
	return nil
}

// EachInstr visits every instruction of fn (not of nested closures).
func EachInstr(fn *ssa.Function, f func(ssa.Instruction)) {
	for _, b := range fn.Blocks {
		for _, in := range b.Instrs {
			f(in)
		}
	}
}

// EachInstrDeep visits fn and all anonymous functions nested in it.
func EachInstrDeep(fn *ssa.Function, f func(*ssa.Function, ssa.Instruction)) {
	EachInstr(fn, func(in ssa.Instruction) { f(fn, in) })
	for _, a := range fn.AnonFuncs {
		EachInstrDeep(a, f)
	}
}

// CallsTo returns the call instructions in fn (shallow) whose callee name
// (see CalleeName) has the given suffix after the module prefix is cut, e.g.
// "pkg/bpv7.Bundle.CheckValid" or an absolute "bytes.Equal".
func CallsTo(fn *ssa.Function, name string) []ssa.CallInstruction {
	var out []ssa.CallInstruction
	EachInstr(fn, func(in ssa.Instruction) {
		if c, ok := in.(ssa.CallInstruction); ok && NameIs(CalleeName(c), name) {
			out = append(out, c)
		}
	})
	return out
}

// CallsToDeep is CallsTo including nested closures.
func CallsToDeep(fn *ssa.Function, name string) []ssa.CallInstruction {
	var out []ssa.CallInstruction
	EachInstrDeep(fn, func(_ *ssa.Function, in ssa.Instruction) {
		if c, ok := in.(ssa.CallInstruction); ok && NameIs(CalleeName(c), name) {
			out = append(out, c)
		}
	})
	return out
}

// NameIs compares a full callee name with a short one (module prefix cut).
func NameIs(full, short string) bool {
	if full == short {
		return true
	}
	return full == ModPath+"/"+short
}

// ---------- values ----------

// Strip removes value-preserving wrappers (conversions between same-kind
// types, ChangeType, MakeInterface, ChangeInterface).
func Strip(v ssa.Value) ssa.Value {
	for {
		switch x := v.(type) {
		case *ssa.ChangeType:
			v = x.X
		case *ssa.Convert:
			v = x.X
		case *ssa.MakeInterface:
			v = x.X
		case *ssa.ChangeInterface:
			v = x.X
		default:
			return v
		}
	}
}

// ConstInt returns the integer value of a constant SSA value.
func ConstInt(v ssa.Value) (int64, bool) {
	v = Strip(v)
	c, ok := v.(*ssa.Const)
	if !ok || c.Value == nil {
		return 0, false
	}
	if c.Value.Kind() != constant.Int {
		return 0, false
	}
	i, ok := constant.Int64Val(c.Value)
	if !ok {
		u, ok2 := constant.Uint64Val(c.Value)
		return int64(u), ok2
	}
	return i, true
}

// IsNilConst reports whether v is the nil constant.
func IsNilConst(v ssa.Value) bool {
	c, ok := v.(*ssa.Const)
	return ok && c.Value == nil
}

// FieldRef describes v as a (chain of) field selection(s): base value and the
// names of the fields from outermost to innermost. Works for FieldAddr, Field,
// and loads (UnOp *) of them.
func FieldRef(v ssa.Value) (base ssa.Value, path []string, ok bool) {
	for {
		switch x := v.(type) {
		case *ssa.UnOp:
			if x.Op == token.MUL {
				v = x.X
				continue
			}
			return v, path, len(path) > 0
		case *ssa.FieldAddr:
			st := derefStruct(x.X.Type())
			if st == nil {
				return v, path, len(path) > 0
			}
			path = append([]string{st.Field(x.Field).Name()}, path...)
			v = x.X
		case *ssa.Field:
			st := derefStruct(x.X.Type())
			if st == nil {
				return v, path, len(path) > 0
			}
			path = append([]string{st.Field(x.Field).Name()}, path...)
			v = x.X
		case *ssa.Alloc:
			// a local snapshot `x := a.b` of a struct that is only read
			// afterwards: continue at the copied value
			if src := snapshotSource(x); src != nil && len(path) > 0 {
				v = src
				continue
			}
			return v, path, len(path) > 0
		default:
			return v, path, len(path) > 0
		}
	}
}

// snapshotSource: a is a function-local struct variable that is written once
// as a whole (`*a = v`) and otherwise only read through field selections; the
// value it was copied from is returned (nil otherwise).
func snapshotSource(a *ssa.Alloc) ssa.Value {
	if a.Heap || a.Referrers() == nil {
		return nil
	}
	var src ssa.Value
	var readOnly func(v ssa.Value) bool
	readOnly = func(v ssa.Value) bool {
		refs := v.Referrers()
		if refs == nil {
			return false
		}
		for _, ref := range *refs {
			switch r := ref.(type) {
			case *ssa.UnOp:
				if r.Op != token.MUL {
					return false
				}
			case *ssa.FieldAddr:
				if !readOnly(r) {
					return false
				}
			case *ssa.Store:
				if r.Addr != v || v != ssa.Value(a) || src != nil {
					return false
				}
				src = r.Val
			case *ssa.DebugRef:
			default:
				return false
			}
		}
		return true
	}
	if !readOnly(a) || src == nil {
		return nil
	}
	if _, isStruct := src.Type().Underlying().(*types.Struct); !isStruct {
		return nil
	}
	// the copied value must itself be a field selection (a.b), not e.g. a call result or parameter spill
	if u, ok := src.(*ssa.UnOp); ok && u.Op == token.MUL {
		if _, ok := u.X.(*ssa.FieldAddr); ok {
			return src
		}
	}
	if _, ok := src.(*ssa.Field); ok {
		return src
	}
	return nil
}

func derefStruct(t types.Type) *types.Struct {
	t = t.Underlying()
	if p, ok := t.(*types.Pointer); ok {
		t = p.Elem().Underlying()
	}
	s, _ := t.(*types.Struct)
	return s
}

// FieldOwner returns the named struct type owning the field selected by a
// FieldAddr/Field, and the field name.
func FieldOwner(v ssa.Value) (owner *types.Named, field string, ok bool) {
	var x ssa.Value
	var idx int
	switch fa := v.(type) {
	case *ssa.FieldAddr:
		x, idx = fa.X, fa.Field
	case *ssa.Field:
		x, idx = fa.X, fa.Field
	default:
		return nil, "", false
	}
	t := x.Type()
	if p, ok := t.Underlying().(*types.Pointer); ok {
		t = p.Elem()
	}
	st, ok2 := t.Underlying().(*types.Struct)
	if !ok2 {
		return nil, "", false
	}
	n, _ := t.(*types.Named)
	return n, st.Field(idx).Name(), true
}

// IsField reports whether v is a FieldAddr/Field (or a load thereof) of field
// `field` of the named type pkg.typ (pkg relative to the module).
func IsField(v ssa.Value, pkg, typ, field string) bool {
	if u, ok := v.(*ssa.UnOp); ok && u.Op == token.MUL {
		v = u.X
	}
	n, f, ok := FieldOwner(v)
	if !ok || n == nil || f != field {
		return false
	}
	return n.Obj().Name() == typ && n.Obj().Pkg() != nil && NameIs(n.Obj().Pkg().Path(), pkg)
}

// TypeIs reports whether t (or *t) is the named type pkg.name.
func TypeIs(t types.Type, pkg, name string) bool {
	if p, ok := t.(*types.Pointer); ok {
		t = p.Elem()
	}
	n, ok := t.(*types.Named)
	if !ok {
		return false
	}
	return n.Obj().Name() == name && n.Obj().Pkg() != nil && NameIs(n.Obj().Pkg().Path(), pkg)
}

// DependsOn reports whether the backward def-use slice of v (operands,
// transitively, within one function; through phi, loads of local allocs via
// their stores) contains a value satisfying pred. The bound keeps it finite.
func DependsOn(v ssa.Value, pred func(ssa.Value) bool) bool {
	seen := map[ssa.Value]bool{}
	var rec func(ssa.Value) bool
	rec = func(x ssa.Value) bool {
		if x == nil || seen[x] {
			return false
		}
		seen[x] = true
		if pred(x) {
			return true
		}
		switch t := x.(type) {
		case *ssa.Alloc:
			for _, ref := range allRefsDeep(t) {
				if st, ok := ref.(*ssa.Store); ok {
					if rec(st.Val) {
						return true
					}
				}
			}
		case *ssa.UnOp:
			if t.Op == token.MUL {
				// load: follow stores into a local alloc / its field addresses
				if a := allocRoot(t.X); a != nil {
					for _, ref := range allRefsDeep(a) {
						if st, ok := ref.(*ssa.Store); ok {
							if rec(st.Val) {
								return true
							}
						}
					}
				}
			}
		}
		if in, ok := x.(ssa.Instruction); ok {
			for _, op := range in.Operands(nil) {
				if *op != nil && rec(*op) {
					return true
				}
			}
		}
		return false
	}
	return rec(v)
}

func allocRoot(v ssa.Value) *ssa.Alloc {
	for {
		switch x := v.(type) {
		case *ssa.Alloc:
			return x
		case *ssa.FieldAddr:
			v = x.X
		case *ssa.IndexAddr:
			v = x.X
		default:
			return nil
		}
	}
}

// allRefsDeep returns the referrers of an alloc and of all addresses derived
// from it by FieldAddr/IndexAddr.
func allRefsDeep(a ssa.Value) []ssa.Instruction {
	var out []ssa.Instruction
	seen := map[ssa.Value]bool{}
	var rec func(ssa.Value)
	rec = func(v ssa.Value) {
		if seen[v] {
			return
		}
		seen[v] = true
		refs := v.Referrers()
		if refs == nil {
			return
		}
		for _, r := range *refs {
			out = append(out, r)
			switch d := r.(type) {
			case *ssa.FieldAddr:
				rec(d)
			case *ssa.IndexAddr:
				rec(d)
			}
		}
	}
	rec(a)
	return out
}

// ---------- CFG queries ----------

// Cond is a branch condition together with the edge taken.
type Cond struct {
	V    ssa.Value
	True bool
	If   *ssa.If
}

// reachableAvoiding computes the blocks reachable from fn's entry when the
// edges for which cut returns true are removed.
func reachableAvoiding(fn *ssa.Function, cut func(from *ssa.BasicBlock, succIdx int) bool) map[*ssa.BasicBlock]bool {
	seen := map[*ssa.BasicBlock]bool{}
	if len(fn.Blocks) == 0 {
		return seen
	}
	var stack []*ssa.BasicBlock
	stack = append(stack, fn.Blocks[0])
	seen[fn.Blocks[0]] = true
	for len(stack) > 0 {
		b := stack[len(stack)-1]
		stack = stack[:len(stack)-1]
		for i, s := range b.Succs {
			if cut != nil && cut(b, i) {
				continue
			}
			if !seen[s] {
				seen[s] = true
				stack = append(stack, s)
			}
		}
	}
	return seen
}

// EdgeDominates reports whether every path from entry to target traverses the
// edge from.Succs[succIdx].
func EdgeDominates(from *ssa.BasicBlock, succIdx int, target *ssa.BasicBlock) bool {
	fn := from.Parent()
	r := reachableAvoiding(fn, func(b *ssa.BasicBlock, i int) bool { return b == from && i == succIdx })
	if !r[target] {
		// also require that target is reachable at all
		all := reachableAvoiding(fn, nil)
		return all[target]
	}
	return false
}

// DominatingConds lists the branch conditions whose taken edge every path to
// block b must traverse.
func DominatingConds(b *ssa.BasicBlock) []Cond {
	fn := b.Parent()
	var out []Cond
	for _, blk := range fn.Blocks {
		if len(blk.Instrs) == 0 {
			continue
		}
		ifi, ok := blk.Instrs[len(blk.Instrs)-1].(*ssa.If)
		if !ok {
			continue
		}
		if blk.Succs[0] == blk.Succs[1] {
			continue
		}
		if blk == b {
			continue
		}
		for i := 0; i < 2; i++ {
			if EdgeDominates(blk, i, b) {
				out = append(out, expandCond(normCond(Cond{V: ifi.Cond, True: i == 0, If: ifi}), 0)...)
			}
		}
	}
	return out
}

// expandCond resolves conditions that are phis of short-circuit operators
// materialised as values (`x := a && b`, `case a && b:`): when all but one
// incoming edge carry the constant that contradicts the required outcome, the
// remaining operand must have that outcome and its predecessor block must have
// been reached, which adds that block's dominating conditions.
func expandCond(c Cond, depth int) []Cond {
	out := []Cond{c}
	if depth <= 2 {
		out = append(out, expandHelperCond(c, depth)...)
	}
	phi, ok := c.V.(*ssa.Phi)
	if !ok || depth > 4 {
		return out
	}
	live := -1
	for i, e := range phi.Edges {
		if k, isC := e.(*ssa.Const); isC && k.Value != nil && k.Value.Kind() == constant.Bool {
			if constant.BoolVal(k.Value) != c.True {
				continue // this edge cannot produce the required outcome
			}
		}
		if live >= 0 {
			return out // more than one edge can produce the outcome
		}
		live = i
	}
	if live < 0 {
		return out
	}
	pred := phi.Block().Preds[live]
	if _, isC := phi.Edges[live].(*ssa.Const); !isC {
		out = append(out, expandCond(normCond(Cond{V: phi.Edges[live], True: c.True, If: c.If}), depth+1)...)
	}
	out = append(out, DominatingConds(pred)...)
	// the edge pred -> phi block itself
	if ifi, ok := pred.Instrs[len(pred.Instrs)-1].(*ssa.If); ok && pred.Succs[0] != pred.Succs[1] {
		out = append(out, expandCond(normCond(Cond{V: ifi.Cond, True: pred.Succs[0] == phi.Block(), If: ifi}), depth+1)...)
	}
	return out
}

// normCond strips logical negations.
func normCond(c Cond) Cond {
	for {
		u, ok := c.V.(*ssa.UnOp)
		if !ok || u.Op != token.NOT {
			return c
		}
		c.V = u.X
		c.True = !c.True
	}
}

// CondIsCall matches a condition that is (the bool result of) a call to name;
// returns the call.
func CondIsCall(c Cond, name string) (*ssa.Call, bool) {
	call, ok := c.V.(*ssa.Call)
	if !ok {
		return nil, false
	}
	if !NameIs(CalleeName(call), name) {
		return nil, false
	}
	return call, true
}

// NilCmp matches `x == nil` / `x != nil`; it returns x and whether the edge
// described by c establishes x == nil.
func NilCmp(c Cond) (x ssa.Value, isNil bool, ok bool) {
	b, ok2 := c.V.(*ssa.BinOp)
	if !ok2 || (b.Op != token.EQL && b.Op != token.NEQ) {
		return nil, false, false
	}
	var other ssa.Value
	switch {
	case IsNilConst(b.Y):
		other = b.X
	case IsNilConst(b.X):
		other = b.Y
	default:
		return nil, false, false
	}
	eq := b.Op == token.EQL
	return other, eq == c.True, true
}

// instrIndex returns the index of in within its block.
func instrIndex(in ssa.Instruction) int {
	for i, x := range in.Block().Instrs {
		if x == in {
			return i
		}
	}
	return -1
}

// MustPassBefore reports whether every path from the function entry to
// target passes an instruction satisfying pred (strictly before target).
func MustPassBefore(target ssa.Instruction, pred func(ssa.Instruction) bool) bool {
	fn := target.Parent()
	type node struct {
		b *ssa.BasicBlock
	}
	// forward search over blocks; a block is "clean-exited" if reachable
	// from entry along a path without pred up to its end.
	seen := map[*ssa.BasicBlock]bool{}
	var stack []*ssa.BasicBlock
	push := func(b *ssa.BasicBlock) {
		if !seen[b] {
			seen[b] = true
			stack = append(stack, b)
		}
	}
	push(fn.Blocks[0])
	for len(stack) > 0 {
		b := stack[len(stack)-1]
		stack = stack[:len(stack)-1]
		blocked := false
		for _, in := range b.Instrs {
			if in == target {
				return false // reached target without passing pred
			}
			if pred(in) {
				blocked = true
				break
			}
		}
		if blocked {
			continue
		}
		for _, s := range b.Succs {
			push(s)
		}
	}
	return true
}

// MustPassAfter reports whether every path from start (exclusive) to any
// instruction satisfying isExit passes an instruction satisfying pred first.
// It returns the offending exit when not.
func MustPassAfter(start ssa.Instruction, pred func(ssa.Instruction) bool, isExit func(ssa.Instruction) bool) (bool, ssa.Instruction) {
	type pos struct {
		b *ssa.BasicBlock
		i int
	}
	seen := map[*ssa.BasicBlock]bool{}
	var work []pos
	work = append(work, pos{start.Block(), instrIndex(start) + 1})
	for len(work) > 0 {
		p := work[len(work)-1]
		work = work[:len(work)-1]
		blocked := false
		for i := p.i; i < len(p.b.Instrs); i++ {
			in := p.b.Instrs[i]
			if pred(in) {
				blocked = true
				break
			}
			if isExit(in) {
				return false, in
			}
		}
		if blocked {
			continue
		}
		for _, s := range p.b.Succs {
			if !seen[s] {
				seen[s] = true
				work = append(work, pos{s, 0})
			}
		}
	}
	return true, nil
}

// IsReturn matches Return instructions.
func IsReturn(in ssa.Instruction) bool { _, ok := in.(*ssa.Return); return ok }

// Returns lists the Return instructions of fn.
func Returns(fn *ssa.Function) []*ssa.Return {
	var out []*ssa.Return
	EachInstr(fn, func(in ssa.Instruction) {
		if r, ok := in.(*ssa.Return); ok {
			out = append(out, r)
		}
	})
	return out
}

// InLoop reports whether block b lies on a CFG cycle.
func InLoop(b *ssa.BasicBlock) bool {
	seen := map[*ssa.BasicBlock]bool{}
	var stack []*ssa.BasicBlock
	for _, s := range b.Succs {
		stack = append(stack, s)
	}
	for len(stack) > 0 {
		x := stack[len(stack)-1]
		stack = stack[:len(stack)-1]
		if x == b {
			return true
		}
		if seen[x] {
			continue
		}
		seen[x] = true
		stack = append(stack, x.Succs...)
	}
	return false
}

// ---------- call graph ----------

// CallGraph builds (once) the VTA call graph refined from CHA.
func (p *Program) CallGraph() *callgraph.Graph {
	if p.cg == nil {
		p.cg = vta.CallGraph(ssautil.AllFunctions(p.SSA), cha.CallGraph(p.SSA))
	}
	return p.cg
}

// Reachable returns the functions reachable from the roots in the call graph,
// restricted by keep (nil = all). Roots are always included.
func (p *Program) Reachable(roots []*ssa.Function, keep func(*ssa.Function) bool) map[*ssa.Function]bool {
	cg := p.CallGraph()
	seen := map[*ssa.Function]bool{}
	var stack []*ssa.Function
	for _, r := range roots {
		if r != nil && !seen[r] {
			seen[r] = true
			stack = append(stack, r)
		}
	}
	for len(stack) > 0 {
		f := stack[len(stack)-1]
		stack = stack[:len(stack)-1]
		n := cg.Nodes[f]
		if n == nil {
			continue
		}
		for _, e := range n.Out {
			c := e.Callee.Func
			if c == nil || seen[c] {
				continue
			}
			if keep != nil && !keep(c) {
				continue
			}
			seen[c] = true
			stack = append(stack, c)
		}
		// closures created in f are considered reachable (they may be
		// invoked through values the graph resolves elsewhere)
		for _, a := range f.AnonFuncs {
			if !seen[a] {
				seen[a] = true
				stack = append(stack, a)
			}
		}
	}
	return seen
}

// Callers returns the functions with a call-graph edge to fn.
func (p *Program) Callers(fn *ssa.Function) []*ssa.Function {
	cg := p.CallGraph()
	n := cg.Nodes[fn]
	if n == nil {
		return nil
	}
	set := map[*ssa.Function]bool{}
	for _, e := range n.In {
		if e.Caller.Func != nil {
			set[e.Caller.Func] = true
		}
	}
	var out []*ssa.Function
	for f := range set {
		out = append(out, f)
	}
	sort.Slice(out, func(i, j int) bool { return out[i].String() < out[j].String() })
	return out
}

// Implementations lists the named types of repo packages that implement the
// interface pkg.iface (value or pointer receiver).
func (p *Program) Implementations(pkg, iface string) []*types.Named {
	it, ok := p.Named(pkg, iface).Underlying().(*types.Interface)
	if !ok {
		Undecided("anchor: %s.%s is not an interface", pkg, iface)
	}
	var out []*types.Named
	for path, sp := range p.SPkgs {
		if !strings.HasPrefix(path, ModPath) {
			continue
		}
		for _, m := range sp.Members {
			t, ok := m.(*ssa.Type)
			if !ok {
				continue
			}
			n, ok := t.Type().(*types.Named)
			if !ok {
				continue
			}
			if _, isIface := n.Underlying().(*types.Interface); isIface {
				continue
			}
			if types.Implements(n, it) || types.Implements(types.NewPointer(n), it) {
				out = append(out, n)
			}
		}
	}
	sort.Slice(out, func(i, j int) bool { return out[i].String() < out[j].String() })
	return out
}

// MethodOf returns the SSA function of method name on named type n.
func (p *Program) MethodOf(n *types.Named, name string) *ssa.Function {
	for _, typ := range []types.Type{n, types.NewPointer(n)} {
		ms := p.SSA.MethodSets.MethodSet(typ)
		for i := 0; i < ms.Len(); i++ {
			sel := ms.At(i)
			if sel.Obj().Name() == name {
				if fn, ok := sel.Obj().(*types.Func); ok {
					if f := p.SSA.FuncValue(fn); f != nil {
						return f
					}
				}
			}
		}
	}
	return nil
}

// DaemonReachable returns the repo functions reachable from the entry point of
// cmd/dtnd (main and package initialisers), following call-graph edges and
// every function value mentioned by a reachable function.
func (p *Program) DaemonReachable() map[*ssa.Function]bool {
	if p.daemon != nil {
		return p.daemon
	}
	mainPkg := p.Pkg("cmd/dtnd")
	var roots []*ssa.Function
	if f := mainPkg.Func("main"); f != nil {
		roots = append(roots, f)
	} else {
		Undecided("anchor: cmd/dtnd.main not found")
	}
	for path, sp := range p.SPkgs {
		if strings.HasPrefix(path, ModPath) {
			if f := sp.Func("init"); f != nil {
				roots = append(roots, f)
			}
		}
	}
	cg := p.CallGraph()
	seen := map[*ssa.Function]bool{}
	var stack []*ssa.Function
	push := func(f *ssa.Function) {
		if f != nil && !seen[f] {
			seen[f] = true
			stack = append(stack, f)
		}
	}
	for _, r := range roots {
		push(r)
	}
	for len(stack) > 0 {
		f := stack[len(stack)-1]
		stack = stack[:len(stack)-1]
		if n := cg.Nodes[f]; n != nil {
			for _, e := range n.Out {
				if e.Callee.Func != nil && (IsRepo(e.Callee.Func) || e.Callee.Func.Synthetic != "") {
					push(e.Callee.Func)
				}
			}
		}
		for _, a := range f.AnonFuncs {
			push(a)
		}
		if f.Blocks == nil {
			continue
		}
		var ops []*ssa.Value
		for _, b := range f.Blocks {
			for _, in := range b.Instrs {
				ops = in.Operands(ops[:0])
				for _, op := range ops {
					if fv, ok := (*op).(*ssa.Function); ok && (IsRepo(fv) || fv.Synthetic != "") {
						push(fv)
					}
					if mc, ok := (*op).(*ssa.MakeClosure); ok {
						if fv, ok := mc.Fn.(*ssa.Function); ok {
							push(fv)
						}
					}
				}
			}
		}
	}
	p.daemon = seen
	return seen
}

// GuardedByAny reports whether every path from entry to block b traverses at
// least one branch edge whose (normalised, expanded) condition satisfies pred.
func GuardedByAny(b *ssa.BasicBlock, pred func(Cond) bool) bool {
	fn := b.Parent()
	cut := func(from *ssa.BasicBlock, i int) bool {
		ifi, ok := from.Instrs[len(from.Instrs)-1].(*ssa.If)
		if !ok || from.Succs[0] == from.Succs[1] {
			return false
		}
		for _, c := range expandCondNoDom(normCond(Cond{V: ifi.Cond, True: i == 0, If: ifi})) {
			if pred(c) {
				return true
			}
		}
		return false
	}
	all := reachableAvoiding(fn, nil)
	if !all[b] {
		return false
	}
	return !reachableAvoiding(fn, cut)[b]
}

// expandCondNoDom is expandCond without the dominating conditions of the
// predecessor (used where only the edge's own meaning matters).
func expandCondNoDom(c Cond) []Cond {
	out := []Cond{c}
	phi, ok := c.V.(*ssa.Phi)
	if !ok {
		return out
	}
	live := -1
	for i, e := range phi.Edges {
		if k, isC := e.(*ssa.Const); isC && k.Value != nil && k.Value.Kind() == constant.Bool {
			if constant.BoolVal(k.Value) != c.True {
				continue
			}
		}
		if live >= 0 {
			return out
		}
		live = i
	}
	if live >= 0 {
		if _, isC := phi.Edges[live].(*ssa.Const); !isC {
			out = append(out, expandCondNoDom(normCond(Cond{V: phi.Edges[live], True: c.True, If: c.If}))...)
		}
	}
	return out
}

// Loop is a natural loop of the CFG.
type Loop struct {
	Header *ssa.BasicBlock
	Blocks map[*ssa.BasicBlock]bool
}

// Loops returns the natural loops of fn (one per header; back edges to the
// same header are merged).
func Loops(fn *ssa.Function) []*Loop {
	byHeader := map[*ssa.BasicBlock]*Loop{}
	var order []*ssa.BasicBlock
	for _, t := range fn.Blocks {
		for _, h := range t.Succs {
			if !h.Dominates(t) {
				continue
			}
			l := byHeader[h]
			if l == nil {
				l = &Loop{Header: h, Blocks: map[*ssa.BasicBlock]bool{h: true}}
				byHeader[h] = l
				order = append(order, h)
			}
			stack := []*ssa.BasicBlock{t}
			for len(stack) > 0 {
				x := stack[len(stack)-1]
				stack = stack[:len(stack)-1]
				if l.Blocks[x] {
					continue
				}
				l.Blocks[x] = true
				stack = append(stack, x.Preds...)
			}
		}
	}
	var out []*Loop
	for _, h := range order {
		out = append(out, byHeader[h])
	}
	return out
}

// InnermostLoop returns the smallest loop containing b, or nil.
func InnermostLoop(loops []*Loop, b *ssa.BasicBlock) *Loop {
	var best *Loop
	for _, l := range loops {
		if l.Blocks[b] && (best == nil || len(l.Blocks) < len(best.Blocks)) {
			best = l
		}
	}
	return best
}

// EarlyExits lists the edges that leave the loop from a block other than
// its header (break / return / goto out of the body). Panicking blocks
// (no successors, ending in Panic) are not exits.
func (l *Loop) EarlyExits() []*ssa.BasicBlock {
	var out []*ssa.BasicBlock
	for b := range l.Blocks {
		if b == l.Header {
			continue
		}
		for _, s := range b.Succs {
			if !l.Blocks[s] {
				out = append(out, b)
			}
		}
		if len(b.Succs) == 0 {
			if _, isRet := b.Instrs[len(b.Instrs)-1].(*ssa.Return); isRet {
				out = append(out, b)
			}
		}
	}
	sort.Slice(out, func(i, j int) bool { return out[i].Index < out[j].Index })
	return out
}

// RetVal is one value a function may return in result position idx, with the
// instruction at which that choice is made (the return itself, the store into
// a named result, or the terminator of the phi's predecessor).
type RetVal struct {
	V  ssa.Value
	At ssa.Instruction
}

// ReturnValues enumerates the values that can be returned in position idx,
// looking through named results (spilled by defer) and phis.
func ReturnValues(fn *ssa.Function, idx int) []RetVal {
	var out []RetVal
	seenAlloc := map[*ssa.Alloc]bool{}
	var addVal func(v ssa.Value, at ssa.Instruction, depth int)
	addVal = func(v ssa.Value, at ssa.Instruction, depth int) {
		if depth > 6 {
			out = append(out, RetVal{v, at})
			return
		}
		switch x := v.(type) {
		case *ssa.UnOp:
			if x.Op == token.MUL {
				if a, ok := x.X.(*ssa.Alloc); ok && isNamedResult(fn, a) {
					if seenAlloc[a] {
						return
					}
					seenAlloc[a] = true
					n := 0
					for _, ref := range allRefsDeep(a) {
						// stores into the slot or into one of its fields
						if st, ok := ref.(*ssa.Store); ok && allocRoot(st.Addr) == a {
							n++
							addVal(st.Val, st, depth+1)
						}
					}
					if n == 0 {
						// zero value of the named result
						out = append(out, RetVal{ssa.NewConst(nil, a.Type().(*types.Pointer).Elem()), at})
					}
					return
				}
			}
		case *ssa.Phi:
			for i, e := range x.Edges {
				pred := x.Block().Preds[i]
				addVal(e, pred.Instrs[len(pred.Instrs)-1], depth+1)
			}
			return
		}
		out = append(out, RetVal{v, at})
	}
	for _, ret := range Returns(fn) {
		if idx < len(ret.Results) {
			addVal(ret.Results[idx], ret, 0)
		}
	}
	return out
}

// IsBoolConst reports whether v is the boolean constant b.
func IsBoolConst(v ssa.Value, b bool) bool {
	c, ok := v.(*ssa.Const)
	return ok && c.Value != nil && c.Value.Kind() == constant.Bool && constant.BoolVal(c.Value) == b
}

// BlocksReachableFrom returns the blocks reachable from b (including b).
func BlocksReachableFrom(b *ssa.BasicBlock) map[*ssa.BasicBlock]bool {
	seen := map[*ssa.BasicBlock]bool{b: true}
	stack := []*ssa.BasicBlock{b}
	for len(stack) > 0 {
		x := stack[len(stack)-1]
		stack = stack[:len(stack)-1]
		for _, s := range x.Succs {
			if !seen[s] {
				seen[s] = true
				stack = append(stack, s)
			}
		}
	}
	return seen
}

// ControlConds returns, for a phi that merges a short-circuit / if-else
// diamond, the branch conditions inside that diamond (the blocks dominated by
// the phi block's immediate dominator that are not dominated by the phi block
// itself). For other values it returns nil.
func ControlConds(v ssa.Value) []ssa.Value {
	phi, ok := v.(*ssa.Phi)
	if !ok {
		return nil
	}
	d := phi.Block().Idom()
	if d == nil {
		return nil
	}
	var out []ssa.Value
	for _, b := range phi.Parent().Blocks {
		if !d.Dominates(b) || phi.Block().Dominates(b) {
			continue
		}
		if ifi, ok := b.Instrs[len(b.Instrs)-1].(*ssa.If); ok {
			out = append(out, ifi.Cond)
		}
	}
	return out
}

// MustPassAfterSkipping is MustPassAfter where CFG edges for which skip
// returns true are treated as infeasible.
func MustPassAfterSkipping(start ssa.Instruction, pred func(ssa.Instruction) bool, isExit func(ssa.Instruction) bool, skip func(from *ssa.BasicBlock, succIdx int) bool) (bool, ssa.Instruction) {
	type pos struct {
		b *ssa.BasicBlock
		i int
	}
	seen := map[*ssa.BasicBlock]bool{}
	work := []pos{{start.Block(), instrIndex(start) + 1}}
	for len(work) > 0 {
		p := work[len(work)-1]
		work = work[:len(work)-1]
		blocked := false
		for i := p.i; i < len(p.b.Instrs); i++ {
			in := p.b.Instrs[i]
			if pred(in) {
				blocked = true
				break
			}
			if isExit(in) {
				return false, in
			}
		}
		if blocked {
			continue
		}
		for si, s := range p.b.Succs {
			if skip != nil && skip(p.b, si) {
				continue
			}
			if !seen[s] {
				seen[s] = true
				work = append(work, pos{s, 0})
			}
		}
	}
	return true, nil
}

// postDominators computes, for every block, the set of blocks that
// post-dominate it (iterative dataflow over the reversed CFG; blocks without
// successors are exits).
func postDominators(fn *ssa.Function) map[*ssa.BasicBlock]map[*ssa.BasicBlock]bool {
	all := map[*ssa.BasicBlock]bool{}
	for _, b := range fn.Blocks {
		all[b] = true
	}
	pd := map[*ssa.BasicBlock]map[*ssa.BasicBlock]bool{}
	for _, b := range fn.Blocks {
		if len(b.Succs) == 0 {
			pd[b] = map[*ssa.BasicBlock]bool{b: true}
		} else {
			m := map[*ssa.BasicBlock]bool{}
			for k := range all {
				m[k] = true
			}
			pd[b] = m
		}
	}
	changed := true
	for changed {
		changed = false
		for i := len(fn.Blocks) - 1; i >= 0; i-- {
			b := fn.Blocks[i]
			if len(b.Succs) == 0 {
				continue
			}
			var inter map[*ssa.BasicBlock]bool
			for _, s := range b.Succs {
				if inter == nil {
					inter = map[*ssa.BasicBlock]bool{}
					for k := range pd[s] {
						inter[k] = true
					}
				} else {
					for k := range inter {
						if !pd[s][k] {
							delete(inter, k)
						}
					}
				}
			}
			inter[b] = true
			if len(inter) != len(pd[b]) {
				pd[b] = inter
				changed = true
			}
		}
	}
	return pd
}

// ControlDeps returns the branch conditions block b is control dependent on
// (directly or transitively): b post-dominates one successor of the branch but
// not the branch block itself.
func ControlDeps(b *ssa.BasicBlock) []Cond {
	fn := b.Parent()
	pd := postDominators(fn)
	var out []Cond
	seen := map[*ssa.BasicBlock]bool{}
	work := []*ssa.BasicBlock{b}
	for len(work) > 0 {
		x := work[len(work)-1]
		work = work[:len(work)-1]
		for _, blk := range fn.Blocks {
			ifi, ok := blk.Instrs[len(blk.Instrs)-1].(*ssa.If)
			if !ok || seen[blk] || blk == x {
				continue
			}
			if pd[blk][x] {
				continue
			}
			for i, s := range blk.Succs {
				if pd[s][x] {
					seen[blk] = true
					out = append(out, normCond(Cond{V: ifi.Cond, True: i == 0, If: ifi}))
					work = append(work, blk)
					break
				}
			}
		}
	}
	return out
}

// SameLoad reports whether a and b are loads of the same field path of the
// same base value (or identical values).
func SameLoad(a, b ssa.Value) bool {
	if a == b {
		return true
	}
	la, ok1 := a.(*ssa.UnOp)
	lb, ok2 := b.(*ssa.UnOp)
	if !ok1 || !ok2 || la.Op != token.MUL || lb.Op != token.MUL {
		return false
	}
	if la.X == lb.X {
		return true
	}
	// same element of the same (parameter) slice / array with a constant index
	if ia, ok := la.X.(*ssa.IndexAddr); ok {
		if ib, ok := lb.X.(*ssa.IndexAddr); ok && ia.X == ib.X {
			ka, oka := ConstInt(ia.Index)
			kb, okb := ConstInt(ib.Index)
			if oka && okb && ka == kb {
				if _, isPar := ia.X.(*ssa.Parameter); isPar {
					return true
				}
			}
		}
	}
	ba, pa, oka := FieldRef(la.X)
	bb, pb, okb := FieldRef(lb.X)
	if !oka || !okb || ba != bb || len(pa) != len(pb) {
		return false
	}
	for i := range pa {
		if pa[i] != pb[i] {
			return false
		}
	}
	return true
}

// isNamedResult reports whether alloc a is the spill slot of a function
// result: a named result, or a slot whose loads are only ever returned.
func isNamedResult(fn *ssa.Function, a *ssa.Alloc) bool {
	res := fn.Signature.Results()
	for i := 0; i < res.Len(); i++ {
		if res.At(i).Name() != "" && res.At(i).Name() == a.Comment {
			return true
		}
	}
	if a.Referrers() == nil {
		return false
	}
	loads := 0
	for _, ref := range *a.Referrers() {
		switch x := ref.(type) {
		case *ssa.Store:
			if x.Addr != ssa.Value(a) {
				return false
			}
		case *ssa.UnOp:
			loads++
			if x.Referrers() == nil {
				return false
			}
			for _, rr := range *x.Referrers() {
				if _, isRet := rr.(*ssa.Return); !isRet {
					return false
				}
			}
		case *ssa.DebugRef:
		default:
			return false
		}
	}
	return loads > 0
}

// ResultSlot returns the spill slot (alloc) of result idx of fn, if the
// function keeps its results in memory (named results observed by defers).
func ResultSlot(fn *ssa.Function, idx int) *ssa.Alloc {
	for _, ret := range Returns(fn) {
		if idx >= len(ret.Results) {
			continue
		}
		if ld, ok := ret.Results[idx].(*ssa.UnOp); ok && ld.Op == token.MUL {
			if a, ok := ld.X.(*ssa.Alloc); ok && isNamedResult(fn, a) {
				return a
			}
		}
	}
	return nil
}

// FreeVarBoundTo reports whether free variable fv of closure cl is bound to
// value v at (one of) the MakeClosure sites in parent.
func FreeVarBoundTo(parent *ssa.Function, cl *ssa.Function, fv *ssa.FreeVar, v ssa.Value) bool {
	found := false
	EachInstr(parent, func(in ssa.Instruction) {
		mc, ok := in.(*ssa.MakeClosure)
		if !ok || mc.Fn != ssa.Value(cl) {
			return
		}
		for i, b := range mc.Bindings {
			if cl.FreeVars[i] == fv && b == v {
				found = true
			}
		}
	})
	return found
}

// expandHelperCond looks through a small boolean helper of the repository
// used as a condition (an extracted predicate): if the helper has a single
// return whose value is a condition, that condition holds with the same
// polarity; if the only way to return true (false) is one site, the conditions
// dominating that site hold, too. The returned conditions are expressed in the
// helper's own SSA values (parameters instead of arguments).
func expandHelperCond(c Cond, depth int) []Cond {
	call, ok := c.V.(*ssa.Call)
	if !ok {
		return nil
	}
	f := call.Common().StaticCallee()
	if f == nil || !IsRepo(f) || f.Blocks == nil || len(f.Blocks) > 16 {
		return nil
	}
	if bt, ok := call.Type().Underlying().(*types.Basic); !ok || bt.Kind() != types.Bool {
		return nil
	}
	rvs := ReturnValues(f, 0)
	var out []Cond
	var sites []RetVal
	for _, rv := range rvs {
		if IsBoolConst(rv.V, !c.True) {
			continue // cannot produce the required outcome
		}
		sites = append(sites, rv)
	}
	if len(sites) != 1 {
		return nil
	}
	rv := sites[0]
	if !IsBoolConst(rv.V, c.True) {
		out = append(out, expandCond(normCond(Cond{V: rv.V, True: c.True, If: c.If}), depth+1)...)
	}
	out = append(out, DominatingConds(rv.At.Block())...)
	return out
}

// WithHelpers returns fn together with the small unexported functions and
// methods of its own package that it calls (transitively, up to depth 2) —
// the view a rule needs that must not care whether a few statements were
// extracted into a helper. A helper is included only if it is unexported and
// has at most maxBlocks basic blocks.
func WithHelpers(fn *ssa.Function, maxBlocks int) []*ssa.Function {
	out := []*ssa.Function{fn}
	seen := map[*ssa.Function]bool{fn: true}
	var add func(f *ssa.Function, depth int)
	add = func(f *ssa.Function, depth int) {
		if depth >= 2 {
			return
		}
		EachInstrDeep(f, func(_ *ssa.Function, in ssa.Instruction) {
			c, ok := in.(ssa.CallInstruction)
			if !ok {
				return
			}
			if _, isGo := in.(*ssa.Go); isGo {
				return // a new goroutine is not part of this function's activity
			}
			cal := c.Common().StaticCallee()
			if cal == nil || seen[cal] || cal.Pkg != fn.Pkg || cal.Blocks == nil || len(cal.Blocks) > maxBlocks || cal.Object() == nil || cal.Object().Exported() {
				return
			}
			seen[cal] = true
			out = append(out, cal)
			add(cal, depth+1)
		})
	}
	add(fn, 0)
	return out
}

// CallsToWithHelpers is CallsTo over WithHelpers(fn).
func CallsToWithHelpers(fn *ssa.Function, name string, maxBlocks int) []ssa.CallInstruction {
	var out []ssa.CallInstruction
	for _, f := range WithHelpers(fn, maxBlocks) {
		out = append(out, CallsTo(f, name)...)
	}
	return out
}

// SameExpr: a and b are the same value, loads of the same place, or calls of
// the same statically resolved function / method (or the same interface method)
// on pairwise SameExpr arguments - i.e. one expression written twice. Only
// meaningful for side-effect-free accessor chains (x.Id.Scrub().String()).
func SameExpr(a, b ssa.Value) bool {
	return sameExprDepth(a, b, 0)
}

func sameExprDepth(a, b ssa.Value, depth int) bool {
	a, b = Strip(a), Strip(b)
	if a == b || SameLoad(a, b) {
		return true
	}
	if depth > 6 {
		return false
	}
	if ka, ok := a.(*ssa.Const); ok {
		kb, ok2 := b.(*ssa.Const)
		return ok2 && ka.Value != nil && kb.Value != nil && ka.Value.ExactString() == kb.Value.ExactString()
	}
	ca, ok1 := a.(*ssa.Call)
	cb, ok2 := b.(*ssa.Call)
	if ok1 && ok2 {
		if ca.Common().IsInvoke() != cb.Common().IsInvoke() {
			return false
		}
		if ca.Common().IsInvoke() {
			if ca.Common().Method != cb.Common().Method || !sameExprDepth(ca.Common().Value, cb.Common().Value, depth+1) {
				return false
			}
		} else {
			fa, fb := ca.Common().StaticCallee(), cb.Common().StaticCallee()
			if fa == nil || fa != fb {
				return false
			}
		}
		if len(ca.Common().Args) != len(cb.Common().Args) {
			return false
		}
		for i := range ca.Common().Args {
			if !sameExprDepth(ca.Common().Args[i], cb.Common().Args[i], depth+1) {
				return false
			}
		}
		return true
	}
	fa, ok1 := a.(*ssa.FieldAddr)
	fb, ok2 := b.(*ssa.FieldAddr)
	if ok1 && ok2 {
		return fa.Field == fb.Field && sameExprDepth(fa.X, fb.X, depth+1)
	}
	return false
}

// Greater normalises an ordering comparison to "big > small" (strict) or
// "big >= small": X > Y, Y < X, X >= Y, Y <= X are one relation each.
func Greater(b *ssa.BinOp) (big, small ssa.Value, strict, ok bool) {
	switch b.Op {
	case token.GTR:
		return b.X, b.Y, true, true
	case token.LSS:
		return b.Y, b.X, true, true
	case token.GEQ:
		return b.X, b.Y, false, true
	case token.LEQ:
		return b.Y, b.X, false, true
	}
	return nil, nil, false, false
}

// CondGreater is Greater for a condition with its truth value: !(X > Y) is
// Y >= X, !(X >= Y) is Y > X.
func CondGreater(c Cond) (big, small ssa.Value, strict, ok bool) {
	b, isB := c.V.(*ssa.BinOp)
	if !isB {
		return nil, nil, false, false
	}
	big, small, strict, ok = Greater(b)
	if ok && !c.True {
		big, small, strict = small, big, !strict
	}
	return
}
