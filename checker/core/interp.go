package core

import (
	"go/constant"
	"go/token"
	"go/types"

	"golang.org/x/tools/go/ssa"
)

// PathEnum enumerates the CFG paths of one function while tracking the small
// set of integer/boolean SSA values that are known constants on the path
// (bound by the rule, constants, arithmetic on known values, phis by incoming
// edge, lengths and elements of literal arrays). Branches on known conditions
// are followed one way, branches on unknown conditions both ways. It is a
// finite-domain, path-sensitive dataflow: no condition is ever solved.
type PathEnum struct {
	Fn *ssa.Function
	// Bind gives initial known values (e.g. the array length read from the wire).
	Bind map[ssa.Value]int64
	// EvalCall may give the value of a call (summaries of pure predicates).
	EvalCall func(c *ssa.Call, st *PathState) (int64, bool)
	// OnInstr observes every executed instruction in path order.
	OnInstr func(in ssa.Instruction, st *PathState)
	// MaxUnknownVisits bounds how often a block may be revisited on a path
	// through branches whose condition is unknown (data-dependent loops).
	MaxUnknownVisits int
	MaxPaths         int

	arrays map[*ssa.Alloc]map[int64]ssa.Value
	locals map[*ssa.Alloc]bool // function-local cells whose address never escapes (only whole loads and stores)
	depth  int
	Paths  []*PathResult
	Trunc  bool
}

// PathState is the state along one path.
type PathState struct {
	Env    map[ssa.Value]int64
	Events []string
	Taken  []Cond                   // branch outcomes in order
	Alias  map[ssa.Value]ssa.Value  // phi -> the value that flowed in on this path
	Mem    map[*ssa.Alloc]ssa.Value // last value stored into a non-escaping local cell on this path
	visits map[*ssa.BasicBlock]int
	sigs   map[string]int
	PE     *PathEnum
	Data   map[string]interface{}
}

// PathResult is a finished path.
type PathResult struct {
	State  *PathState
	Return *ssa.Return
	Panics bool
}

func (st *PathState) clone() *PathState {
	n := &PathState{sigs: make(map[string]int, len(st.sigs)), Env: make(map[ssa.Value]int64, len(st.Env)), visits: make(map[*ssa.BasicBlock]int, len(st.visits)), PE: st.PE, Data: map[string]interface{}{}, Alias: make(map[ssa.Value]ssa.Value, len(st.Alias)), Mem: make(map[*ssa.Alloc]ssa.Value, len(st.Mem))}
	for k, v := range st.Alias {
		n.Alias[k] = v
	}
	for k, v := range st.Mem {
		n.Mem[k] = v
	}
	for k, v := range st.sigs {
		n.sigs[k] = v
	}
	for k, v := range st.Env {
		n.Env[k] = v
	}
	for k, v := range st.visits {
		n.visits[k] = v
	}
	for k, v := range st.Data {
		n.Data[k] = v
	}
	n.Events = append([]string(nil), st.Events...)
	n.Taken = append([]Cond(nil), st.Taken...)
	return n
}

// Known returns the known value of v on this path.
func (st *PathState) Known(v ssa.Value) (int64, bool) {
	if x, ok := st.Env[v]; ok {
		return x, true
	}
	if x, ok := st.PE.Bind[v]; ok {
		return x, true
	}
	if c, ok := v.(*ssa.Const); ok && c.Value != nil {
		switch c.Value.Kind() {
		case constant.Int:
			if i, ok := constant.Int64Val(c.Value); ok {
				return i, true
			}
			if u, ok := constant.Uint64Val(c.Value); ok {
				return int64(u), true
			}
		case constant.Bool:
			if constant.BoolVal(c.Value) {
				return 1, true
			}
			return 0, true
		}
	}
	return 0, false
}

// Resolve follows phi aliases to the value that actually flowed on this path.
func (st *PathState) Resolve(v ssa.Value) ssa.Value {
	for i := 0; i < 8; i++ {
		a, ok := st.Alias[v]
		if !ok || a == v {
			return v
		}
		v = a
	}
	return v
}

// ArrayElem resolves the SSA value stored at a known index of a literal array
// behind addr (an IndexAddr into a slice of a local array alloc).
func (st *PathState) ArrayElem(ia *ssa.IndexAddr) (ssa.Value, bool) {
	idx, ok := st.Known(ia.Index)
	if !ok {
		return nil, false
	}
	var alloc *ssa.Alloc
	switch x := ia.X.(type) {
	case *ssa.Slice:
		alloc, _ = x.X.(*ssa.Alloc)
	case *ssa.Alloc:
		alloc = x
	}
	if alloc == nil {
		return nil, false
	}
	v, ok := st.PE.arrays[alloc][idx]
	return v, ok
}

func (pe *PathEnum) prepare() {
	pe.arrays = map[*ssa.Alloc]map[int64]ssa.Value{}
	pe.locals = map[*ssa.Alloc]bool{}
	EachInstr(pe.Fn, func(in ssa.Instruction) {
		a, ok := in.(*ssa.Alloc)
		if !ok || a.Referrers() == nil {
			return
		}
		for _, ref := range *a.Referrers() {
			switch r := ref.(type) {
			case *ssa.Store:
				if r.Addr != ssa.Value(a) {
					return // the address itself is stored somewhere
				}
			case *ssa.UnOp:
				if r.Op != token.MUL {
					return
				}
			case *ssa.DebugRef:
			case *ssa.MakeClosure:
				// bound into a closure that is only deferred and that never resets the cell to nil (it may wrap
				// or replace an error that is already set, or set one when recovering): the nil-ness of what the
				// function body stored is preserved, which is all the path results are used for
				if !deferredOnlyNonNilWriter(r, a) {
					return
				}
			default:
				return // field/index address, call argument, other closure binding, ...
			}
		}
		pe.locals[a] = true
	})
	EachInstr(pe.Fn, func(in ssa.Instruction) {
		st, ok := in.(*ssa.Store)
		if !ok {
			return
		}
		ia, ok := st.Addr.(*ssa.IndexAddr)
		if !ok {
			return
		}
		a, ok := ia.X.(*ssa.Alloc)
		if !ok {
			return
		}
		k, ok := ConstInt(ia.Index)
		if !ok {
			return
		}
		if pe.arrays[a] == nil {
			pe.arrays[a] = map[int64]ssa.Value{}
		}
		pe.arrays[a][k] = st.Val
	})
	if pe.MaxUnknownVisits == 0 {
		pe.MaxUnknownVisits = 2
	}
	if pe.MaxPaths == 0 {
		pe.MaxPaths = 4000
	}
}

func arrayLenOfType(t types.Type) (int64, bool) {
	t = t.Underlying()
	if p, ok := t.(*types.Pointer); ok {
		t = p.Elem().Underlying()
	}
	if a, ok := t.(*types.Array); ok {
		return a.Len(), true
	}
	return 0, false
}

func (pe *PathEnum) evalInstr(in ssa.Instruction, st *PathState, prev *ssa.BasicBlock) {
	if s, ok := in.(*ssa.Store); ok {
		if a, ok := s.Addr.(*ssa.Alloc); ok && pe.locals[a] {
			st.Mem[a] = st.Resolve(s.Val)
		}
		return
	}
	v, isVal := in.(ssa.Value)
	if !isVal {
		return
	}
	if _, bound := pe.Bind[v]; bound {
		st.Env[v] = pe.Bind[v]
		return
	}
	// re-executing an instruction (loop) invalidates what an earlier
	// iteration learnt about its value
	delete(st.Env, v)
	switch x := in.(type) {
	case *ssa.Phi:
		for i, p := range x.Block().Preds {
			if p == prev {
				st.Alias[x] = st.Resolve(x.Edges[i])
				if k, ok := st.Known(x.Edges[i]); ok {
					st.Env[x] = k
				} else {
					delete(st.Env, x)
				}
			}
		}
	case *ssa.BinOp:
		a, ok1 := st.Known(x.X)
		b, ok2 := st.Known(x.Y)
		if !ok1 || !ok2 {
			delete(st.Env, x)
			return
		}
		var r int64
		bo := func(c bool) int64 {
			if c {
				return 1
			}
			return 0
		}
		unsigned := false
		if bt, ok := x.X.Type().Underlying().(*types.Basic); ok && bt.Info()&types.IsUnsigned != 0 {
			unsigned = true
		}
		switch x.Op {
		case token.ADD:
			r = a + b
		case token.SUB:
			r = a - b
		case token.MUL:
			r = a * b
		case token.QUO:
			if b == 0 {
				return
			}
			r = a / b
		case token.REM:
			if b == 0 {
				return
			}
			r = a % b
		case token.AND:
			r = a & b
		case token.OR:
			r = a | b
		case token.XOR:
			r = a ^ b
		case token.SHL:
			r = a << uint64(b)
		case token.SHR:
			r = int64(uint64(a) >> uint64(b))
		case token.EQL:
			r = bo(a == b)
		case token.NEQ:
			r = bo(a != b)
		case token.LSS:
			if unsigned {
				r = bo(uint64(a) < uint64(b))
			} else {
				r = bo(a < b)
			}
		case token.LEQ:
			if unsigned {
				r = bo(uint64(a) <= uint64(b))
			} else {
				r = bo(a <= b)
			}
		case token.GTR:
			if unsigned {
				r = bo(uint64(a) > uint64(b))
			} else {
				r = bo(a > b)
			}
		case token.GEQ:
			if unsigned {
				r = bo(uint64(a) >= uint64(b))
			} else {
				r = bo(a >= b)
			}
		default:
			return
		}
		st.Env[x] = r
	case *ssa.UnOp:
		switch x.Op {
		case token.NOT:
			if a, ok := st.Known(x.X); ok {
				st.Env[x] = 1 - a
			}
		case token.SUB:
			if a, ok := st.Known(x.X); ok {
				st.Env[x] = -a
			}
		case token.MUL:
			// load of a non-escaping local cell (e.g. a result spilled because the function defers): the value
			// stored last on this path
			if a, ok := x.X.(*ssa.Alloc); ok && pe.locals[a] {
				if v, ok := st.Mem[a]; ok {
					st.Alias[x] = v
					if k, ok := st.Known(v); ok {
						st.Env[x] = k
					}
				}
			}
			// load of a literal array element with known index
			if ia, ok := x.X.(*ssa.IndexAddr); ok {
				if ev, ok := st.ArrayElem(ia); ok {
					if k, ok := st.Known(ev); ok {
						st.Env[x] = k
					}
				}
			}
		}
	case *ssa.Convert:
		if a, ok := st.Known(x.X); ok {
			st.Env[x] = a
		}
	case *ssa.ChangeType:
		if a, ok := st.Known(x.X); ok {
			st.Env[x] = a
		}
	case *ssa.Call:
		if b, ok := x.Common().Value.(*ssa.Builtin); ok && (b.Name() == "len" || b.Name() == "cap") {
			arg := x.Common().Args[0]
			if n, ok := arrayLenOfType(arg.Type()); ok {
				st.Env[x] = n
				return
			}
			if sl, ok := arg.(*ssa.Slice); ok && sl.Low == nil && sl.High == nil {
				if n, ok := arrayLenOfType(sl.X.Type()); ok {
					st.Env[x] = n
					return
				}
			}
			if c, ok := arg.(*ssa.Const); ok && c.Value != nil && c.Value.Kind() == constant.String {
				st.Env[x] = int64(len(constant.StringVal(c.Value)))
			}
			return
		}
		if pe.EvalCall != nil {
			if k, ok := pe.EvalCall(x, st); ok {
				st.Env[x] = k
				return
			}
		}
		// immediately invoked closure / local pure function returning a constant
		if mc, ok := x.Common().Value.(*ssa.MakeClosure); ok {
			if f, ok := mc.Fn.(*ssa.Function); ok {
				if k, ok := pe.evalConstFunc(f, nil, st); ok {
					st.Env[x] = k
				}
			}
			return
		}
		// a small helper of the repository (e.g. an extracted `arrayLen()` method): evaluate it with the
		// known arguments and the same predicate summaries; usable only if every path yields one constant
		if f := x.Common().StaticCallee(); f != nil && IsRepo(f) && f.Blocks != nil && len(f.Blocks) <= 24 && pe.depth < 2 {
			if bt, ok := x.Type().Underlying().(*types.Basic); ok && bt.Info()&(types.IsInteger|types.IsBoolean) != 0 {
				if k, ok := pe.evalConstFunc(f, x.Common().Args, st); ok {
					st.Env[x] = k
				}
			}
		}
	case *ssa.Extract:
		// bound extracts are handled by Bind; nothing else is known
	}
}

// evalConstFunc evaluates a closure without parameters to a constant, giving
// its free variables' pure predicate calls to EvalCall.
func (pe *PathEnum) evalConstFunc(f *ssa.Function, args []ssa.Value, outer *PathState) (int64, bool) {
	if f.Blocks == nil || len(args) != len(f.Params) {
		if !(args == nil && len(f.Params) == 0) {
			return 0, false
		}
	}
	bind := map[ssa.Value]int64{}
	for i, a := range args {
		if k, ok := outer.Known(a); ok {
			bind[f.Params[i]] = k
		}
	}
	sub := &PathEnum{Fn: f, Bind: bind, EvalCall: func(c *ssa.Call, st *PathState) (int64, bool) {
		if pe.EvalCall == nil {
			return 0, false
		}
		return pe.EvalCall(c, outer)
	}, MaxPaths: 64, depth: pe.depth + 1}
	sub.Run()
	if sub.Trunc || len(sub.Paths) == 0 {
		return 0, false
	}
	var val int64
	n := 0
	for _, p := range sub.Paths {
		if p.Panics || p.Return == nil || len(p.Return.Results) != 1 {
			continue
		}
		k, ok := p.State.Known(p.Return.Results[0])
		if !ok {
			return 0, false
		}
		if n > 0 && k != val {
			return 0, false
		}
		val = k
		n++
	}
	return val, n > 0
}

// Run enumerates the paths.
func (pe *PathEnum) Run() {
	pe.prepare()
	if len(pe.Fn.Blocks) == 0 {
		return
	}
	st := &PathState{sigs: map[string]int{}, Env: map[ssa.Value]int64{}, visits: map[*ssa.BasicBlock]int{}, PE: pe, Data: map[string]interface{}{}, Alias: map[ssa.Value]ssa.Value{}, Mem: map[*ssa.Alloc]ssa.Value{}}
	// named results (and other non-escaping locals of interface / pointer type) start as nil
	for a := range pe.locals {
		if pt, ok := a.Type().Underlying().(*types.Pointer); ok {
			switch pt.Elem().Underlying().(type) {
			case *types.Interface, *types.Pointer, *types.Slice, *types.Map:
				st.Mem[a] = ssa.NewConst(nil, pt.Elem())
			}
		}
	}
	pe.walk(pe.Fn.Blocks[0], nil, st)
}

func (pe *PathEnum) walk(b, prev *ssa.BasicBlock, st *PathState) {
	for {
		if len(pe.Paths) >= pe.MaxPaths {
			pe.Trunc = true
			return
		}
		st.visits[b]++
		if st.visits[b] > 70 {
			pe.Trunc = true
			return
		}
		for _, in := range b.Instrs {
			pe.evalInstr(in, st, prev)
			if pe.OnInstr != nil {
				pe.OnInstr(in, st)
			}
		}
		last := b.Instrs[len(b.Instrs)-1]
		switch t := last.(type) {
		case *ssa.Return:
			pe.Paths = append(pe.Paths, &PathResult{State: st, Return: t})
			return
		case *ssa.Panic:
			pe.Paths = append(pe.Paths, &PathResult{State: st, Panics: true})
			return
		case *ssa.Jump:
			prev, b = b, b.Succs[0]
		case *ssa.If:
			if k, ok := st.Known(t.Cond); ok {
				c := normCond(Cond{V: t.Cond, True: k != 0, If: t})
				st.Taken = append(st.Taken, c)
				if k != 0 {
					prev, b = b, b.Succs[0]
				} else {
					prev, b = b, b.Succs[1]
				}
				continue
			}
			// unknown: fork, bounding revisits
			for i := 0; i < 2; i++ {
				s := b.Succs[i]
				// revisiting a block through an unknown branch is bounded per
				// distinct valuation of the block's phis (a counted loop with
				// an error check inside makes progress; a data-dependent loop
				// does not)
				sig := entrySignature(s, b, st)
				if st.sigs[sig] >= pe.MaxUnknownVisits {
					continue
				}
				n := st.clone()
				n.sigs[sig]++
				n.Taken = append(n.Taken, normCond(Cond{V: t.Cond, True: i == 0, If: t}))
				// record what the edge tells about the condition
				n.Env[t.Cond] = int64(1 - i)
				pe.walk(s, b, n)
			}
			return
		default:
			if len(b.Succs) == 1 {
				prev, b = b, b.Succs[0]
				continue
			}
			return
		}
	}
}

// ErrOutcome classifies the error returned in result position idx on a path:
// "nil", "nonnil" or "maybe".
func (pr *PathResult) ErrOutcome(idx int) string {
	if pr.Panics || pr.Return == nil || idx >= len(pr.Return.Results) {
		return "maybe"
	}
	v := pr.State.Resolve(pr.Return.Results[idx])
	if c, ok := v.(*ssa.Const); ok && c.Value == nil {
		return "nil"
	}
	if c, ok := v.(*ssa.Call); ok {
		switch CalleeName(c) {
		case "fmt.Errorf", "errors.New":
			return "nonnil"
		}
	}
	if mi, ok := v.(*ssa.MakeInterface); ok {
		_ = mi
		return "nonnil"
	}
	out := "maybe"
	if vc, ok := v.(*ssa.Call); ok && vc.Common().StaticCallee() != nil {
		// `if x.F() != nil { return x.F() }`: a repeated call of the same method on
		// the same receiver that was just found non-nil
		for _, c := range pr.State.Taken {
			x, isNil, ok := NilCmp(c)
			if !ok {
				continue
			}
			if xc, ok := x.(*ssa.Call); ok && xc != vc && xc.Common().StaticCallee() == vc.Common().StaticCallee() && len(xc.Common().Args) == len(vc.Common().Args) {
				same := true
				for i := range xc.Common().Args {
					if xc.Common().Args[i] != vc.Common().Args[i] && !SameLoad(xc.Common().Args[i], vc.Common().Args[i]) {
						same = false
					}
				}
				if same {
					if isNil {
						out = "nil"
					} else {
						out = "nonnil"
					}
				}
			}
		}
	}
	for _, c := range pr.State.Taken {
		x, isNil, ok := NilCmp(c)
		if !ok {
			continue
		}
		if rx := pr.State.Resolve(x); rx == v || SameLoad(rx, v) {
			// the most recent test of this value decides (loops re-test it)
			if isNil {
				out = "nil"
			} else {
				out = "nonnil"
			}
		}
	}
	return out
}

func entrySignature(s, pred *ssa.BasicBlock, st *PathState) string {
	sig := []byte(s.String())
	for _, in := range s.Instrs {
		phi, ok := in.(*ssa.Phi)
		if !ok {
			break
		}
		for i, p := range s.Preds {
			if p == pred {
				if k, ok := st.Known(phi.Edges[i]); ok {
					sig = append(sig, []byte(";"+phi.Name()+"=")...)
					sig = appendInt(sig, k)
				}
			}
		}
	}
	return string(sig)
}

func appendInt(b []byte, k int64) []byte {
	if k < 0 {
		b = append(b, '-')
		k = -k
	}
	if k >= 10 {
		b = appendInt(b, k/10)
	}
	return append(b, byte('0'+k%10))
}

// deferredOnlyNonNilWriter: mc is used only as the function of defer statements, and inside it the free variable
// bound to a is loaded or assigned non-nil values only.
func deferredOnlyNonNilWriter(mc *ssa.MakeClosure, a *ssa.Alloc) bool {
	if mc.Referrers() == nil {
		return false
	}
	for _, ref := range *mc.Referrers() {
		if _, ok := ref.(*ssa.Defer); !ok {
			return false
		}
	}
	fn, ok := mc.Fn.(*ssa.Function)
	if !ok {
		return false
	}
	var fv *ssa.FreeVar
	for i, b := range mc.Bindings {
		if b == ssa.Value(a) && i < len(fn.FreeVars) {
			fv = fn.FreeVars[i]
		}
	}
	if fv == nil || fv.Referrers() == nil {
		return false
	}
	for _, ref := range *fv.Referrers() {
		switch r := ref.(type) {
		case *ssa.UnOp:
			if r.Op != token.MUL {
				return false
			}
		case *ssa.Store:
			if r.Addr != ssa.Value(fv) {
				return false
			}
			if c, isC := r.Val.(*ssa.Const); isC && c.Value == nil {
				return false // resets to nil
			}
			switch v := r.Val.(type) {
			case *ssa.Call, *ssa.MakeInterface:
				_ = v // a freshly made error value
			default:
				return false
			}
		case *ssa.DebugRef:
		default:
			return false
		}
	}
	return true
}
