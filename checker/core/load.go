// Package core holds the shared infrastructure of dtnlint: loading the
// type-checked program of /repo, SSA construction, anchor resolution, CFG
// queries and the obligation report.
package core

import (
	"fmt"
	"go/token"
	"go/types"
	"os"
	"sort"
	"strings"

	"golang.org/x/tools/go/callgraph"
	"golang.org/x/tools/go/packages"
	"golang.org/x/tools/go/ssa"
	"golang.org/x/tools/go/ssa/ssautil"
)

// ModPath is the module path of the analysed repository.
const ModPath = "github.com/dtn7/dtn7-go"

// MinPackages is the number of non-test packages confirmed by hand on the
// pinned tree; fewer means the loader did not see the whole build.
const MinPackages = 14

// Program is the loaded, type-checked and SSA-built repository.
type Program struct {
	Dir    string
	Fset   *token.FileSet
	Pkgs   []*packages.Package // repo packages only (roots)
	All    map[string]*packages.Package
	SSA    *ssa.Program
	SPkgs  map[string]*ssa.Package // by import path, repo + deps
	Env    []string
	Tags   string
	cg     *callgraph.Graph
	daemon map[*ssa.Function]bool
}

// Config selects the build configuration to analyse.
type Config struct {
	Dir    string
	GOOS   string
	GOARCH string
	Tags   string
	Tests  bool
}

// UndecidedError marks a failure of the analysis itself (exit code 2).
type UndecidedError struct{ Msg string }

func (e *UndecidedError) Error() string { return e.Msg }

// Undecided panics with an UndecidedError; the driver turns it into exit 2.
func Undecided(format string, a ...interface{}) {
	panic(&UndecidedError{Msg: fmt.Sprintf(format, a...)})
}

// Load loads ./... of the repository with full syntax and builds SSA.
func Load(cfg Config) (*Program, error) {
	env := []string{}
	for _, e := range os.Environ() {
		if strings.HasPrefix(e, "GOWORK=") || strings.HasPrefix(e, "GOFLAGS=") ||
			strings.HasPrefix(e, "GOOS=") || strings.HasPrefix(e, "GOARCH=") {
			continue
		}
		env = append(env, e)
	}
	env = append(env, "GOWORK=off", "GOFLAGS=-mod=mod", "GOPROXY=off", "GOSUMDB=off", "GOTOOLCHAIN=local", "CGO_ENABLED=0")
	if cfg.GOOS != "" {
		env = append(env, "GOOS="+cfg.GOOS)
	}
	if cfg.GOARCH != "" {
		env = append(env, "GOARCH="+cfg.GOARCH)
	}
	pc := &packages.Config{
		Mode:  packages.LoadAllSyntax,
		Dir:   cfg.Dir,
		Env:   env,
		Tests: cfg.Tests,
		Fset:  token.NewFileSet(),
	}
	if cfg.Tags != "" {
		pc.BuildFlags = []string{"-tags=" + cfg.Tags}
	}
	roots, err := packages.Load(pc, "./...")
	if err != nil {
		return nil, fmt.Errorf("packages.Load: %v", err)
	}
	var errs []string
	all := map[string]*packages.Package{}
	packages.Visit(roots, nil, func(p *packages.Package) {
		all[p.ID] = p
		if strings.HasPrefix(p.PkgPath, ModPath) {
			for _, e := range p.Errors {
				errs = append(errs, e.Error())
			}
		}
	})
	if len(errs) > 0 {
		return nil, fmt.Errorf("type/load errors in repo packages:\n  %s", strings.Join(errs, "\n  "))
	}
	n := 0
	for _, p := range roots {
		if strings.HasPrefix(p.PkgPath, ModPath) && !strings.HasSuffix(p.ID, ".test") && !strings.Contains(p.ID, "[") {
			n++
		}
	}
	if n < MinPackages {
		return nil, fmt.Errorf("only %d repo packages loaded, expected >= %d", n, MinPackages)
	}
	prog, _ := ssautil.AllPackages(roots, ssa.InstantiateGenerics)
	prog.Build()
	canonicaliseComparisons(prog)
	sp := map[string]*ssa.Package{}
	for _, p := range prog.AllPackages() {
		if p.Pkg != nil {
			if _, dup := sp[p.Pkg.Path()]; !dup || !cfg.Tests {
				sp[p.Pkg.Path()] = p
			}
		}
	}
	sort.Slice(roots, func(i, j int) bool { return roots[i].ID < roots[j].ID })
	return &Program{Dir: cfg.Dir, Fset: pc.Fset, Pkgs: roots, All: all, SSA: prog, SPkgs: sp, Env: env, Tags: cfg.Tags}, nil
}

// Pkg returns the SSA package for a path relative to the module root
// ("pkg/bpv7") or an absolute import path.
func (p *Program) Pkg(rel string) *ssa.Package {
	path := rel
	if !strings.Contains(rel, ".") {
		path = ModPath + "/" + rel
	}
	sp := p.SPkgs[path]
	if sp == nil {
		Undecided("anchor: package %s not found", path)
	}
	return sp
}

// Func resolves a package-level function or a method. recv is "" for a
// function, otherwise the name of the receiver's named type; the method is
// looked up on both T and *T.
func (p *Program) Func(pkg, recv, name string) *ssa.Function {
	f := p.FuncOpt(pkg, recv, name)
	if f == nil {
		Undecided("anchor: function %s.%s.%s not found", pkg, recv, name)
	}
	return f
}

// FuncOpt is Func but returns nil instead of failing.
func (p *Program) FuncOpt(pkg, recv, name string) *ssa.Function {
	sp := p.Pkg(pkg)
	if recv == "" {
		return sp.Func(name)
	}
	t := sp.Type(recv)
	if t == nil {
		return nil
	}
	for _, typ := range []types.Type{t.Type(), types.NewPointer(t.Type())} {
		ms := p.SSA.MethodSets.MethodSet(typ)
		for i := 0; i < ms.Len(); i++ {
			sel := ms.At(i)
			if sel.Obj().Name() == name && sel.Obj().Pkg() == sp.Pkg {
				if fn := p.SSA.MethodValue(sel); fn != nil && fn.Synthetic == "" {
					return fn
				}
			}
		}
	}
	// fall back to synthetic wrappers' targets
	for _, typ := range []types.Type{t.Type(), types.NewPointer(t.Type())} {
		ms := p.SSA.MethodSets.MethodSet(typ)
		for i := 0; i < ms.Len(); i++ {
			sel := ms.At(i)
			if sel.Obj().Name() == name && sel.Obj().Pkg() == sp.Pkg {
				if fn, ok := sel.Obj().(*types.Func); ok {
					return p.SSA.FuncValue(fn)
				}
			}
		}
	}
	return nil
}

// Named resolves a named type of a repo package.
func (p *Program) Named(pkg, name string) *types.Named {
	sp := p.Pkg(pkg)
	t := sp.Type(name)
	if t == nil {
		Undecided("anchor: type %s.%s not found", pkg, name)
	}
	n, ok := t.Type().(*types.Named)
	if !ok {
		Undecided("anchor: %s.%s is not a named type", pkg, name)
	}
	return n
}

// Const resolves a package-level constant.
func (p *Program) Const(pkg, name string) *ssa.NamedConst {
	sp := p.Pkg(pkg)
	c := sp.Const(name)
	if c == nil {
		Undecided("anchor: const %s.%s not found", pkg, name)
	}
	return c
}

// IsRepo reports whether fn belongs to the analysed module.
func IsRepo(fn *ssa.Function) bool {
	if fn == nil {
		return false
	}
	if fn.Pkg != nil {
		return strings.HasPrefix(fn.Pkg.Pkg.Path(), ModPath)
	}
	if fn.Parent() != nil {
		return IsRepo(fn.Parent())
	}
	if o := fn.Object(); o != nil && o.Pkg() != nil {
		return strings.HasPrefix(o.Pkg().Path(), ModPath)
	}
	return false
}

// RepoFuncs returns every source function (incl. anonymous) of the repo,
// sorted by name for determinism.
func (p *Program) RepoFuncs() []*ssa.Function {
	var out []*ssa.Function
	for fn := range ssautil.AllFunctions(p.SSA) {
		if IsRepo(fn) && fn.Blocks != nil && fn.Synthetic == "" {
			out = append(out, fn)
		}
	}
	sort.Slice(out, func(i, j int) bool { return out[i].String() < out[j].String() })
	return out
}

// Pos renders a position relative to the repo root.
func (p *Program) Pos(pos token.Pos) string {
	if !pos.IsValid() {
		return "?"
	}
	ps := p.Fset.Position(pos)
	f := ps.Filename
	if strings.HasPrefix(f, p.Dir+"/") {
		f = f[len(p.Dir)+1:]
	}
	return fmt.Sprintf("%s:%d", f, ps.Line)
}

// FuncName renders a function as pkg.Recv.name with the module prefix cut.
func FuncName(fn *ssa.Function) string {
	s := fn.String()
	s = strings.ReplaceAll(s, ModPath+"/", "")
	s = strings.ReplaceAll(s, "(*", "")
	s = strings.ReplaceAll(s, "(", "")
	s = strings.ReplaceAll(s, ")", "")
	return s
}

// canonicaliseComparisons rewrites, in the SSA of the repository's own functions, every comparison whose LEFT operand
// is a constant and whose right operand is not (`0 < len(x)`, `nil != err`, `CRC32 == t`) into the mirrored form with
// the constant on the right (`len(x) > 0`, ...). The two spellings are the same program; the rules then need to know
// one. Operand sets do not change, so referrer lists stay valid.
func canonicaliseComparisons(prog *ssa.Program) {
	mirror := map[token.Token]token.Token{token.EQL: token.EQL, token.NEQ: token.NEQ, token.LSS: token.GTR, token.GTR: token.LSS, token.LEQ: token.GEQ, token.GEQ: token.LEQ}
	for fn := range ssautil.AllFunctions(prog) {
		if fn.Pkg == nil || fn.Pkg.Pkg == nil || !strings.HasPrefix(fn.Pkg.Pkg.Path(), ModPath) {
			continue
		}
		for _, b := range fn.Blocks {
			for _, in := range b.Instrs {
				bo, ok := in.(*ssa.BinOp)
				if !ok {
					continue
				}
				m, isCmp := mirror[bo.Op]
				if !isCmp {
					continue
				}
				_, lc := bo.X.(*ssa.Const)
				_, rc := bo.Y.(*ssa.Const)
				if lc && !rc {
					bo.X, bo.Y, bo.Op = bo.Y, bo.X, m
				}
			}
		}
	}
}
