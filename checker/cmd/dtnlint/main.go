// dtnlint decides the properties of /verif/properties.jsonl for the dtn7-go
// tree under $REPO (default /repo) by static analysis only.
package main

import (
	"encoding/json"
	"flag"
	"fmt"
	"os"
	"path/filepath"
	"runtime/debug"
	"strconv"

	"dtnverif/core"
	"dtnverif/rules"
)

func main() {
	prop := flag.String("prop", "", "property id (C01..C20)")
	tier := flag.String("tier", "quick", "quick|thorough")
	repo := flag.String("repo", envOr("REPO", "/repo"), "repository to analyse")
	verif := flag.String("verif", envOr("VERIF", "/verif"), "verif directory (known findings, evidence)")
	evidence := flag.String("evidence", "", "evidence file (default <verif>/evidence/<prop>.json)")
	noEvidence := flag.Bool("no-evidence", false, "do not write an evidence file")
	goos := flag.String("goos", "", "GOOS to analyse")
	goarch := flag.String("goarch", "", "GOARCH to analyse")
	tags := flag.String("tags", "", "build tags")
	selftest := flag.String("selftest", "", "JSON file with the results of the checker's mutation self-test (thorough tier)")
	explore := flag.Bool("explore-locks", false, "print lock statistics per struct field (candidate discovery)")
	flag.Parse()
	if *explore {
		exploreLocks(*repo)
		return
	}
	seed, _ := strconv.Atoi(os.Getenv("VERIF_SEED"))

	rule, ok := rules.Registry[*prop]
	if !ok {
		fmt.Printf("UNDECIDED unknown property %q\n", *prop)
		os.Exit(2)
	}
	evPath := *evidence
	if evPath == "" {
		evPath = filepath.Join(*verif, "evidence", *prop+".json")
	}
	if *noEvidence {
		evPath = ""
	}
	code := 2
	func() {
		defer func() {
			if r := recover(); r != nil {
				if u, ok := r.(*core.UndecidedError); ok {
					fmt.Printf("UNDECIDED property=%s %s\n", *prop, u.Msg)
				} else {
					fmt.Printf("UNDECIDED property=%s checker panic: %v\n%s\n", *prop, r, debug.Stack())
				}
				code = 2
			}
		}()
		kf, err := core.LoadKnown(filepath.Join(*verif, "known_findings.txt"))
		if err != nil {
			fmt.Printf("UNDECIDED property=%s known findings unreadable: %v\n", *prop, err)
			return
		}
		rep := core.NewReport(*prop, *tier)
		cfgs := []core.Config{{Dir: *repo, GOOS: *goos, GOARCH: *goarch, Tags: *tags}}
		if *tier == "thorough" && *goos == "" && *goarch == "" && *tags == "" {
			// the same rules over every build configuration that changes which files
			// or which integer widths are compiled
			cfgs = append(cfgs,
				core.Config{Dir: *repo, GOOS: "windows"}, // compiles mtcp/client_dial.go (!linux); darwin/bsd need cgo for a dependency
				core.Config{Dir: *repo, GOARCH: "386"},
				core.Config{Dir: *repo, Tags: "gofuzz"})
		}
		var cfgNames []string
		for _, cfg := range cfgs {
			prog, err := core.Load(cfg)
			if err != nil {
				fmt.Printf("UNDECIDED property=%s load failed (%+v): %v\n", *prop, cfg, err)
				code = 2
				return
			}
			name := fmt.Sprintf("GOOS=%s GOARCH=%s tags=%s", cfg.GOOS, cfg.GOARCH, cfg.Tags)
			cfgNames = append(cfgNames, name)
			rep.Analysed["packages"] = len(prog.Pkgs)
			rep.Analysed["repo_functions"] = len(prog.RepoFuncs())
			rep.NewConfig()
			// a panic inside a rule (a shape of code it did not expect) makes the
			// property undecided, but what the rule had established before is kept
			// and reported
			func() {
				defer func() {
					if x := recover(); x != nil {
						if u, ok := x.(*core.UndecidedError); ok {
							rep.Unknown("checker/undecided", "every rule must reach a verdict", "", u.Msg)
							return
						}
						st := string(debug.Stack())
						if len(st) > 1500 {
							st = st[:1500]
						}
						rep.Unknown("checker/panic", "every rule must run to completion", "", fmt.Sprintf("checker panic: %v\n%s", x, st))
					}
				}()
				rule(prog, rep)
			}()
			fmt.Printf("analysed configuration {%s}: %d packages, %d repo functions\n", name, len(prog.Pkgs), len(prog.RepoFuncs()))
		}
		rep.Analysed["configurations"] = cfgNames
		if *selftest != "" {
			var st struct {
				Mutants []map[string]interface{} `json:"mutants"`
				Error   string                   `json:"error"`
			}
			if b, err := os.ReadFile(*selftest); err == nil && json.Unmarshal(b, &st) == nil {
				rep.Analysed["checker_selftest"] = st.Mutants
				killed, skipped := 0, 0
				for _, m := range st.Mutants {
					switch m["status"] {
					case "killed":
						killed++
					case "skipped":
						skipped++
					case "quiet":
						killed++
					case "FALSE-ALARM":
						rep.Unknown(fmt.Sprintf("checker-selftest/%v", m["mutant"]), "a behaviour-preserving refactoring must not raise an alarm", "", fmt.Sprintf("the checker reported %v on a scratch copy with a benign refactoring applied", m["alarms"]))
					case "MISSED":
						rep.Unknown(fmt.Sprintf("checker-selftest/%v", m["mutant"]), "a change known to break the property (reverse patch of a fix / seeded patch) must be reported with its obligation key", "", fmt.Sprintf("mutant applied to a scratch copy was NOT reported (expected %v): the checker lost this detection", m["expect"]))
					}
				}
				fmt.Printf("checker self-test: %d variants, %d as expected (killed mutants / quiet refactorings), %d skipped (do not apply to this tree)\n", len(st.Mutants), killed, skipped)
				if st.Error != "" {
					fmt.Printf("checker self-test: %s\n", st.Error)
				}
			}
		}
		code = rep.Finish(kf, evPath, seed)
	}()
	os.Exit(code)
}

func envOr(k, d string) string {
	if v := os.Getenv(k); v != "" {
		return v
	}
	return d
}
