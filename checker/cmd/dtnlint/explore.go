package main

import (
	"fmt"
	"go/token"
	"os"
	"sort"

	"dtnverif/core"

	"golang.org/x/tools/go/ssa"
)

// exploreLocks prints, for every struct field of the repository, how many of its accesses happen while some mutex is
// held (candidate discovery only; confirmed instances are frozen in the rules).
func exploreLocks(repo string) {
	p, err := core.Load(core.Config{Dir: repo})
	if err != nil {
		fmt.Println(err)
		os.Exit(2)
	}
	type stat struct {
		locked, unlocked int
		where            map[string]int
	}
	stats := map[string]*stat{}
	for _, fn := range p.RepoFuncs() {
		ls := core.ComputeLockSets(fn)
		core.EachInstr(fn, func(in ssa.Instruction) {
			var addr ssa.Value
			switch x := in.(type) {
			case *ssa.UnOp:
				if x.Op == token.MUL {
					addr = x.X
				}
			case *ssa.Store:
				addr = x.Addr
			}
			if addr == nil {
				return
			}
			owner, field, ok := core.FieldOwner(addr)
			if !ok || owner == nil || owner.Obj() == nil || owner.Obj().Pkg() == nil {
				return
			}
			k := owner.Obj().Pkg().Name() + "." + owner.Obj().Name() + "." + field
			s := stats[k]
			if s == nil {
				s = &stat{where: map[string]int{}}
				stats[k] = s
			}
			if len(ls.At[in]) > 0 {
				s.locked++
			} else {
				s.unlocked++
				s.where[core.FuncName(fn)]++
			}
		})
	}
	var keys []string
	for k, s := range stats {
		if s.locked > 0 {
			keys = append(keys, k)
		}
	}
	sort.Strings(keys)
	for _, k := range keys {
		s := stats[k]
		fmt.Printf("%-55s locked=%d unlocked=%d %v\n", k, s.locked, s.unlocked, s.where)
	}
}
