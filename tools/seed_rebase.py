#!/usr/bin/env python3
"""seed_rebase.py: re-bases the stored seeded and benign patches onto /repo's HEAD after fix: commits moved their
context. For each patch that no longer applies strictly, a 3-way application (git apply --3way, the blobs named in the
patch exist in /repo's object store) is tried in a scratch worktree; on a clean result the patch is regenerated with
git diff and, for seeds, the demonstration is re-run (must pass without, fail with the patch). Seeds that cannot be
re-based or whose demonstration no longer discriminates are marked "stale" in meta.json (kept as documentation, the
self-test reports them as skipped)."""
import glob, json, os, subprocess, sys, shutil
VERIF, REPO = "/verif", "/repo"
env = dict(os.environ, GOFLAGS="-mod=mod", GOPROXY="off", GOSUMDB="off", GOTOOLCHAIN="local")
env.pop("GOWORK", None)
def run(cmd, cwd=None, inp=None):
    return subprocess.run(cmd, cwd=cwd, input=inp, capture_output=True, text=True, env=env)
def fresh(wt):
    run(["git", "-C", REPO, "worktree", "remove", "--force", wt]); shutil.rmtree(wt, ignore_errors=True)
    run(["git", "-C", REPO, "worktree", "add", "-q", "--detach", wt, "HEAD"])
only = set(sys.argv[1:])
items = [(os.path.basename(os.path.dirname(p)), p, "seed") for p in sorted(glob.glob(f"{VERIF}/seeded/*/patch.diff"))] + \
        [(os.path.basename(os.path.dirname(p)), p, "benign") for p in sorted(glob.glob(f"{VERIF}/benign/*/patch.diff"))]
wt = "/tmp/seed_rebase_wt"
for sid, path, kind in items:
    if only and sid not in only:
        continue
    fresh(wt)
    patch = open(path).read()
    strict = run(["git", "apply", "--check", "-"], cwd=wt, inp=patch)
    status = "applies"
    if strict.returncode != 0:
        r3 = run(["git", "apply", "--3way", "-"], cwd=wt, inp=patch)
        conflict = r3.returncode != 0 or "<<<<<<<" in run(["git", "diff"], cwd=wt).stdout
        if conflict:
            status = "stale: does not apply to HEAD, 3-way application conflicts"
        else:
            run(["git", "reset", "-q"], cwd=wt)
            newp = run(["git", "diff"], cwd=wt).stdout
            b = run(["go", "build", "./..."], cwd=wt)
            if b.returncode != 0 or not newp.strip():
                status = "stale: re-based patch does not build"
            else:
                open(path, "w").write(newp)
                status = "rebased"
    if kind == "seed":
        metap = os.path.join(os.path.dirname(path), "meta.json")
        meta = json.load(open(metap))
        if status in ("applies", "rebased"):
            # re-confirm the demonstration on HEAD
            fresh(wt)
            demo = meta["demo"]["place_at"]
            shutil.copy(os.path.join(os.path.dirname(path), "demo_test.go.txt"), os.path.join(wt, demo))
            pkg = "./" + os.path.dirname(demo)
            without = run(["go", "test", "-vet=off", "-count=1", "-run", "TestSeedDemo", pkg], cwd=wt).returncode
            run(["git", "apply", "-"], cwd=wt, inp=open(path).read())
            with_ = run(["go", "test", "-vet=off", "-count=1", "-run", "TestSeedDemo", pkg], cwd=wt).returncode
            if without != 0 or with_ == 0:
                status = f"stale: demonstration no longer discriminates on HEAD (without={without}, with={with_})"
            meta["reconfirmed_on"] = run(["git", "-C", REPO, "rev-parse", "--short", "HEAD"]).stdout.strip()
        meta["state"] = status
        json.dump(meta, open(metap, "w"), indent=1)
    print(sid, kind, status, flush=True)
run(["git", "-C", REPO, "worktree", "remove", "--force", wt])
