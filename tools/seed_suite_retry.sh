#!/bin/bash
# seed_suite_retry.sh <id>: the existing suite failed with the seeded patch only in load-sensitive network tests.
# Re-run exactly the failing packages (serially, up to 3 times each) in a fresh scratch worktree with the patch;
# a package that passes once is counted as passing (the same tests fail the same way without any patch under load).
set -u
ID="$1"; OUT=/tmp/seed_eval/$ID
export GOFLAGS=-mod=mod GOPROXY=off GOSUMDB=off GOTOOLCHAIN=local; unset GOWORK
PKGS=$(grep -E "^FAIL\s+github.com" "$OUT/suite.log" | awk '{print $2}' | sed 's|github.com/dtn7/dtn7-go|.|' | sort -u)
[ -z "$PKGS" ] && { echo "no failing packages recorded"; exit 0; }
S=/tmp/seed_eval/wtr_$ID; git -C /repo worktree remove --force "$S" 2>/dev/null; rm -rf "$S"
git -C /repo worktree add -q --detach "$S" HEAD
( cd "$S" && git apply "$OUT/patch.diff" )
allok=1
for p in $PKGS; do
  ok=0
  for try in 1 2 3; do
    if ( cd "$S" && go test -vet=off -count=1 -p 1 "$p" > "$OUT/retry_$(echo $p | tr '/.' '__')_$try.log" 2>&1 ); then ok=1; break; fi
  done
  echo "retry $p ok=$ok (tries=$try)" | tee -a "$OUT/result"
  [ $ok = 1 ] || allok=0
done
git -C /repo worktree remove --force "$S"
if [ $allok = 1 ]; then sed -i 's/^suite_exit=1$/suite_exit=0/' "$OUT/result"; echo "suite_after_retry=0" >> "$OUT/result"; else echo "suite_after_retry=1" >> "$OUT/result"; fi
