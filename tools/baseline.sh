#!/bin/sh
# Runs the repository's pinned test suite (guard off — there are no hooks) and
# compares the passing tests with /root/.vp/BASELINE.json.
export GOFLAGS=-mod=mod GOPROXY=off GOSUMDB=off GOTOOLCHAIN=local
unset GOWORK
OUT="${1:-/tmp/baseline.json}"
cd /repo && go test -json -vet=off -count=1 -timeout 25m ./... > "$OUT" 2>/tmp/baseline.err
python3 - "$OUT" <<'PY'
import json,sys
passed=set(); failed=set()
for l in open(sys.argv[1]):
    try: e=json.loads(l)
    except: continue
    if e.get("Test") and e.get("Action") in("pass","fail"):
        (passed if e["Action"]=="pass" else failed).add(e["Package"]+"::"+e["Test"])
b=json.load(open("/root/.vp/BASELINE.json"))
missing=[t for t in b["stable_pass"] if t not in passed]
print("passed",len(passed),"failed",sorted(failed),"baseline missing",missing)
sys.exit(1 if missing else 0)
PY
