#!/usr/bin/env python3
"""Generates /verif/MANIFEST.json from the table below (single source of truth)."""
import json, os, sys
HERE = os.path.dirname(os.path.dirname(os.path.abspath(__file__)))

TRUST = ("Trusted: go/types, go/ssa and the VTA call graph of golang.org/x/tools v0.29.0; the library summaries "
         "listed in the evidence file's assumptions. The check decides structural necessary conditions on every path / "
         "call site of the current source; it does not execute dtn7 code and does not decide the run-time behaviour as a whole.")

# id -> (technique, level text, not-decided note, design ref)
CLAIMED = {}
NOT_YET = {}

def claim(pid, technique, text, note, ref):
    CLAIMED[pid] = dict(technique=technique, text=text, note=note, ref=ref)

exec(open(os.path.join(HERE, "tools", "claims.py")).read())

props = [json.loads(l)["id"] for l in open(os.path.join(HERE, "properties.jsonl"))]
checks, na = [], []
for pid in props:
    if pid in CLAIMED:
        c = CLAIMED[pid]
        checks.append({
            "property_id": pid,
            "quick_cmd": f"./check {pid} quick",
            "thorough_cmd": f"./check {pid} thorough",
            "evidence_file": f"/verif/evidence/{pid}.json",
            "replay_cmd_template": f"./check {pid} quick   # the evidence file {{path}} lists every violated obligation with file:line",
            "engine": "dtnlint",
            "level_claimed": {"category": "other", "text": c["text"], "design_ref": c["ref"]},
            "level_note": c["note"] + " " + TRUST,
            "technique": c["technique"],
        })
    else:
        na.append({"property_id": pid, "reason": NOT_YET.get(pid, "static check for this property is not built yet (work in progress, see DESIGN.md §3)")})

m = {
    "version": 1,
    "setup_cmd": "cd /verif/checker && GOFLAGS=-mod=mod GOPROXY=off GOSUMDB=off GOTOOLCHAIN=local CGO_ENABLED=0 go build -o /verif/bin/dtnlint ./cmd/dtnlint",
    "hooks": {
        "guard": "verif",
        "enable": "none needed: static analysis reads the unmodified source; no hook commits exist",
        "baseline_off_cmd": "cd /repo && go test -vet=off -count=1 -timeout 25m ./...",
        "source_commits": [],
        "add_only": True,
    },
    "engines": [{
        "name": "dtnlint",
        "path": "/verif/checker",
        "serves_properties": sorted(CLAIMED),
        "kind_free_text": "repository-specific static analyser (go/packages + go/types + go/ssa + VTA call graph): guarded-call / must-pass-through / who-may-write / lockset / taint / wire-grammar rules over the type-checked program of /repo",
    }],
    "checks": checks,
    "not_applicable": na,
    "notes": "All checks are static: ./check <id> <tier> loads /repo's current working tree with go/packages on every run. Exit 0 held, 1 VIOLATION, 2 the analysis could not decide (never a VIOLATION line). known_findings.txt lists triaged genuine defects (known:/fixed:).",
}
json.dump(m, open(os.path.join(HERE, "MANIFEST.json"), "w"), indent=1)
print("claimed:", sorted(CLAIMED), "not_applicable:", [x["property_id"] for x in na])
