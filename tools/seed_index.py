#!/usr/bin/env python3
import json, glob, os
rows = []
for m in sorted(glob.glob('/verif/seeded/*/meta.json')):
    d = json.load(open(m))
    det = "; ".join(f"{x['prop']}: `{x['expect']}`" for x in d['detected_by']) or "NOT DETECTED"
    rows.append(f"| {d['id']} | {d['breaks_property']} | {d['needs_to_manifest']} | {det} | {'yes' if d['rule_strengthened_first'] else 'no'} |")
open('/verif/seeded/INDEX.md', 'w').write(
    "# Seeded changes\n\nEach directory holds `patch.diff` (apply with `git -C /repo apply`), the demonstration (`demo_test.go.txt`, "
    "copy to the path in `meta.json`), and `meta.json` (what it breaks, what it needs to manifest, what was run to confirm it, "
    "which obligation reports it). All were written by sub-agents that saw only the property text.\n\n"
    "| id | property | needs to manifest | detected by (property: obligation key) | rule strengthened first |\n|---|---|---|---|---|\n" + "\n".join(rows) + "\n")
print(len(rows), "seeds indexed")
