#!/usr/bin/env python3
"""seed_store.py <id> <breaks-prop> <expect-key[,prop2:key2...]> <strengthened yes/no> <needs...>
Copies a confirmed seeded change from /tmp/seed_eval/<id>/ into /verif/seeded/<id>/."""
import json, os, shutil, sys
sid, prop, expects, strengthened = sys.argv[1:5]
needs = " ".join(sys.argv[5:])
src = f"/tmp/seed_eval/{sid}"
dst = f"/verif/seeded/{sid}"
os.makedirs(dst, exist_ok=True)
shutil.copy(f"{src}/patch.diff", f"{dst}/patch.diff")
shutil.copy(f"{src}/zz_seed_test.go", f"{dst}/demo_test.go.txt")
res = dict(l.strip().split("=", 1) for l in open(f"{src}/result") if "=" in l and not l.startswith("violated"))
logf = f"/tmp/seed_eval_{sid}.log"
if "suite_exit" not in res and os.path.exists(logf):
    for l in open(logf):
        if l.startswith("suite_exit="):
            res["suite_exit"] = l.strip().split("=")[1]
det = []
for e in expects.split(","):
    if ":" in e and e.split(":")[0].startswith("C") and len(e.split(":")[0]) == 3:
        p, k = e.split(":", 1)
    else:
        p, k = prop, e
    det.append({"prop": p, "expect": k})
meta = {
    "id": sid,
    "breaks_property": prop,
    "needs_to_manifest": needs,
    "demo": {"file": "demo_test.go.txt", "place_at": open(f"{src}/demo_path").read().strip(), "run": "go test -vet=off -count=1 -run TestSeedDemo ./" + os.path.dirname(open(f"{src}/demo_path").read().strip())},
    "confirmed": {
        "how": "tools/seed_eval.sh: fresh scratch worktree of /repo HEAD; demo without the patch; git apply patch; go build ./...; demo with the patch; go test -vet=off -count=1 ./... with the patch; dtnlint on a patched copy",
        "demo_without_patch_exit": int(res.get("demo_without_exit", -1)),
        "build_with_patch_exit": int(res.get("build_exit", -1)),
        "demo_with_patch_exit": int(res.get("demo_with_exit", -1)),
        "existing_suite_with_patch_exit": int(res.get("suite_exit", -1)),
    },
    "detected_by": det,
    "rule_strengthened_first": strengthened == "yes",
}
json.dump(meta, open(f"{dst}/meta.json", "w"), indent=1)
print("stored", dst)
