#!/usr/bin/env python3
"""Mutation self-test of the checker for one property (thorough tier).

Every entry of selftest_table.json (and of /verif/seeded/*/meta.json) is a
change known to break the property: the reverse patch of a `fix:` commit of
/repo, or a seeded patch. Each is applied to a scratch COPY of /repo's current
working tree (outside /repo and /verif, removed afterwards), the checker is run
on the copy, and the expected obligation key must be reported as violated.
Results are written as JSON to stdout; they never turn into a VIOLATION of the
property on /repo itself.
"""
import json, os, subprocess, sys, tempfile, shutil, glob

VERIF = os.path.dirname(os.path.dirname(os.path.abspath(__file__)))
REPO = os.environ.get("REPO", "/repo")
prop = sys.argv[1]
env = dict(os.environ, GOFLAGS="-mod=mod", GOPROXY="off", GOSUMDB="off", GOTOOLCHAIN="local", CGO_ENABLED="0")
env.pop("GOWORK", None)

entries = [e for e in json.load(open(os.path.join(VERIF, "tools", "selftest_table.json"))) if e["prop"] == prop]
for meta in sorted(glob.glob(os.path.join(VERIF, "seeded", "*", "meta.json"))):
    m = json.load(open(meta))
    for d in m.get("detected_by", []):
        if d["prop"] == prop:
            entries.append({"prop": prop, "patch": os.path.join(os.path.dirname(meta), "patch.diff"), "expect": d["expect"], "seed": m["id"], "stale": m.get("state", "") if str(m.get("state", "")).startswith("stale") else ""})

for b in sorted(glob.glob(os.path.join(VERIF, "benign", "*", "patch.diff"))):
    entries.append({"prop": prop, "patch": b, "benign": os.path.basename(os.path.dirname(b))})

# mechanical behaviour-preserving rewrites of the whole tree (tools/benigngen): every comparison mirrored, every
# if/else inverted, else-after-return removed, && / || operands swapped, && conditions nested
GEN = os.path.join(VERIF, "bin", "benigngen")
if os.path.exists(GEN):
    for mode in ("swapcmp", "invertif", "elseret", "swapand", "nestand", "adddefer"):
        entries.append({"prop": prop, "gen": mode})

from concurrent.futures import ThreadPoolExecutor
WORKERS = int(os.environ.get("SELFTEST_WORKERS", "5"))


def run_one(e):
    results = []
    tmp = tempfile.mkdtemp(prefix="dtnlint_selftest_")
    try:
        work = os.path.join(tmp, "repo")
        subprocess.run(["rsync", "-a", "--exclude", ".git", REPO + "/", work + "/"], check=True)
        if "gen" in e:
            name = "rewrite:" + e["gen"]
            e["expect"] = "(no violation)"
            e["benign"] = e["gen"]
            ap = subprocess.run([GEN, "-mode", e["gen"], work], capture_output=True, text=True)
        elif "commit" in e:
            name = "revert:" + e["commit"]
            diff = subprocess.run(["git", "-C", REPO, "show", "--format=", e["commit"]], capture_output=True, text=True)
            if diff.returncode != 0:
                results.append({"mutant": name, "expect": e["expect"], "status": "skipped", "why": "commit not found"})
                return results
            ap = subprocess.run(["patch", "-R", "-p1", "-s", "-f", "-F0", "-d", work], input=diff.stdout, capture_output=True, text=True)
        elif "benign" in e:
            name = "benign:" + e["benign"]
            e["expect"] = "(no violation)"
            ap = subprocess.run(["patch", "-p1", "-s", "-f", "-F0", "-d", work], input=open(e["patch"]).read(), capture_output=True, text=True)
        else:
            name = "seeded:" + e["seed"]
            if e.get("stale"):
                results.append({"mutant": name, "expect": e["expect"], "status": "skipped", "why": e["stale"]})
                return results
            ap = subprocess.run(["patch", "-p1", "-s", "-f", "-F0", "-d", work], input=open(e["patch"]).read(), capture_output=True, text=True)
        if ap.returncode != 0:
            results.append({"mutant": name, "expect": e["expect"], "status": "skipped", "why": "patch does not apply to the current tree"})
            return results
        b = subprocess.run(["go", "build", "./..."], cwd=work, env=env, capture_output=True, text=True)
        if b.returncode != 0:
            results.append({"mutant": name, "expect": e["expect"], "status": "skipped", "why": "mutant does not compile on the current tree"})
            return results
        out = subprocess.run([os.path.join(VERIF, "bin", "dtnlint"), "-prop", prop, "-repo", work, "-no-evidence"], env=env, capture_output=True, text=True)
        if "benign" in e:
            alarms = [l for l in out.stdout.splitlines() if l.startswith("violated")]
            results.append({"mutant": name, "expect": e["expect"], "status": "quiet" if out.returncode != 1 and not alarms else "FALSE-ALARM", "checker_exit": out.returncode, "alarms": alarms[:3]})
            return results
        hit = any(l.startswith("violated") and e["expect"] in l for l in out.stdout.splitlines())
        results.append({"mutant": name, "expect": e["expect"], "status": "killed" if hit else "MISSED", "checker_exit": out.returncode})
    finally:
        shutil.rmtree(tmp, ignore_errors=True)
    return results


with ThreadPoolExecutor(max_workers=WORKERS) as ex:
    results = [r for rs in ex.map(run_one, entries) for r in rs]
json.dump({"property": prop, "mutants": results}, sys.stdout, indent=1)
