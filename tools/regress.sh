#!/bin/bash
cd /verif
for p in C01 C02 C03 C04 C05 C06 C07 C08 C09 C10 C11 C12 C13 C14 C15 C16 C17 C18 C19 C20; do echo $p; done | xargs -P 3 -I{} sh -c 'python3 tools/selftest.py {} > /tmp/regress_{}.json 2>/tmp/regress_{}.err'
python3 - <<'PY'
import json,glob
bad=0
for f in sorted(glob.glob('/tmp/regress_C*.json')):
    try: d=json.load(open(f))
    except Exception as e:
        print(f,'ERR'); bad+=1; continue
    for m in d['mutants']:
        if m['status'] not in ('killed','quiet'):
            print(d['property'],m['mutant'],m['status'],m.get('why',''),m.get('alarms',''),m['expect'][:70]); bad+=1
print("regress done, problems:",bad)
PY
