#!/bin/sh
# runs every claimed check (quick by default) in parallel and prints one line per property
TIER="${1:-quick}"
cd /verif
IDS=$(python3 -c "import json;print(' '.join(c['property_id'] for c in json.load(open('MANIFEST.json'))['checks']))")
[ -n "${2:-}" ] && IDS="$2"
mkdir -p /tmp/runall
for id in $IDS; do
  ( ./check $id $TIER > /tmp/runall/$id.log 2>&1; echo "$id exit=$? $(grep -E 'tier=' /tmp/runall/$id.log | tail -1)" ) &
done
wait
