#!/usr/bin/env python3
"""seed_salvage.py [ids...]: for stored seeded/benign patches that seed_rebase.py marked stale because of a 3-way
conflict, apply the patch with --reject in a scratch worktree of /repo's HEAD, drop the rejected hunks, and keep the
result if it still builds and (for seeds) the demonstration still fails with it and passes without it."""
import glob, json, os, subprocess, sys, shutil
VERIF, REPO = "/verif", "/repo"
env = dict(os.environ, GOFLAGS="-mod=mod", GOPROXY="off", GOSUMDB="off", GOTOOLCHAIN="local")
env.pop("GOWORK", None)
def run(cmd, cwd=None, inp=None):
    return subprocess.run(cmd, cwd=cwd, input=inp, capture_output=True, text=True, env=env)
wt = "/tmp/seed_salvage_wt"
def fresh():
    run(["git", "-C", REPO, "worktree", "remove", "--force", wt]); shutil.rmtree(wt, ignore_errors=True)
    run(["git", "-C", REPO, "worktree", "add", "-q", "--detach", wt, "HEAD"])
only = set(sys.argv[1:])
items = []
for m in sorted(glob.glob(f"{VERIF}/seeded/*/meta.json")):
    d = json.load(open(m))
    if str(d.get("state", "")).startswith("stale: does not apply"):
        items.append((d["id"], os.path.dirname(m), "seed", d))
for b in sorted(glob.glob(f"{VERIF}/benign/*/patch.diff")):
    items.append((os.path.basename(os.path.dirname(b)), os.path.dirname(b), "benign", None))
for sid, d, kind, meta in items:
    if only and sid not in only:
        continue
    patch = open(f"{d}/patch.diff").read()
    fresh()
    if run(["git", "apply", "--check", "-"], cwd=wt, inp=patch).returncode == 0:
        if kind == "benign":
            continue
    r = run(["git", "apply", "--reject", "-"], cwd=wt, inp=patch)
    rej = [l for l in r.stderr.splitlines() if "Rejected hunk" in l]
    for f in glob.glob(f"{wt}/**/*.rej", recursive=True):
        os.remove(f)
    newp = run(["git", "diff"], cwd=wt).stdout
    if not newp.strip():
        print(sid, "nothing applies"); continue
    if run(["go", "build", "./..."], cwd=wt).returncode != 0:
        print(sid, "partial patch does not build"); continue
    if kind == "benign":
        pk = sorted({os.path.dirname(l[6:]) for l in newp.splitlines() if l.startswith("+++ b/")})
        t = run(["go", "test", "-vet=off", "-count=1"] + ["./" + x for x in pk], cwd=wt)
        if t.returncode != 0 and "tcpclv4" not in t.stdout:
            print(sid, "partial benign patch fails tests", t.stdout[-300:]); continue
        open(f"{d}/patch.diff", "w").write(newp)
        print(sid, "benign salvaged,", len(rej), "hunk(s) dropped"); continue
    demo = meta["demo"]["place_at"]; pkg = "./" + os.path.dirname(demo)
    shutil.copy(f"{d}/demo_test.go.txt", f"{wt}/{demo}")
    w = run(["go", "test", "-vet=off", "-count=1", "-run", "TestSeedDemo", pkg], cwd=wt).returncode
    run(["git", "apply", "-R", "-"], cwd=wt, inp=newp)
    wo = run(["go", "test", "-vet=off", "-count=1", "-run", "TestSeedDemo", pkg], cwd=wt).returncode
    if w != 0 and wo == 0:
        open(f"{d}/patch.diff", "w").write(newp)
        meta["state"] = f"rebased onto the current tree with {len(rej)} conflicting hunk(s) dropped; demonstration re-confirmed (fails with, passes without)"
        json.dump(meta, open(f"{d}/meta.json", "w"), indent=1)
        print(sid, "seed salvaged,", len(rej), "hunk(s) dropped")
    else:
        print(sid, f"not salvageable (with={w}, without={wo})")
run(["git", "-C", REPO, "worktree", "remove", "--force", wt])
