#!/usr/bin/env python3
"""record_fix.py <prop[,prop2]> <commit> <expect-key> <description...>: appends a fixed: line to known_findings.txt and
the reverse-patch mutant to tools/selftest_table.json (one entry per property)."""
import json, sys
props, commit, expect = sys.argv[1].split(","), sys.argv[2], sys.argv[3]
desc = " ".join(sys.argv[4:])
t = json.load(open("/verif/tools/selftest_table.json"))
for p in props:
    if not any(e["prop"] == p and e["commit"] == commit for e in t):
        t.append({"prop": p, "commit": commit, "expect": expect})
json.dump(t, open("/verif/tools/selftest_table.json", "w"), indent=1)
with open("/verif/known_findings.txt", "a") as f:
    f.write(f"fixed: property={props[0]} {commit} {expect} — {desc}\n")
print("recorded", props, commit)
