# executed by gen_manifest.py
claim("C15",
      "guarded-call dominance + value-flow rules on SSA (per call site of Core.SendStatusReport)",
      "Every call site that can emit a status report is enumerated from the type-checked program and must be dominated by the request-flag test and the event test that its (constant) status requires; the report bundle's flags, destination and referenced ID are traced by SSA value flow; the cascade guards must dominate the send. Holds for every input and path because it is a property of the CFG, not of sampled runs.",
      "Not decided: run-time content of reports, event histories.",
      "DESIGN.md §3 C15")
claim("C07",
      "complete-iteration rule on sync.Map.Range callbacks and fan-out loops; lockset (must-held epochs) for read-modify-write atomicity; guarded-call dominance",
      "For every schedule and every number of clients: all Range callbacks and recipient loops in pkg/agent visit every entry; a hand-over happens only on the recipient-test edge; each load-then-store/delete of the REST mailbox lies in one exclusive lock region and all mailbox writes hold that lock; dispatching delivers xor forwards; delivery is reported / the constraint released only on Deliver()==nil. These are CFG/lockset facts, so they hold for all interleavings the tests cannot enumerate.",
      "Not decided: exactly-once as a whole over register/unregister/fetch histories; content equality; WebSocket write failures.",
      "DESIGN.md §3 C07")
claim("C16",
      "sign/typestate rule over all writers of convergenceElem.ttl (resolved by go/types), lockset, guarded-call dominance, complete-iteration on sync.Map.Range",
      "Decides the representation invariant 'ttl<0 iff the last Start succeeded and stop channels exist' for every path: each writer of ttl is classified (negative only on Start()==nil together with channel creation and handler start; decrement only when positive; other stores non-negative, interprocedurally through parameters), and the registry wiring (forget only on !successful&&!retry, single instance, deactivate before delete, close-once guard, Restart order, listing only active). Quantifies over all operation sequences because every transition's code is covered, not sampled traces.",
      "Not decided: reference-state-machine trace equivalence as a whole, deadlock freedom, the isActive()/deactivate race outside the mutex.",
      "DESIGN.md §3 C16")
claim("C19",
      "polynomial abstract interpretation of the three update formulas (exact range on the unit box) + who-may-write + guarded-call dominance + lockset/escape analysis",
      "The value each update function stores is turned into a polynomial over the loaded values; its exact range for all inputs in [0,1] and the sign of new-old are computed in real arithmetic (vertices; univariate extrema when map keys coincide) — a proof over all real inputs, not samples; the forwarding gate (strictly greater, right maps and keys) must dominate every selection; every access to the two maps holds dataMutex on every path, interprocedurally, and the live map never leaves the region.",
      "Not decided: IEEE rounding/denormals; premise that config and received values are in [0,1].",
      "DESIGN.md §3 C19")
claim("C18",
      "lockset read-modify-write rule on guarded map entries + polynomial evaluation of every store to the copy budget + guarded-call dominance",
      "Each read-modify-write of a bundle's budget entry must lie in one exclusive lock region (all schedules); each store to remainingCopies is evaluated symbolically: selection = r-1 (or r-floor(r/2) with the block carrying exactly that term), guarded by r>=2 and paired with exactly one selected peer; failure = r+1 / r+announced copies on every path; single peer per call for binary spray; initial budgets L/1/received. These per-step facts hold for every history because they are checked on every path of the code.",
      "Not decided: the budget invariant over whole histories (restarts, retries across calls); only its per-step premises.",
      "DESIGN.md §3 C18")
claim("C14",
      "ordering (must-pass-before) on the call-graph-expanded CFG of SendBundle + lockset/RMW on IdKeeper.data + who-may-call / who-may-write inventories",
      "On every path of Core.SendBundle the sequence number is assigned before any call that can reach Store.Push and nowhere afterwards, the descriptor is built from the numbered bundle, the counter's read-increment-store-into-bundle is one exclusive region (all schedules of concurrent submissions), every originator funnels through SendBundle, and every assigned number is looked up in the persistent store before the push, which is reached only on the not-found outcome (the in-memory counter restarts at zero after a restart, stored bundles keep their IDs). Path and lock facts quantify over all submission sequences and interleavings.",
      "Not decided: uniqueness across the IdKeeper.clean horizon (time arithmetic), IDs of bundles that already left the store before a restart.",
      "DESIGN.md §3 C14")
claim("C05",
      "release-for-cause table over every call site that drops retention (guarded-call dominance), must-pass exits of forward, who-may-write Pending, call-graph wiring of the retry loop, assign-before-persist ordering, zero-time contradiction rule, multi-instance-goroutine atomicity rule, persist-before-blocking ordering of every constraint change (mutator summaries to a fixpoint)",
      "Safety half of store-carry-forward for all histories and schedules: no path releases a bundle's retention without its tabled cause; every exit of forward deletes-for-cause, releases-after-success or marks pending; the retry loop is wired and complete; numbering precedes persisting; a zero creation time is never used as an expiry date; concurrent failure reports are serialised; every change of the retention constraints is synced to the store before sender goroutines start, before waiting on them and before return (necessary for the retry mark to survive a stop while sends are in flight).",
      "Not decided: liveness (eventual retransmission), crash/restart beyond the persist-before-blocking ordering, epidemic's offer-to-every-new-peer as a history property.",
      "DESIGN.md §3 C05")
claim("C13",
      "membership-guard dominance (not-found outcome of a compare loop) + same-step recording + persisted-under-the-same-key value flow + sibling agreement of ReportFailure implementations + multi-instance-goroutine atomicity",
      "For every selection site of every replicating algorithm, on every path: select => filtered against the sent list => recorded in it => persisted under the key it is read from; the previous node is recorded in the same list on reception; every algorithm that keeps such a list removes exactly the failed peer on failure (the implementations are cross-checked against each other); failure reports are serialised; direct delivery bypasses the algorithm; while any NotifyNewBundle implementation overwrites per-bundle state unconditionally, the Core announces a bundle only when it is new (after numbering in SendBundle / behind the known-bundle test of receive).",
      "Not decided: behaviour over whole histories and restarts beyond where the list lives (store item vs. memory).",
      "DESIGN.md §3 C13")
claim("C20",
      "guarded-store dominance (replace-if-newer), guarded-call dominance (unicast next hop), who-may-write inventory of the node numbering, value-shape rules for arc cost and table construction, lockset",
      "Necessary conditions only: replacement of link-state data requires absent-or-strictly-newer on every path; a unicast bundle goes only to routingTable[destination] and is released only then; the ID<->vertex numbering has one consistent writer; arc costs and the table are built from the stated expressions; all state is lock-protected. The least-cost claim itself (result of a third-party Dijkstra on a run-time graph) is NOT decided by this check.",
      "Not decided: minimality of the chosen path (third-party library, run-time graph); arrival-order histories as a whole.",
      "DESIGN.md §3 C20")
claim("C06",
      "mutation inventory (who-may-write through bundle pointers, receiver-mutating-method closure) against an allow-table + unit/scale analysis of Duration conversions + reachability from exceeded edges + increment/decrement pairing with pure-call path consistency + narrow-counter rule + write-once rule for the reception time + must-pass removal of flagged unknown blocks before the sends",
      "For every forwarding path: routing code can change a bundle in transit only through the mutators the property allows and never its primary block; every duration that reaches a millisecond quantity has scale 10^6; the exceeded/expired outcomes lead to deletion and cannot reach a send; the hop count is restored exactly once after the sends; an 8-bit hop count cannot wrap and its overflow counts as exceeded; the reception time the age is computed from is written only while a descriptor is constructed; every path of forward to the sends passes the removal of unknown blocks flagged for removal (retries load the stored bundle and bypass receive).",
      "Not decided: byte identity of the transmitted encoding; timing of the age value.",
      "DESIGN.md §3 C06")
claim("C03",
      "finite-domain path enumeration of the block decoders/encoders (array length x CRC type), event-order rule on the enumerated paths (tee before reads, replayed header, compute before CRC field), resolved-constant configuration rule (polynomials, endianness, widths), guarded-store rule for created primary blocks",
      "For every admissible array length and every CRC type class {0,1,2,unknown} the decoder's CFG is enumerated with those two values bound: a declared CRC can only be accepted through the equal edge of the comparison, unknown types have no accepting path; on the accepting paths the CRC buffer provably receives exactly the block's reads/writes in order; the algorithm configuration is resolved through go/types to X-25 / CRC-32C, big-endian, zeroed field; the serialiser writes the freshly computed value and the announced length always matches the fields written; created primary blocks never end up CRC-less.",
      "Not decided: the bit-flip / burst detection theorems of the polynomials (mathematics, not code); the CRC libraries' internals.",
      "DESIGN.md §3 C03")
claim("C01",
      "wire-grammar agreement of sibling encoders/decoders by finite-domain path enumeration (15 codec pairs), optional-group guard equivalence by enumeration, effect analysis over the call graph (determinism), who-may-write inventory of the block list",
      "Structural necessary conditions of the round trip, decided for every path of every codec: encoder and decoder perform the same primitive operations in the same order with the same optional groups and announced lengths and move the same fields; the fragment group is selected equivalently on both sides; serialisation reaches no source of non-determinism except the two exempt map-valued blocks; every writer of the block list keeps the payload block last. A dropped, duplicated, reordered or mis-guarded field on one side — the realistic codec regression — is reported with both grammars.",
      "Not decided: equality of values and payload bytes after a round trip; CBOR width boundaries inside cboring; the accepted-bytes clause beyond the CRC-type and fragment-group consistency.",
      "DESIGN.md §3 C01")
claim("C02",
      "must-validate by path enumeration of every bundle producer + call-graph completeness of the validation tree (all implementations of ExtensionBlock/EndpointType) + result-flow of every validator call + rule-guard presence (control dependence on conditions mentioning the rule's operands) + constant-pattern anchoring of every endpoint regular expression",
      "Every producer path that can succeed passes Bundle.CheckValid and returns its verdict; the validator reaches the validator of every block type / endpoint scheme in the program and drops no verdict; each structural rule of the statement has an error branch depending on its operands. Quantifies over all inputs because it is about all paths; a new block type without a reachable validator, a dropped verdict or a deleted rule is caught; every regular expression of the endpoint code is a constant anchored at both ends (whole-string match).",
      "Not decided: the exact truth table of each predicate, regexp semantics beyond anchoring, lifetime at the instant of use.",
      "DESIGN.md §3 C02")
claim("C09",
      "path enumeration of Bundle.Fragment with the payload length bound to 0 / positive and the must-not-fragment test bound; value-flow rules on fragmentPrimaryBlock and the payload slice bounds; control-dependence set of the block copy",
      "Decides for all inputs: no success path returns an empty list; must-not-fragment is always refused; fragments copy the identity fields and set IsFragment; slices are [i:min(i+k,len)] with the loop advancing by the same k (partition by construction); extension blocks are copied under exactly the stated conditions. The per-fragment size bound and byte-identical reassembly are arithmetic over run-time sizes and are explicitly NOT decided.",
      "Not decided: each fragment <= mtu (overhead estimate), byte-identical reassembly.",
      "DESIGN.md §3 C09")
claim("C10",
      "linear-bounds entailment from dominating guards for the merge slice, monotone-accumulator rule on the loop-carried coverage frontier, value-dependence of fragment coordinates, guarded append in the store",
      "For every collection of fragments: the merge can only slice within bounds (both bounds entailed by dominating guards), the coverage frontier never moves backwards (so contained/overlapping fragments cannot cause a false gap), fragments of fragments keep original coordinates (value dependence on the input's offset/total), the store de-duplicates parts before collecting, and the part file name is derived from the very length recorded as the part's dedup key. These are necessary conditions; equality of the reassembled payload is not decided.",
      "Not decided: that the returned payload equals the original for covering sets.",
      "DESIGN.md §3 C10")
claim("C11",
      "path enumeration of OutgoingTransfer.NextSegment (END/START typestate), guarded-return dominance in TransferManager.Send, receiver typestate by guarded-call dominance, who-may-write inventories of the two flags, value-flow of the segment buffer",
      "Necessary conditions for every length/segment-size pair and every path: a full segment can carry END (the divisor case), partial reads always do, START only on the first segment; Send's success returns are dominated by acknowledged == sent with the sent length reported only after EOF; the receiver hands a bundle up only after END and a successful parse and never appends data of foreign or finished transfers; segment data never exceeds the negotiated size.",
      "Not decided: that the concatenation equals the encoding, behaviour under concurrency and faults, the peer's conformance.",
      "DESIGN.md §3 C11")
claim("C12",
      "ordering / error-discipline rules on MTCPClient.Send (must-pass, guarded store into the named result, defer-before-write), framing agreement of client and server, guarded-store typestate of the BBC reader, sibling agreement of the sequence successor, resolved-constant bit-layout rule, guarded-call dominance in the connector",
      "Necessary conditions on every path: the MTCP frame header announces exactly the serialised length and is followed by those bytes, a flush, and then a zero-length probe written to the raw connection in a write of its own (roles identified by callee and argument, order by must-pass); each step's error ends the send and reaches the PeerDisappeared report; the server skips zero-length frames and reports only parsed bundles; a BBC fragment's payload is appended only after all four checks, sequence numbers advance identically on both sides within the field width, header masks are disjoint and agree, a bundle is reported only when finished and parsed and every error exit broadcasts a failure fragment.",
      "Not decided: stream order preservation, behaviour under arbitrary loss/duplication beyond the single-fragment checks, the xz library.",
      "DESIGN.md §3 C12")
claim("C17",
      "wire-grammar agreement by path enumeration (15 cboring pairs + 8 TCPCLv4 message pairs with length-prefix discipline), resolved-constant agreement of dispatch tables / header codes, guarded-return rules for invalid values",
      "For every success path of every auxiliary codec: same primitive operations, order, optional groups, announced lengths and fields on both sides; every variable-length part is written as len(X) then X and read as n then exactly n bytes, which — all other fields being fixed-width — is the static content of 'decoding consumes exactly what was encoded'; type codes agree across table, encoder and decoder and are distinct; ReadMessage re-prepends the consumed byte; invalid reason codes, wrong magic/version, unknown CLA types and malformed endpoint URIs have no accepting path without their validity test.",
      "Not decided: equality of decoded values, endpoint URI text <-> structure bijection (regexp semantics), extreme field values.",
      "DESIGN.md §3 C17")
claim("C08",
      "key-derivation value flow + who-may-call/who-may-write inventories, file-before-index ordering (must-pass with error guards), lockset read-modify-write rule on the store record, complete-iteration of the expiry sweep",
      "Necessary conditions on every path/schedule: one key derivation (scrubbed ID string) for every index access; the part file is stored successfully before the index entry is written and is removed before it; collecting a fragment (query, append part, update) and insert-if-absent are one exclusive region and every other index write holds the same mutex; the sweep visits all expired items. Crash-point behaviour and map-equivalence over histories are explicitly NOT decided.",
      "Not decided: equivalence with a reference map over histories; state after a kill at an arbitrary instruction; badger/badgerhold internals; fsync of part files.",
      "DESIGN.md §3 C08")
claim("C04",
      "taint-to-allocation rule (wire-read sources to make() sinks with narrow-type / dominating-bound sanitisers) over every make() of the repository, frozen single-writer origin chain for the peer-declared segment size with bound checks at the origin, call-graph reachability of panic instructions from all decoder entry points (dead defaults discharged by path enumeration), loop-termination obligations for decoder loops, comma-ok discipline for type assertions in decoder-reachable code",
      "For all inputs: no allocation in the repository is sized by a wire value without a narrow type or a dominating bound (allocations that grow with arrived data are the accepted idioms); the negotiated segment size reaches the sender's buffer only through a checked chain and is bounded to [1, cap] at its origin; no explicit panic of the repository or cboring is reachable from any decoder entry point; every decoder loop is bounded by in-memory data or consumes input; every single-value type assertion reachable from a decoder is a registry idiom or dominated by a comma-ok test of the same value.",
      "Not decided: panics inside third-party libraries (xz, gorilla, badger, reflect), nil dereference and index panics in general, slow-but-finite inputs, allocation behaviour inside cboring (one table entry).",
      "DESIGN.md §3 C04")

# ---- additions of the audit round (appended to the texts above) ----
def extend(pid, technique="", text="", note=""):
    c = CLAIMED[pid]
    if technique:
        c["technique"] += "; " + technique
    if text:
        c["text"] += " " + text
    if note:
        c["note"] += " " + note

extend("C02", "syntax-tree analysis (regexp/syntax) of the constant endpoint patterns",
       "What an endpoint pattern captures consists of visible ASCII characters only and a numeric group accepts no leading zero (decided on the pattern's syntax tree).")
extend("C03", "helper obligations for checkCRCField (header as received, snapshot-before-read, table/width per type, accept only on equality)",
       "The array header and the CRC field's header enter the checksum as received: the tee is installed before the array header is read and nothing is replayed or re-encoded.")
extend("C04", "nil-test rule for interface values handed to encoding/binary, service-goroutine send rule for the BBC reader",
       "A caller-supplied interface{} reaches binary.Write only behind a non-nil test; the BBC reader never blocks on a channel that is read on demand only.")
extend("C05", "whole-bundle-only release on delivered reports, fragment-aware filing (known finding)",
       "A 'delivered' report releases a stored bundle only if it refers to the whole bundle.",
       "Known finding (not repaired): a second fragment arriving at a relay that holds another fragment of the bundle is dropped (scrubbed-ID identity in the routing layer).")
extend("C07", "agent-drains rules (no upward blocking send in a receiver loop, deferred drain after an abnormal exit)",
       "Every agent keeps reading its receiver channel until it is closed or a shutdown arrives and never blocks on its own sender channel inside that loop - the premise under which the MuxAgent may hold its lock across the hand-over.")
extend("C08", "index-then-files order of Delete, acknowledged-without-storing returns of Push, Load/IsComplete agreement",
       "Delete removes the record before the files (a stop in between leaves orphans, never an unloadable record); Push acknowledges without writing only if the record is the whole bundle or contains the fragment; Load reassembles only fragmented records.",
       "(the earlier sentence 'is removed before it' is superseded: the record goes first.)")
extend("C09", "fits-as-itself early return, numbering-preserved copies",
       "A bundle whose serialisation fits is returned as itself before any fragment is built; copied blocks keep their numbers and order (no AddExtensionBlock in Fragment/ReassembleFragments).")
extend("C11", "nil-reset field rule (contradiction rule)",
       "A pointer field that the session clean-up resets to nil is used by other methods only behind a non-nil test of a snapshot: Send on a finished session returns an error.")
extend("C12", "service-goroutine send rule, timeout existence (known finding)",
       "", "Known finding (not repaired): the loss of the last fragment of a BBC transmission is never signalled (no receive timeout).")
extend("C13", "per-bundle dispatch reservation (who-may-call + guarded steps + deferred release), previous node on every initialising branch",
       "forward/localDelivery are entered only through dispatching, which reserves the bundle's ID in a concurrent set before consulting the algorithm (two goroutines cannot select for one bundle at once); every branch of the spray NotifyNewBundle implementations records the previous node.")
extend("C14", "last-use forgetting rule for the keeper, persisted-state existence (known finding)",
       "The keeper forgets a counter only by the time of its last use recorded by update().",
       "Known finding (not repaired): sequence numbers of clock-less bundles restart at 0 after a restart once the earlier bundle left the store (no persisted counter).")
extend("C16", "stoppable-goroutine rule (every send of a close-signalled goroutine is a select case together with its stop channel) for the manager, its elements and the MTCP/TCPCLv4 clients; registration serialisation; active-test under the element mutex",
       "Close/deactivate cannot wait for ever on a goroutine that is blocked sending a status nobody reads; registrations of one address are serialised and an active element is neither started twice nor given up by a racing retry.")
extend("C17", "decoder-validates rule for endpoint IDs, dtn:none-is-zero, regexp language rules shared with C02, text-number-width",
       "EndpointID.UnmarshalCbor succeeds only with CheckValid's verdict (what is accepted can be encoded again); only the integer 0 decodes as dtn:none; URI numbers have one text form.")
extend("C20", "link-event must-pass rules with the other-session exemption, no-escape of DTLSR state",
       "Every peer appearance/disappearance reaches the link state, the change flag and the record stamp; a disappearance is ignored only while another active sender leads to the same peer; the live peers map never leaves the lock region (the broadcast block gets a copy).")

# ---- rules added in seeding rounds 3/4 and audit round 2 (DESIGN.md §12, §14, §15)
extend("C01", "pooled-object rule (an object taken from a sync.Pool is reset before its first use on every path); codec error discipline (no nil after a failed step)",
       "A scratch object taken from a pool starts every use from a reset state; no codec returns nil on a path on which one of its steps failed.")
extend("C02", "free-number search (restart on a hit, compared with every block), break-code-only-at-block-boundary, builder result shares no backing store with the builder",
       "The break code ends a bundle only where a block may begin; the number chosen for a new block was compared with every block of the bundle; a built bundle's block slice does not alias the builder's.")
extend("C03", "pooled-object rule shared with C01")
extend("C04", "closable-channel rule (a send on a channel that some path closes sits behind a recover or a stop select), negotiated-size-not-raised (neverAbove) rule, library decoders sized by declared values (table, known finding)",
       "The negotiated segment size is never raised above the peer's announcement after the handshake; a send on a channel that the shutdown closes cannot panic the node.",
       "Known finding (not repaired): a received BBC transmission reaches ulikunitz/xz's reader, which allocates the dictionary size a block header declares (up to 4 GiB) and has no cap.")
extend("C05", "failure-always-reported (every failed Send reaches ReportFailure), loop-variable capture rule for per-peer goroutines, constraints/properties persisted after each change, reception-path write-only-when-new (shared with C13)",
       "Each failed transmission is reported to the algorithm with exactly its peer; a retention constraint changed in memory is written to the store before the function leaves; a received duplicate does not write the known bundle's record back.")
extend("C06", "reception-time source rule, unsupported-blocks-removed on every transmission, free-number rule shared with C02")
extend("C07", "listing-matches-delivery (Endpoints() and the recipient test read the same table), mux children under its lock, fragment-aware filing and confirmed hand-over (known findings)",
       "An agent lists exactly the endpoints it delivers for, from one table.",
       "Known findings (not repaired): a second fragment of a locally addressed bundle is never handed over (scrubbed-ID identity); AgentManager.Deliver reports success after an asynchronous send decided by an earlier HasEndpoint test.")
extend("C08", "part-file lockset (every file operation of a part under the store mutex together with its record), write-errors-not-dropped (Flush/Sync/Close of a written file), removed-parts-not-overwritten, Update keeps the stored parts, part-file names tagged by kind",
       "File and record of a part change under one lock; a failed write of a part file fails the Push; Store.Update writes metadata only and keeps the stored Fragmented/Parts; a whole bundle's file name cannot equal a fragment's.")
extend("C09", "file-name-from-recorded-length, sorted-by-offset premise of reassembly")
extend("C10", "write-errors-not-dropped and part-file lockset shared with C08")
extend("C11", "peer MRU chain not raised (shared with C04), acknowledgement of the END segment only after the data was accepted as a bundle, refusal on the unacceptable branch, codec error discipline for the TCPCLv4 packages",
       "The END segment is acknowledged only after ToBundle()==nil and an unacceptable transfer is answered by XFER_REFUSE: the sender's success stands for a bundle the receiver took.")
extend("C12", "field-buffer-reset (a buffer kept in the adapter is reset before each use), MTCP frame bounded by the announced length and drained, refused bundle skipped, closable-channel sends",
       "The MTCP server parses a bundle from exactly the announced bytes and keeps serving the connection after a refused bundle; a reused send buffer never carries a previous bundle's bytes.")
extend("C13", "dispatch-exclusive covers the algorithm consultation (DispatchingAllowed inside the reservation), notify-once, properties-persisted, reception-path Sync only for a new bundle, duplicate-reception previous node (known finding)",
       "The algorithm is consulted only inside the per-bundle reservation; NotifyNewBundle is reached only for a bundle new to the node; the reception path never writes a known bundle's record back from an earlier copy.",
       "Known finding (not repaired): the previous node of a second reception of a held bundle is not recorded; the bundle is offered to that peer.")
extend("C14", "number-checked-against-store on every iteration of the assignment loop")
extend("C15", "Send-result truthfulness (no ConvergenceSender.Send returns nil after a failed step), hand-over confirmation shared with C07 (known finding)",
       "'forwarded' stands for a Send whose every step succeeded.",
       "Known finding (not repaired): a 'delivered' report can be sent although the only client left before the hand-over.")
extend("C16", "registry-key agreement for every access to the adapter registry, closed-while-starting re-test after the Store, always-removes, providers guarded",
       "Every registry access is keyed by the adapter's Address() (or the key a Range handed out); an element stored by a registration that outlived Close is stopped by that registration.")
extend("C17", "ReadMessage rule per decoder start: re-prepended byte or peek/unread on the same reader, never a buffered reader created for one call",
       "Every decoder ReadMessage starts reads from a reader that begins with the dispatch byte, and no read-ahead is lost between two messages.")
extend("C18", "notify-once shared with C13, constructor-helper view of the initial budget")
extend("C19", "consistent-snapshot rule for the forwarding comparison, floating-point form rule (old + t, t>=0 / old * f, f in [0,1]) with constants resolved through helper parameters",
       "The three updates are written in a form whose IEEE-754 evaluation is monotone in the required direction.")
extend("C20", "own-record / purge-stamps-record, disappearance-after-deactivation, table replaced-or-pruned",
       "A node never takes its own broadcast for received link-state data; every purge gives the record a newer stamp; a recomputation leaves no destination without a path in the table.")


# ---- seeding round 5 and audit round 3 (DESIGN.md §16, §17)
extend("C01", "payload-last guard shared with C02, loop-continue complement of the error discipline")
extend("C02", "number-0-is-the-primary-block guard, millisecond/Duration range and sign rules",
       "The uniqueness test of block numbers counts the primary block's 0; a lifetime beyond a Duration's range cannot make a valid bundle look expired.")
extend("C03", "rejection-propagates (error discipline of the bundle/block decoders incl. loop-continue)",
       "The rejection of a block reaches the caller of the bundle decoder: no decoder returns nil or goes on with the next block after a failed step.")
extend("C04", "registered-channel removal (no orphaned feedback channel for the receive loop to block on)")
extend("C05", "served-after-sent (known finding), millisecond/Duration range and sign rules, reservation key agreement and owner-only release",
       "The per-bundle reservation is released under the key it was taken with and only by its owner; ages and lifetimes cannot wrap around.",
       "Known finding (not repaired): a peer is recorded as served at selection time; a shutdown during the transmission loses it.")
extend("C06", "millisecond/Duration range and sign rules (upper bound before the multiplication, non-negative before the unsigned conversion, clamp idiom)")
extend("C09", "fragments-own-blocks (freshInLoop), copies-untouched (may-mutate closure over *Bundle methods)")
extend("C10", "copies-untouched for ReassembleFragments")
extend("C11", "Transfer ID from one atomic increment, registered-channel removal, no cyclic wait between the established stage and the transfer manager",
       "Concurrent Sends get distinct Transfer IDs; the stage never blocks on the manager while only it can empty the manager's output channel.")
extend("C12", "Connector.tid guarded by sendMutex, Send completion (known finding)",
       "Concurrent BBC transmissions cannot share a transmission ID.",
       "Known finding (not repaired): BBC Send returns success before the fragments are broadcast and never hears a later failure fragment.")
extend("C13", "reservation released by its owner only, membership test by compare loop or by an index kept in step")
extend("C15", "Deliver guarded by the agents' registrations (shared with C07)")
extend("C16", "wait-under-lock (lockset x signaller's acquire set), report channel never closed",
       "No function waits for a channel while holding a mutex its signaller may need; the channel the elements report into is never closed.")
extend("C18", "budget entries outlive the bundle, refund only for peers the algorithm chose",
       "A budget entry is deleted only for a bundle the store no longer knows; a failed direct delivery is not refunded.")
extend("C19", "advertised vector replaced as a whole")
extend("C20", "once-per-peer within one call of filterCLAs")


# ---- audit round 4 (DESIGN.md §19)
extend("C04", "non-negative arc costs for the shortest-path search over received link-state data",
       "Link-state bytes from the network cannot make the routing table computation run for ever (every time difference in an edge cost is taken behind now >= lossTime).")
extend("C05", "acknowledged-not-dropped-on-stop (known finding), ack-after-hand-over shared with C11",
       "", "Known finding (not repaired): bundles acknowledged to their sender but still between CLA and Core are dropped at an orderly shutdown.")
extend("C06", "bundle age addition saturates")
extend("C07", "REST client life cycle (registration re-tested with the mailbox, client removed with the mailbox, taken bundles returned when the response fails), WebSocket writes bounded by a deadline",
       "No bundle enters the mailbox of an unregistered REST client; a failed /fetch response loses nothing; a client that stops reading cannot stall the fan-out.")
extend("C08", "index database opened with Truncate",
       "A write cut short by a kill costs only that unacknowledged entry, not the start of the node.")
extend("C11", "END acknowledged only after the bundle was handed up")
extend("C16", "restartable adapters (channels closed on the way down are re-created by Start), removal serialised with registration, failed Start releases its connection",
       "An adapter can be started again after a stop; an element is removed from the registry only under the registration lock; a timed-out TCPCLv4 Start dials again.")
extend("C20", "edge cost sign guard")


# ---- seeding round 6 (DESIGN.md §20)
extend("C05", "file-before-index shared with C08")
extend("C07", "dispatch reservation covers local delivery (shared with C05/C13)")
extend("C08", "superseded fragment files removed only after the record update succeeded")
extend("C12", "single-fragment transmissions: finished state from the first fragment's end mark")
extend("C13", "previous node looked for on every path of NotifyNewBundle; peer identity written at set-up only")
extend("C18", "peer identity written at set-up only (the failed peer can be found again after the session was lost)")

# round g of seeding
extend("C04", "wire-controlled element index: guard analysis over dominating conditions (index derived from, or counting up to, a length read from the input)",
       "An element of a slice is addressed with an index the input controls (directly, or as the counter of a loop that runs up to an announced count) only under a dominating comparison of that index with len() of the slice or with a constant.")
extend("C06", "stale-pointer path rule: no CFG path look-up -> block-list change -> use of the *CanonicalBlock without a new look-up",
       "A pointer into the block slice handed out by ExtensionBlock/PayloadBlock is not used after a block was removed, added or the blocks were sorted on the same path (the per-hop updates would land in another block).")
extend("C10", "placement of the merged tail: accumulator/frontier lockstep over the loop's phi edges",
       "The part of a fragment beyond the merged prefix is written at the frontier: appended to an accumulator that starts empty and moves in lockstep with the frontier on every loop edge, or copied to accumulator[frontier:].")
extend("C17", "code-table agreement by concrete evaluation of IsValid() on every value of the one-byte range against the declared constants",
       "For every one-byte code type with IsValid(), the method (evaluated on constants through its String() or switch table) accepts exactly the declared constants: a code the node can write is a code it can read, and no undeclared value is accepted.")
# round h of seeding
extend("C18", "guard freshness: the 'at least two copies' test must be evaluated after the last budget store that can precede a selection (path rule over the CFG)",
       "The test 'remaining copies >= 2' in force at a selection is one that no budget update can follow on the way to that selection: a test in front of the peer loop does not cover the second peer of a round.")
