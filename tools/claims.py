# executed by gen_manifest.py
claim("C15",
      "guarded-call dominance + value-flow rules on SSA (per call site of Core.SendStatusReport)",
      "Every call site that can emit a status report is enumerated from the type-checked program and must be dominated by the request-flag test and the event test that its (constant) status requires; the report bundle's flags, destination and referenced ID are traced by SSA value flow; the cascade guards must dominate the send. Holds for every input and path because it is a property of the CFG, not of sampled runs.",
      "Not decided: run-time content of reports, event histories.",
      "DESIGN.md §3 C15")
