# executed by gen_manifest.py
claim("C15",
      "guarded-call dominance + value-flow rules on SSA (per call site of Core.SendStatusReport)",
      "Every call site that can emit a status report is enumerated from the type-checked program and must be dominated by the request-flag test and the event test that its (constant) status requires; the report bundle's flags, destination and referenced ID are traced by SSA value flow; the cascade guards must dominate the send. Holds for every input and path because it is a property of the CFG, not of sampled runs.",
      "Not decided: run-time content of reports, event histories.",
      "DESIGN.md §3 C15")
claim("C07",
      "complete-iteration rule on sync.Map.Range callbacks and fan-out loops; lockset (must-held epochs) for read-modify-write atomicity; guarded-call dominance",
      "For every schedule and every number of clients: all Range callbacks and recipient loops in pkg/agent visit every entry; a hand-over happens only on the recipient-test edge; each load-then-store/delete of the REST mailbox lies in one exclusive lock region and all mailbox writes hold that lock; dispatching delivers xor forwards; delivery is reported / the constraint released only on Deliver()==nil. These are CFG/lockset facts, so they hold for all interleavings the tests cannot enumerate.",
      "Not decided: exactly-once as a whole over register/unregister/fetch histories; content equality; WebSocket write failures.",
      "DESIGN.md §3 C07")
claim("C16",
      "sign/typestate rule over all writers of convergenceElem.ttl (resolved by go/types), lockset, guarded-call dominance, complete-iteration on sync.Map.Range",
      "Decides the representation invariant 'ttl<0 iff the last Start succeeded and stop channels exist' for every path: each writer of ttl is classified (negative only on Start()==nil together with channel creation and handler start; decrement only when positive; other stores non-negative, interprocedurally through parameters), and the registry wiring (forget only on !successful&&!retry, single instance, deactivate before delete, close-once guard, Restart order, listing only active). Quantifies over all operation sequences because every transition's code is covered, not sampled traces.",
      "Not decided: reference-state-machine trace equivalence as a whole, deadlock freedom, the isActive()/deactivate race outside the mutex.",
      "DESIGN.md §3 C16")
