#!/bin/bash
# seed_eval.sh <seed worktree> <id> <prop> : confirms a seeded change in a fresh scratch worktree and runs the check against it
set -u
WT="$1"; ID="$2"; PROP="$3"
export GOFLAGS=-mod=mod GOPROXY=off GOSUMDB=off GOTOOLCHAIN=local; unset GOWORK
OUT=/tmp/seed_eval/$ID; rm -rf "$OUT"; mkdir -p "$OUT"
git -C "$WT" diff > "$OUT/patch.diff"
DEMO=$(git -C "$WT" status --short | awk '/^\?\?.*zz_seed_test.go/{print $2}' | head -1)
cp "$WT/$DEMO" "$OUT/zz_seed_test.go"; echo "$DEMO" > "$OUT/demo_path"
PKG=./$(dirname "$DEMO")
S=/tmp/seed_eval/wt_$ID; git -C /repo worktree remove --force "$S" 2>/dev/null; rm -rf "$S"
git -C /repo worktree add -q --detach "$S" HEAD
cp "$OUT/zz_seed_test.go" "$S/$DEMO"
( cd "$S" && go test -vet=off -count=1 -run TestSeedDemo "$PKG" > "$OUT/demo_without.log" 2>&1; echo "demo_without_exit=$?" > "$OUT/result" )
( cd "$S" && git apply "$OUT/patch.diff" && go build ./... > "$OUT/build.log" 2>&1; echo "build_exit=$?" >> "$OUT/result" )
( cd "$S" && go test -vet=off -count=1 -run TestSeedDemo "$PKG" > "$OUT/demo_with.log" 2>&1; echo "demo_with_exit=$?" >> "$OUT/result" )
if [ "${FULL:-1}" = 1 ]; then
  ( cd "$S" && rm -f "$DEMO" && go test -vet=off -count=1 ./... > "$OUT/suite.log" 2>&1; echo "suite_exit=$?" >> "$OUT/result"; grep -E "^(FAIL|---)" "$OUT/suite.log" | head -5 >> "$OUT/result" )
fi
git -C /repo worktree remove --force "$S"
# run the checker against the patched tree (scratch copy, not /repo itself, so that parallel evaluations do not interfere)
C=/tmp/seed_eval/copy_$ID; rm -rf "$C"; rsync -a --exclude .git /repo/ "$C/"; ( cd "$C" && patch -p1 -s < "$OUT/patch.diff" )
/verif/bin/dtnlint -prop "$PROP" -repo "$C" -no-evidence > "$OUT/check_$PROP.log" 2>&1; echo "check_${PROP}_exit=$?" >> "$OUT/result"
grep -E "^violated|^UNDEC" "$OUT/check_$PROP.log" | head -5 >> "$OUT/result"
rm -rf "$C"
cat "$OUT/result"
