#!/bin/bash
# benign_run.sh [props...]: runs the named checks (default: all 20) on every behaviour-preserving refactored tree
# under /verif/benign; prints only the runs that did not exit 0 (false alarms / undecided).
cd /verif
PROPS="${@:-C01 C02 C03 C04 C05 C06 C07 C08 C09 C10 C11 C12 C13 C14 C15 C16 C17 C18 C19 C20}"
for d in benign/R*/; do
  i=$(basename $d); C=/tmp/benign_$i; rm -rf $C; rsync -a --exclude .git /repo/ $C/
  (cd $C && patch -p1 -s -F0 < /verif/benign/$i/patch.diff) || { echo "$i does not apply"; rm -rf $C; continue; }
  for p in $PROPS; do echo $p; done | xargs -P 4 -I{} sh -c "bin/dtnlint -prop {} -repo $C -no-evidence > /tmp/benign_${i}_{}.log 2>&1; e=\$?; [ \$e = 0 ] || echo $i {} exit=\$e"
  rm -rf $C
done
echo benign-run-done
